"""Positive fixture for C01.reach: must be flagged on every run (never imported, only parsed)."""
import importlib.util
from ast import unparse

from fickling.analysis import Analysis, AnalysisResult, Severity
from fickling.fickle import Opcode


class ResolvingImports(Analysis):
    def analyze(self, context):
        for node in context.pickled.properties.imports:
            if importlib.util.find_spec(node.module) is None:
                yield AnalysisResult(Severity.LIKELY_UNSAFE, "module does not exist", "ResolvingImports", trigger=node.module)


class Folding(Opcode):
    name = "FLOAT"

    def run(self, interpreter):
        interpreter.stack.append(eval(unparse(interpreter.stack.pop())))
