"""Static-analysis checkers for trailofbits/fickling (see /verif/DESIGN.md).

Nothing in this package imports or executes ``fickling``; every verdict is computed from
the parsed source of ``$FICKLING_REPO`` (default ``/repo``).
"""
