"""E6 -- AST-constructor field typing against the ASDL signatures in `ast.<Node>.__doc__`.

Two layers: (a) every FRESH node the E5 interpreter saw an opcode handler build, with the abstract
Python kind of each field value; (b) a syntactic pass over every `ast.X(...)` call in the package
outside the handlers.  Checked: a `T*` field must receive a re-iterable sequence (list / tuple), not a
one-shot iterator and not a single node; a node-typed `T` field must not receive a sequence;
`Constant.value` must not receive an AST node.
"""

from __future__ import annotations

import ast
import re
from dataclasses import dataclass
from typing import Dict, List, Optional, Tuple

from .model import FuncInfo, Repo, dotted
from .opsummary import OpSummary, reach
from .util import body_walk, src
from .vmvals import AttrOf, Const, Fresh, Seq, SliceV, Unknown, Val

_BUILTIN_TYPES = {"identifier", "int", "string", "constant"}
_SIG: Dict[str, Dict[str, Tuple[str, str]]] = {}


def signature(cls_name: str) -> Dict[str, Tuple[str, str]]:
    """field -> (type, quantifier in {'', '*', '?'}) parsed from the ASDL docstring."""
    if cls_name in _SIG:
        return _SIG[cls_name]
    node = getattr(ast, cls_name, None)
    out: Dict[str, Tuple[str, str]] = {}
    doc = getattr(node, "__doc__", "") or ""
    m = re.match(r"\s*\w+\((.*)\)\s*$", doc.strip().split("\n")[0]) if doc else None
    if m:
        for part in m.group(1).split(","):
            part = part.strip()
            if not part:
                continue
            t, name = part.rsplit(" ", 1)
            q = ""
            if t.endswith("*"):
                t, q = t[:-1], "*"
            elif t.endswith("?"):
                t, q = t[:-1], "?"
            out[name] = (t, q)
    _SIG[cls_name] = out
    return out


@dataclass
class FieldProblem:
    node_cls: str
    fld: str
    kind: str  # iterator-for-sequence | node-for-sequence | sequence-for-node | node-for-constant
    got: str
    line: int
    detail: str


def _kind_of(v: Val) -> str:
    return v.pykind


def check_fresh(f: Fresh) -> List[FieldProblem]:
    cls = f.cls.split(".", 1)[1]
    sig = signature(cls)
    out: List[FieldProblem] = []
    for fld, v in f.fields.items():
        if fld not in sig:
            continue
        t, q = sig[fld]
        k = _kind_of(v)
        if q == "*":
            if k == "iterator":
                out.append(FieldProblem(cls, fld, "iterator-for-sequence", v.short(), f.line, f"{cls}.{fld} is declared `{t}*` but receives a one-shot iterator ({v.short()}): the first traversal (unparse, NodeVisitor, ast.walk) exhausts it and every later one sees an empty sequence"))
            elif k == "node":
                out.append(FieldProblem(cls, fld, "node-for-sequence", v.short(), f.line, f"{cls}.{fld} is declared `{t}*` but receives a single AST node ({v.short()})"))
        elif t not in _BUILTIN_TYPES:
            if k in ("list", "tuple", "iterator", "set", "dict"):
                out.append(FieldProblem(cls, fld, "sequence-for-node", v.short(), f.line, f"{cls}.{fld} is declared `{t}` (one node) but receives a {k} ({v.short()})"))
        elif t == "constant":
            if k == "node" or (isinstance(v, Fresh)):
                out.append(FieldProblem(cls, fld, "node-for-constant", v.short(), f.line, f"{cls}.{fld} is declared `constant` but receives an AST node ({v.short()}): unparse prints the node object's repr, not a value"))
    return out


def all_fresh(summaries: List[OpSummary]) -> List[Tuple[OpSummary, Fresh]]:
    """Every FRESH node reachable from anything an opcode path pushed, sank, memoised or mutated in."""
    out = []
    seen = set()
    for s in summaries:
        for p in s.paths:
            if p.outcome != "normal":
                continue
            st = p.state
            seeds: List[Val] = [v for v, _ in st.pushes] + [v for v, _ in st.sinks] + [v for _, v, _ in st.memo_writes] + [m.arg for m in st.mutations if m.arg is not None]
            for sd in seeds:
                for v in reach(sd, st):
                    if isinstance(v, Fresh) and (s.name, v.cls, v.line, tuple(sorted((k, x.pykind, type(x).__name__) for k, x in v.fields.items()))) not in seen:
                        seen.add((s.name, v.cls, v.line, tuple(sorted((k, x.pykind, type(x).__name__) for k, x in v.fields.items()))))
                        out.append((s, v))
    return out


# ------------------------------------------------------------------ syntactic layer
_ITER_CALLS = {"reversed", "map", "filter", "zip", "iter", "enumerate"}
_LIST_CALLS = {"list", "sorted"}


def syntactic_kind(e: ast.AST, fn: Optional[ast.AST] = None, depth: int = 0) -> str:
    if isinstance(e, (ast.List, ast.ListComp)):
        return "list"
    if isinstance(e, ast.Tuple):
        return "tuple"
    if isinstance(e, ast.GeneratorExp):
        return "iterator"
    if isinstance(e, (ast.Set, ast.SetComp)):
        return "set"
    if isinstance(e, (ast.Dict, ast.DictComp)):
        return "dict"
    if isinstance(e, ast.Constant):
        return "const"
    if isinstance(e, ast.Call):
        d = dotted(e.func) or ""
        if d in _ITER_CALLS:
            return "iterator"
        if d in _LIST_CALLS:
            return "list"
        if d == "tuple":
            return "tuple"
        if d.startswith("ast.") or d == "make_constant":
            return "node"
        return "unknown"
    if isinstance(e, ast.Subscript) and isinstance(e.slice, ast.Slice):
        return syntactic_kind(e.value, fn, depth) if syntactic_kind(e.value, fn, depth) in ("list", "tuple") else "unknown"
    if isinstance(e, ast.Name) and fn is not None and depth < 3:
        vals = []
        for n in body_walk(fn):
            if isinstance(n, ast.Assign):
                for t in n.targets:
                    if isinstance(t, ast.Name) and t.id == e.id:
                        vals.append(n.value)
            elif isinstance(n, (ast.AugAssign, ast.For)) and any(isinstance(x, ast.Name) and x.id == e.id for x in ast.walk(n.target)):
                return "unknown"
        if len(vals) == 1:
            return syntactic_kind(vals[0], fn, depth + 1)
    return "unknown"


def syntactic_problems(repo: Repo, skip_funcs: set) -> Tuple[List[Tuple[FuncInfo, ast.Call, FieldProblem]], int]:
    out = []
    count = 0
    for f in repo.functions.values():
        if f.qualname in skip_funcs or f.kind == "lambda":
            continue
        for n in body_walk(f.node):
            if not isinstance(n, ast.Call):
                continue
            d = dotted(n.func) or ""
            if not (d.startswith("ast.") or d == "make_constant"):
                continue
            cls = "Constant" if d == "make_constant" else d.split(".", 1)[1]
            node_cls = getattr(ast, cls, None)
            if not (isinstance(node_cls, type) and issubclass(node_cls, ast.AST)) or not signature(cls):
                continue
            count += 1
            fields = dict(zip(node_cls._fields, n.args))
            for k in n.keywords:
                if k.arg:
                    fields[k.arg] = k.value
            sig = signature(cls)
            for fld, e in fields.items():
                if fld not in sig or isinstance(e, ast.Starred):
                    continue
                t, q = sig[fld]
                k = syntactic_kind(e, f.node)
                if q == "*" and k == "iterator":
                    out.append((f, n, FieldProblem(cls, fld, "iterator-for-sequence", src(e), n.lineno, f"{cls}.{fld} is declared `{t}*` but receives the one-shot iterator `{src(e)}`")))
                elif q == "*" and k == "node":
                    out.append((f, n, FieldProblem(cls, fld, "node-for-sequence", src(e), n.lineno, f"{cls}.{fld} is declared `{t}*` but receives a single node `{src(e)}`")))
                elif q != "*" and t not in _BUILTIN_TYPES and k in ("list", "tuple", "iterator", "set", "dict"):
                    out.append((f, n, FieldProblem(cls, fld, "sequence-for-node", src(e), n.lineno, f"{cls}.{fld} is declared `{t}` but receives a {k} `{src(e)}`")))
                elif t == "constant" and k == "node":
                    out.append((f, n, FieldProblem(cls, fld, "node-for-constant", src(e), n.lineno, f"{cls}.{fld} is declared `constant` but receives the AST node `{src(e)}`")))
    return out, count
