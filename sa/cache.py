"""Optional result cache for the expensive interpreted explorations, keyed by a digest of everything the result depends on (the
sources of the consulted modules of the analysed tree and of the analyser itself).  Only active when SA_CACHE_DIR is set - the
batch runners (selftest, seeds) set it, where hundreds of scratch trees share most of their modules; the registered checks do
not, so every registered run recomputes from /repo's working tree."""

from __future__ import annotations

import hashlib
import json
import os
from pathlib import Path
from typing import Callable, Iterable

_SELF = [Path(__file__).parent / n for n in ("minieval.py", "objeval.py", "model.py", "envworlds.py", "cache.py")]


def digest(repo, module_names: Iterable[str], extra: str = "", analyser_files: Iterable[Path] = ()) -> str:
    h = hashlib.sha256()
    for mn in sorted(module_names):
        m = repo.modules.get(mn)
        h.update(mn.encode())
        h.update(b"\0")
        h.update((m.src if m is not None else "<missing>").encode())
        h.update(b"\0")
    for p in list(_SELF) + list(analyser_files):
        h.update(Path(p).read_bytes())
    h.update(extra.encode())
    return h.hexdigest()


def cached(key: str, compute: Callable[[], object]):
    d = os.environ.get("SA_CACHE_DIR")
    if not d:
        return compute()
    p = Path(d) / f"{key}.json"
    if p.exists():
        try:
            return json.loads(p.read_text())
        except Exception:
            pass
    v = compute()
    try:
        Path(d).mkdir(parents=True, exist_ok=True)
        tmp = p.with_suffix(f".{os.getpid()}.tmp")
        tmp.write_text(json.dumps(v))
        tmp.replace(p)
    except Exception:
        pass
    return v
