"""E2 -- class-hierarchy call graph over the repo model, with a small local type inference.

Over-approximating by design (sound direction for "no forbidden operation reachable"): a method
call on a receiver of static type C goes to C's method through the MRO *and* to every override in a
subclass; an untyped receiver goes to every fickling method of that name; loads of attributes that
are properties somewhere are calls to the getters; class instantiation calls __new__/__init__; all
special methods of every class that is used are assumed callable.  Calls that cannot be resolved to
a name at all are recorded as `dynamic` sites for the rule to audit (never silently dropped).
"""

from __future__ import annotations

import ast
from dataclasses import dataclass, field
from typing import Dict, Iterable, List, Optional, Set, Tuple

from .model import ClassInfo, FuncInfo, Module, Repo, dotted
from .util import src

_CONTAINER = {"List", "list", "Iterable", "Iterator", "Sequence", "Tuple", "tuple", "Set", "set", "FrozenSet", "frozenset", "MutableSequence", "Collection", "Generator", "TupleType", "GenericSequence"}
_WRAPPER = {"Optional", "Union", "Type", "Final", "ClassVar"}


@dataclass
class CallSite:
    func: FuncInfo
    node: ast.AST  # Call or Attribute (property load) or Name (bare reference)
    targets: Set[FuncInfo] = field(default_factory=set)
    externals: Set[str] = field(default_factory=set)  # qualified external callees: 'os.system', 'builtins.open'
    ext_methods: Set[str] = field(default_factory=set)  # method names on external-typed receivers: 'io.BytesIO.read'
    untyped_methods: Set[str] = field(default_factory=set)  # method names on receivers of unknown type
    dynamic: Optional[str] = None  # text of a callee expression that could not be resolved at all
    kind: str = "call"  # call | property | store-property | ref

    @property
    def line(self) -> int:
        return getattr(self.node, "lineno", 0)


class CallGraph:
    def __init__(self, repo: Repo):
        self.repo = repo
        self.sites: Dict[str, List[CallSite]] = {}
        self.attr_types: Dict[str, Dict[str, Set[str]]] = {}  # class qual -> attr -> types
        self.properties: Dict[str, List[FuncInfo]] = {}
        self.setters: Dict[str, List[FuncInfo]] = {}
        self.methods_by_name: Dict[str, List[FuncInfo]] = {}
        for f in repo.functions.values():
            if f.cls is not None and f.parent is None:
                if f.kind == "property":
                    self.properties.setdefault(f.name, []).append(f)
                elif f.kind == "setter":
                    self.setters.setdefault(f.name, []).append(f)
                else:
                    self.methods_by_name.setdefault(f.name, []).append(f)
        self._collect_attr_types()

    # ------------------------------------------------------------------ types
    def ann_types(self, m: Module, ann: Optional[ast.AST], want_elem: bool = False) -> Set[str]:
        """Class names an annotation denotes (fickling classes as qualnames, externals as 'ext:<qual>')."""
        out: Set[str] = set()
        if ann is None:
            return out
        if isinstance(ann, ast.Constant) and isinstance(ann.value, str):
            try:
                ann = ast.parse(ann.value, mode="eval").body
            except SyntaxError:
                return out
        if isinstance(ann, ast.Subscript):
            head = (dotted(ann.value) or "").split(".")[-1]
            inner = ann.slice
            elems = list(inner.elts) if isinstance(inner, ast.Tuple) else [inner]
            if head in _WRAPPER:
                for e in elems:
                    out |= self.ann_types(m, e, want_elem)
                return out
            if head in _CONTAINER or head in ("Dict", "dict", "Mapping"):
                if want_elem:
                    es = elems[-1:] if head in ("Dict", "dict", "Mapping") else elems
                    for e in es:
                        if not (isinstance(e, ast.Constant) and e.value is Ellipsis):
                            out |= self.ann_types(m, e, False)
                    return out
                return {f"ext:{head}"}
            return self.ann_types(m, ann.value, want_elem)
        if isinstance(ann, ast.BinOp) and isinstance(ann.op, ast.BitOr):
            return self.ann_types(m, ann.left, want_elem) | self.ann_types(m, ann.right, want_elem)
        if want_elem:
            return out
        q = self.repo.resolve_expr(m, ann)
        if q is None:
            return out
        q = self.repo.resolve_qual(q)
        if q in self.repo.classes:
            return {q}
        if q.startswith("builtins.") or q.startswith("typing."):
            return {f"ext:{q.split('.')[-1]}"}
        return {f"ext:{q}"}

    def _collect_attr_types(self):
        for c in self.repo.classes.values():
            d: Dict[str, Set[str]] = {}
            for a, ann in c.attr_annotations.items():
                d.setdefault(a, set()).update(self.ann_types(c.module, ann))
            for fs in c.methods.values():
                for f in fs:
                    for n in ast.walk(f.node):
                        if isinstance(n, ast.AnnAssign) and isinstance(n.target, ast.Attribute) and dotted(n.target.value) == "self":
                            d.setdefault(n.target.attr, set()).update(self.ann_types(c.module, n.annotation))
                        if isinstance(n, ast.Assign):
                            for t in n.targets:
                                if isinstance(t, ast.Attribute) and dotted(t.value) == "self" and isinstance(n.value, ast.Call):
                                    q = self.repo.resolve_expr(c.module, n.value.func)
                                    if q:
                                        q = self.repo.resolve_qual(q)
                                        d.setdefault(t.attr, set()).add(q if q in self.repo.classes else f"ext:{q}")
            self.attr_types[c.qualname] = d

    def attr_type(self, cls_q: str, attr: str, want_elem: bool = False) -> Set[str]:
        c = self.repo.classes.get(cls_q)
        if c is None:
            return set()
        for k in self.repo.mro_classes(c):
            if attr in self.attr_types.get(k.qualname, {}):
                return self.attr_types[k.qualname][attr]
            p = k.method(attr, "property")
            if p is not None:
                return self.ann_types(k.module, p.node.returns, want_elem)
        return set()

    def local_env(self, f: FuncInfo) -> Dict[str, Set[str]]:
        env: Dict[str, Set[str]] = {}
        elem_env: Dict[str, Set[str]] = {}
        node = f.node
        m = f.module
        if f.cls is not None and f.kind in ("method", "property", "setter", "nested", "lambda") and hasattr(node, "args"):
            params = f.params()
            owner = f
            while owner.parent is not None:
                owner = owner.parent
            if owner.kind not in ("staticmethod",) and owner is f and params:
                env[params[0]] = {f.cls.qualname}
            if owner is not f:
                # closures see the enclosing method's self
                oe = self.local_env(owner)
                env.update(oe)
        if f.cls is not None and f.kind == "classmethod":
            ps = f.params()
            if ps:
                env[ps[0]] = {"cls:" + f.cls.qualname}
        if f.parent is not None and f.cls is None:
            env.update(self.local_env(f.parent))
        if hasattr(node, "args"):
            a = node.args
            for arg in a.posonlyargs + a.args + a.kwonlyargs:
                if arg.annotation is not None:
                    ts = self.ann_types(m, arg.annotation)
                    if ts:
                        env[arg.arg] = ts
                    es = self.ann_types(m, arg.annotation, want_elem=True)
                    if es:
                        elem_env[arg.arg] = es
        body = node.body if isinstance(node.body, list) else []
        # function-local imports
        for st in body:
            for n in ast.walk(st):
                if isinstance(n, ast.Import):
                    for a in n.names:
                        nm = a.asname or a.name.split(".")[0]
                        q = a.name if a.asname else a.name.split(".")[0]
                        env[nm] = {("mod:" + q) if q in self.repo.modules else ("extref:" + q)}
                elif isinstance(n, ast.ImportFrom):
                    srcm = self.repo._abs_import(m, n.level, n.module)
                    for a in n.names:
                        q = self.repo.resolve_qual(f"{srcm}.{a.name}")
                        nm = a.asname or a.name
                        if q in self.repo.classes:
                            env[nm] = {"cls:" + q}
                        elif q in self.repo.modules:
                            env[nm] = {"mod:" + q}
                        elif isinstance(self.repo.lookup(q), FuncInfo):
                            env[nm] = {"func:" + q}
                        else:
                            env[nm] = {"extref:" + q}
        for _ in range(2):  # two passes: forward references through simple chains
            for st in body:
                for n in ast.walk(st):
                    if isinstance(n, (ast.FunctionDef, ast.AsyncFunctionDef, ast.Lambda)) and n is not node:
                        continue
                    if isinstance(n, (ast.Assign, ast.AnnAssign)) and n.value is not None:
                        tgts = n.targets if isinstance(n, ast.Assign) else [n.target]
                        ts = self.expr_types(f, n.value, env, elem_env)
                        if isinstance(n, ast.AnnAssign):
                            ts = ts | self.ann_types(m, n.annotation)
                            es = self.ann_types(m, n.annotation, want_elem=True)
                            if es and isinstance(n.target, ast.Name):
                                elem_env[n.target.id] = es
                        for t in tgts:
                            if isinstance(t, ast.Name) and ts:
                                env.setdefault(t.id, set()).update(ts)
                            if isinstance(t, ast.Name):
                                es = self.elem_types(f, n.value, env, elem_env)
                                if es:
                                    elem_env.setdefault(t.id, set()).update(es)
                    if isinstance(n, (ast.For, ast.comprehension)):
                        es = self.elem_types(f, n.iter, env, elem_env)
                        tg = n.target
                        if isinstance(tg, ast.Name) and es:
                            env.setdefault(tg.id, set()).update(es)
                        elif isinstance(tg, ast.Tuple) and isinstance(n.iter, ast.Call) and dotted(n.iter.func) == "enumerate" and len(tg.elts) == 2 and isinstance(tg.elts[1], ast.Name) and n.iter.args:
                            es2 = self.elem_types(f, n.iter.args[0], env, elem_env)
                            if es2:
                                env.setdefault(tg.elts[1].id, set()).update(es2)
                    if isinstance(n, ast.With):
                        for it in n.items:
                            if isinstance(it.optional_vars, ast.Name):
                                ts = self.expr_types(f, it.context_expr, env, elem_env)
                                if ts:
                                    env.setdefault(it.optional_vars.id, set()).update(ts)
                    if isinstance(n, ast.ExceptHandler) and n.name:
                        env.setdefault(n.name, set()).add("ext:Exception")
        env["<elem>"] = set()  # marker
        self._elem_cache = elem_env
        return env

    def expr_types(self, f: FuncInfo, e: ast.AST, env, elem_env) -> Set[str]:
        m = f.module
        if isinstance(e, ast.Name):
            if e.id in env:
                return set(env[e.id])
            q = self.repo.resolve_expr(m, e)
            if q:
                q = self.repo.resolve_qual(q)
                if q in self.repo.classes:
                    return {"cls:" + q}
                if q in self.repo.modules:
                    return {"mod:" + q}
                lk = self.repo.lookup(q)
                if lk is None and not q.startswith("builtins."):
                    return {"extref:" + q}
            return set()
        if isinstance(e, ast.Constant):
            return {f"ext:{type(e.value).__name__}"}
        if isinstance(e, (ast.List, ast.ListComp)):
            return {"ext:list"}
        if isinstance(e, (ast.Dict, ast.DictComp)):
            return {"ext:dict"}
        if isinstance(e, (ast.Set, ast.SetComp)):
            return {"ext:set"}
        if isinstance(e, ast.Tuple):
            return {"ext:tuple"}
        if isinstance(e, ast.JoinedStr):
            return {"ext:str"}
        if isinstance(e, ast.Attribute):
            bt = self.expr_types(f, e.value, env, elem_env)
            out: Set[str] = set()
            for t in bt:
                if t.startswith("mod:"):
                    q = self.repo.resolve_qual(f"{t[4:]}.{e.attr}")
                    if q in self.repo.classes:
                        out.add("cls:" + q)
                    elif q in self.repo.modules:
                        out.add("mod:" + q)
                elif t.startswith("extref:"):
                    out.add(f"extref:{t[7:]}.{e.attr}")
                elif t.startswith("cls:") or t.startswith("ext:"):
                    if t.startswith("cls:"):
                        out |= self.attr_type(t[4:], e.attr)
                else:
                    out |= self.attr_type(t, e.attr)
            if not bt:
                q = self.repo.resolve_expr(m, e)
                if q:
                    q = self.repo.resolve_qual(q)
                    if q in self.repo.classes:
                        out.add("cls:" + q)
                    elif q in self.repo.modules:
                        out.add("mod:" + q)
                    elif self.repo.lookup(q) is None:
                        out.add("extref:" + q)
            return out
        if isinstance(e, ast.Call):
            ft = self.expr_types(f, e.func, env, elem_env)
            out = set()
            for t in ft:
                if t.startswith("cls:"):
                    out.add(t[4:])
                elif t.startswith("extref:"):
                    out.add("ext:" + t[7:])
            # return annotations of resolved callees
            for tgt in self.resolve_callee(f, e, env)[0]:
                if tgt.kind != "lambda" and getattr(tgt.node, "returns", None) is not None:
                    rt = self.ann_types(tgt.module, tgt.node.returns)
                    out |= rt
                if tgt.name == "__init__" and tgt.cls is not None:
                    pass
            d = dotted(e.func) or ""
            if d in ("list", "sorted"):
                out.add("ext:list")
            elif d in ("dict",):
                out.add("ext:dict")
            elif d in ("set", "frozenset"):
                out.add("ext:set")
            elif d in ("tuple",):
                out.add("ext:tuple")
            elif d in ("str", "repr"):
                out.add("ext:str")
            elif d in ("bytes", "bytearray"):
                out.add("ext:bytes")
            elif d in ("len", "int"):
                out.add("ext:int")
            elif d == "open":
                out.add("ext:file")
            elif d == "iter" and e.args:
                out |= self.expr_types(f, e.args[0], env, elem_env)
            elif d == "next" and e.args:
                out |= self.elem_types(f, e.args[0], env, elem_env)
            return out
        if isinstance(e, ast.Subscript):
            return self.elem_types(f, e.value, env, elem_env)
        if isinstance(e, ast.IfExp):
            return self.expr_types(f, e.body, env, elem_env) | self.expr_types(f, e.orelse, env, elem_env)
        if isinstance(e, ast.BoolOp):
            out = set()
            for v in e.values:
                out |= self.expr_types(f, v, env, elem_env)
            return out
        if isinstance(e, (ast.BinOp, ast.Compare, ast.UnaryOp)):
            return {"ext:value"}
        return set()

    def elem_types(self, f: FuncInfo, e: ast.AST, env, elem_env) -> Set[str]:
        m = f.module
        if isinstance(e, ast.Name):
            if e.id in elem_env:
                return set(elem_env[e.id])
            out = set()
            for t in env.get(e.id, ()):  # iterating an object of a fickling class: __iter__/__getitem__ annotation
                out |= self._iter_elem(t)
            return out
        if isinstance(e, ast.Attribute):
            bt = self.expr_types(f, e.value, env, elem_env)
            out = set()
            for t in bt:
                tt = t[4:] if t.startswith("cls:") else t
                c = self.repo.classes.get(tt)
                if c is not None:
                    for k in self.repo.mro_classes(c):
                        ann = None
                        for fs in k.methods.values():
                            for ff in fs:
                                for n in ast.walk(ff.node):
                                    if isinstance(n, ast.AnnAssign) and isinstance(n.target, ast.Attribute) and dotted(n.target.value) == "self" and n.target.attr == e.attr:
                                        ann = (k, n.annotation)
                        if e.attr in k.attr_annotations:
                            ann = (k, k.attr_annotations[e.attr])
                        p = k.method(e.attr, "property")
                        if p is not None and p.node.returns is not None:
                            ann = (k, p.node.returns)
                        if ann:
                            out |= self.ann_types(ann[0].module, ann[1], want_elem=True)
                            break
                    for t2 in self.attr_type(tt, e.attr):
                        out |= self._iter_elem(t2)
            return out
        if isinstance(e, ast.Call):
            d = dotted(e.func) or ""
            if d in ("list", "tuple", "sorted", "reversed", "iter", "set", "enumerate") and e.args:
                return self.elem_types(f, e.args[0], env, elem_env)
            out = set()
            for tgt in self.resolve_callee(f, e, env)[0]:
                if tgt.kind != "lambda" and getattr(tgt.node, "returns", None) is not None:
                    out |= self.ann_types(tgt.module, tgt.node.returns, want_elem=True)
            for t in self.expr_types(f, e, env, elem_env):
                out |= self._iter_elem(t)
            return out
        if isinstance(e, ast.Subscript):
            return self.elem_types(f, e.value, env, elem_env)  # slices keep the element type
        return set()

    def _iter_elem(self, t: str) -> Set[str]:
        c = self.repo.classes.get(t)
        if c is None:
            return set()
        out = set()
        for mname in ("__iter__", "__getitem__"):
            fm = self.repo.find_method(c, mname)
            if fm is not None and getattr(fm.node, "returns", None) is not None:
                out |= self.ann_types(fm.module, fm.node.returns, want_elem=(mname == "__iter__"))
                if mname == "__getitem__":
                    out |= self.ann_types(fm.module, fm.node.returns)
        for b in c.node.bases:  # Sequence[Pickled]
            if isinstance(b, ast.Subscript):
                out |= self.ann_types(c.module, b, want_elem=True)
        for q in c.bases:
            pass
        return out

    # ------------------------------------------------------------------ resolution
    def class_ctor_targets(self, c: ClassInfo) -> Set[FuncInfo]:
        out = set()
        for name in ("__new__", "__init__"):
            fm = self.repo.find_method(c, name)
            if fm is not None:
                out.add(fm)
        return out

    def method_targets(self, cls_q: str, name: str, include_overrides: bool = True) -> Set[FuncInfo]:
        c = self.repo.classes.get(cls_q)
        out: Set[FuncInfo] = set()
        if c is None:
            return out
        fm = self.repo.find_method(c, name)
        if fm is not None:
            out.add(fm)
        if include_overrides:
            for sub in self.repo.subclasses(c, strict=True):
                sm = sub.method(name)
                if sm is not None:
                    out.add(sm)
        return out

    def resolve_callee(self, f: FuncInfo, call: ast.Call, env) -> Tuple[Set[FuncInfo], Set[str], Set[str], Set[str], Optional[str]]:
        """targets, externals, ext_methods, untyped_methods, dynamic"""
        repo = self.repo
        m = f.module
        fn = call.func
        targets: Set[FuncInfo] = set()
        externals: Set[str] = set()
        ext_methods: Set[str] = set()
        untyped: Set[str] = set()
        dynamic = None
        local_names = set(env) | set(f.params())
        if isinstance(fn, ast.Name):
            # nested function of this (or an enclosing) function
            scope = f
            while scope is not None:
                for g in repo.nested_of(scope):
                    if g.name == fn.id:
                        targets.add(g)
                scope = scope.parent
            if targets:
                return targets, externals, ext_methods, untyped, None
            ts = env.get(fn.id, set()) if fn.id in env else set()
            if fn.id in env and fn.id not in ("<elem>",):
                for t in ts:
                    if t.startswith("cls:"):
                        c = repo.classes.get(t[4:])
                        if c:
                            targets |= self.class_ctor_targets(c)
                            for sub in repo.subclasses(c, strict=True):
                                targets |= self.class_ctor_targets(sub)
                    elif t.startswith("extref:"):
                        externals.add(t[7:])
                    elif t.startswith("func:"):
                        lk = repo.lookup(t[5:])
                        if isinstance(lk, FuncInfo):
                            targets.add(lk)
                if targets or externals:
                    return targets, externals, ext_methods, untyped, None
                if fn.id in local_names and fn.id not in f.module.functions and fn.id not in f.module.classes and fn.id not in f.module.imports:
                    return targets, externals, ext_methods, untyped, src(fn)
            q = repo.resolve_expr(m, fn)
            if q is None:
                return targets, externals, ext_methods, untyped, src(fn)
            q = repo.resolve_qual(q)
            lk = repo.lookup(q)
            if isinstance(lk, FuncInfo):
                targets.add(lk)
            elif isinstance(lk, ClassInfo):
                targets |= self.class_ctor_targets(lk)
            else:
                externals.add(q)
            return targets, externals, ext_methods, untyped, None
        if isinstance(fn, ast.Attribute):
            name = fn.attr
            # super().m()
            if isinstance(fn.value, ast.Call) and dotted(fn.value.func) == "super" and f.cls is not None:
                owner = f.cls
                mro = repo.mro(owner)
                found = False
                for q in mro[1:]:
                    k = repo.classes.get(q)
                    if k is not None:
                        mm = k.method(name)
                        if mm is not None:
                            targets.add(mm)
                            found = True
                            break
                    else:
                        externals.add(f"{q}.{name}")
                        found = True
                        break
                if not found:
                    externals.add(f"object.{name}")
                return targets, externals, ext_methods, untyped, None
            # fully qualified path (module.func / Class.method / module.Class.method)
            d = dotted(fn)
            if d is not None and d.split(".")[0] not in local_names:
                q = repo.resolve_expr(m, fn)
                if q is not None:
                    q = repo.resolve_qual(q)
                    lk = repo.lookup(q)
                    if isinstance(lk, FuncInfo):
                        targets.add(lk)
                        if lk.cls is not None and lk.kind == "method":
                            pass
                        return targets, externals, ext_methods, untyped, None
                    if isinstance(lk, ClassInfo):
                        targets |= self.class_ctor_targets(lk)
                        return targets, externals, ext_methods, untyped, None
                    if q.split(".")[0] == repo.package:
                        # a method of an object stored in a fickling module/class attribute (e.g. Analysis.ALL.append,
                        # logger.debug): if the attribute is a module-level name bound to the result of an external
                        # call, attribute the method to that external; otherwise classify by method name
                        owner_q = q.rsplit(".", 1)[0]
                        mod_q, _, var = owner_q.rpartition(".")
                        om = repo.modules.get(mod_q)
                        vals = om.assigns.get(var, []) if om is not None else []
                        if len(vals) == 1 and isinstance(vals[0], ast.Call):
                            cq = repo.resolve_expr(om, vals[0].func)
                            if cq and repo.lookup(cq) is None and not cq.startswith("builtins."):
                                externals.add(f"{cq}.<result>.{name}")
                                return targets, externals, ext_methods, untyped, None
                        ext_methods.add(f"value.{name}")
                        return targets, externals, ext_methods, untyped, None
                    externals.add(q)
                    return targets, externals, ext_methods, untyped, None
            rt = self.expr_types(f, fn.value, env, getattr(self, "_elem_cache", {}))
            typed = False
            rt = {t for t in rt if t != "ext:NoneType"} or rt
            for t in rt:
                if t.startswith("cls:"):
                    typed = True
                    c = repo.classes.get(t[4:])
                    if c is not None:
                        mm = repo.find_method(c, name)
                        if mm is not None:
                            targets.add(mm)
                            for sub in repo.subclasses(c, strict=True):
                                sm = sub.method(name)
                                if sm is not None:
                                    targets.add(sm)
                        else:
                            ext_methods.add(f"{t[4:]}.{name}")
                elif t.startswith("mod:"):
                    typed = True
                    q = repo.resolve_qual(f"{t[4:]}.{name}")
                    lk = repo.lookup(q)
                    if isinstance(lk, FuncInfo):
                        targets.add(lk)
                    elif isinstance(lk, ClassInfo):
                        targets |= self.class_ctor_targets(lk)
                    else:
                        externals.add(q)
                elif t.startswith("extref:"):
                    typed = True
                    externals.add(f"{t[7:]}.{name}")
                elif t.startswith("ext:"):
                    typed = True
                    ext_methods.add(f"{t[4:]}.{name}")
                else:
                    typed = True
                    ts = self.method_targets(t, name)
                    if ts:
                        targets |= ts
                    else:
                        c = repo.classes.get(t)
                        # inherited from an external base (e.g. NodeVisitor.visit, MutableSequence.append)
                        bases = [q for q in repo.mro(c) if q not in repo.classes] if c else []
                        ext_methods.add(f"{(bases[0] if bases else t)}.{name}")
                        if c is not None:
                            targets |= self.inherited_external_dispatch(c, name)
            if not typed:
                cands = self.methods_by_name.get(name, [])
                targets |= set(cands)
                untyped.add(name)
            return targets, externals, ext_methods, untyped, None
        if isinstance(fn, ast.Subscript):
            # REGISTRY[key](...)
            return targets, externals, ext_methods, untyped, src(fn)
        if isinstance(fn, ast.Call):
            return targets, externals, ext_methods, untyped, src(fn)
        if isinstance(fn, ast.Lambda):
            for g in repo.nested_of(f):
                if g.node is fn:
                    targets.add(g)
            return targets, externals, ext_methods, untyped, None
        return targets, externals, ext_methods, untyped, src(fn)

    def inherited_external_dispatch(self, c: ClassInfo, name: str) -> Set[FuncInfo]:
        """Methods of `c` that an inherited external method is known to call back."""
        out: Set[FuncInfo] = set()
        mro = self.repo.mro(c)
        if "ast.NodeVisitor" in mro and name in ("visit", "generic_visit"):
            for k in [c] + self.repo.subclasses(c, strict=True):
                for mname, fs in k.methods.items():
                    if mname.startswith("visit_") or mname == "generic_visit":
                        out |= set(fs)
        if any(q.endswith("MutableSequence") for q in mro) and name in ("append", "extend", "pop", "remove", "reverse", "clear", "__iadd__", "index", "count", "__contains__", "__reversed__"):
            for mname in ("insert", "__setitem__", "__delitem__", "__getitem__", "__len__"):
                fm = self.repo.find_method(c, mname)
                if fm is not None:
                    out.add(fm)
        if any(q.endswith("Sequence") for q in mro) and name in ("index", "count", "__contains__", "__iter__", "__reversed__"):
            for mname in ("__getitem__", "__len__"):
                fm = self.repo.find_method(c, mname)
                if fm is not None:
                    out.add(fm)
        return out

    # ------------------------------------------------------------------ per-function sites
    def sites_of(self, f: FuncInfo, restrict_to: Optional[List[ast.AST]] = None) -> List[CallSite]:
        key = f.qualname if restrict_to is None else None
        if key and key in self.sites:
            return self.sites[key]
        env = self.local_env(f)
        elem_env = getattr(self, "_elem_cache", {})
        out: List[CallSite] = []
        node = f.node
        roots: List[ast.AST]
        if restrict_to is not None:
            roots = restrict_to
        else:
            roots = node.body if isinstance(node.body, list) else [node.body]
            if hasattr(node, "args"):
                roots = list(node.args.defaults) + [d for d in node.args.kw_defaults if d is not None] + roots
            roots = list(getattr(node, "decorator_list", [])) + roots
        call_funcs = set()

        def walk(n):
            if isinstance(n, (ast.FunctionDef, ast.AsyncFunctionDef, ast.Lambda, ast.ClassDef)) and n is not node:
                # definition statements: decorators/defaults evaluated here, body is its own function
                for d in getattr(n, "decorator_list", []):
                    walk(d)
                return
            if isinstance(n, ast.Call):
                self._elem_cache = elem_env
                t, e, em, um, dyn = self.resolve_callee(f, n, env)
                out.append(CallSite(f, n, t, e, em, um, dyn))
                call_funcs.add(id(n.func))
            if isinstance(n, ast.Attribute):
                if isinstance(n.ctx, ast.Load) and id(n) not in call_funcs:
                    self._elem_cache = elem_env
                    ts = self.property_targets(f, n, env, self.properties)
                    if ts:
                        out.append(CallSite(f, n, ts, kind="property"))
                    # reads of external attributes that matter (sys.modules, sys.path, sys.meta_path)
                    q = self.repo.resolve_expr(f.module, n, set(env) | set(f.params()))
                    if q and not isinstance(self.repo.lookup(q), (FuncInfo, ClassInfo, Module)) and q.split(".")[0] in ("sys", "os", "importlib"):
                        out.append(CallSite(f, n, set(), {q}, kind="ref"))
                elif isinstance(n.ctx, (ast.Store, ast.Del)):
                    self._elem_cache = elem_env
                    ts = self.property_targets(f, n, env, self.setters)
                    if ts:
                        out.append(CallSite(f, n, ts, kind="store-property"))
            for ch in ast.iter_child_nodes(n):
                walk(ch)

        for r in roots:
            walk(r)
        if key:
            self.sites[key] = out
        return out

    def property_targets(self, f: FuncInfo, n: ast.Attribute, env, table) -> Set[FuncInfo]:
        cands = table.get(n.attr)
        if not cands:
            return set()
        rt = self.expr_types(f, n.value, env, getattr(self, "_elem_cache", {}))
        fick = {t[4:] if t.startswith("cls:") else t for t in rt if not t.startswith(("ext:", "extref:", "mod:"))}
        if rt and not fick:
            return set()  # receiver is known to be an external object / module
        if fick:
            out = set()
            for t in fick:
                c = self.repo.classes.get(t)
                if c is None:
                    continue
                for p in cands:
                    if p.cls is not None and (p.cls.qualname in self.repo.mro(c) or c.qualname in self.repo.mro(p.cls)):
                        out.add(p)
            return out
        return set(cands)

    # ------------------------------------------------------------------ reachability
    def reachable(self, roots: Iterable[Tuple[FuncInfo, Optional[List[ast.AST]]]], extra_edges=None):
        """BFS from roots.  Returns (set of reached FuncInfo, parent map for path reconstruction, all sites)."""
        parent: Dict[str, Tuple[Optional[str], int]] = {}
        reached: Dict[str, FuncInfo] = {}
        sites_all: List[CallSite] = []
        todo: List[Tuple[FuncInfo, Optional[List[ast.AST]]]] = []
        for f, restrict in roots:
            if f.qualname not in reached:
                reached[f.qualname] = f
                parent[f.qualname] = (None, 0)
                todo.append((f, restrict))
        while todo:
            f, restrict = todo.pop(0)
            sites = self.sites_of(f, restrict)
            sites_all.extend(sites)
            nxt: Set[FuncInfo] = set()
            for s in sites:
                for t in s.targets:
                    nxt.add(t)
                    if t.qualname not in parent:
                        parent[t.qualname] = (f.qualname, s.line)
                if extra_edges:
                    for t in extra_edges(s):
                        nxt.add(t)
                        if t.qualname not in parent:
                            parent[t.qualname] = (f.qualname, s.line)
            # nested functions / lambdas defined here may be called by whoever receives them
            for g in self.repo.nested_of(f):
                nxt.add(g)
                if g.qualname not in parent:
                    parent[g.qualname] = (f.qualname, g.line)
            for t in nxt:
                if t.qualname not in reached:
                    reached[t.qualname] = t
                    todo.append((t, None))
        return reached, parent, sites_all

    def path_to(self, parent, qual: str) -> List[str]:
        out = []
        cur: Optional[str] = qual
        guard = 0
        while cur is not None and guard < 60:
            p, line = parent.get(cur, (None, 0))
            out.append(f"{cur}" + (f" (called at line {line} of {p})" if p else " (entry point)"))
            cur = p
            guard += 1
        return out
