"""E3 -- statement-level control-flow graph with dominators / post-dominators.

Nodes are simple statements, branch tests, loop heads, `with` entries, handler entries and
synthetic *branch-edge* nodes (so that "dominated by the true edge of test T" is ordinary node
dominance).  `finally` bodies are duplicated per continuation kind (normal, exceptional, return,
break/continue).  Exceptional edges: every node inside a `try` body has an edge to each handler of
the enclosing `try` statements (and onwards, unless a handler catches everything); explicit
`raise` goes to the exceptional exit; with ``exc_edges=True`` every statement may also reach the
exceptional exit (used by cleanup-pairing rules).
"""

from __future__ import annotations

import ast
from collections import defaultdict
from dataclasses import dataclass, field
from typing import Any, Callable, Dict, Iterable, List, Optional, Set, Tuple

from .report import AnalysisError


@dataclass
class Node:
    id: int
    kind: str  # entry|exit|raise_exit|stmt|test|branch|for|with|handler|loop_exit
    ast: Optional[ast.AST] = None
    value: Any = None  # for branch nodes: True/False/'iter'/'done'
    test: Optional[int] = None  # for branch nodes: id of the test node
    copy: str = ""  # which finally-copy this node belongs to ('' = original)

    @property
    def line(self) -> int:
        return getattr(self.ast, "lineno", 0) if self.ast is not None else 0

    def __repr__(self):
        s = f"#{self.id}:{self.kind}"
        if self.ast is not None:
            try:
                txt = ast.unparse(self.ast).split("\n")[0][:60]
            except Exception:
                txt = type(self.ast).__name__
            s += f"[{txt}]"
        if self.kind == "branch":
            s += f"={self.value}"
        return s


_CATCH_ALL = {"BaseException", "Exception"}


class CFG:
    def __init__(self, fn: ast.AST, exc_edges: bool = False):
        self.fn = fn
        self.exc_edges = exc_edges
        self.nodes: List[Node] = []
        self.succ: Dict[int, List[Tuple[int, str]]] = defaultdict(list)
        self.pred: Dict[int, List[Tuple[int, str]]] = defaultdict(list)
        self._frames: List[dict] = []
        self._copy = ""
        self._loops: Dict[int, dict] = {}
        self.entry = self._new("entry")
        self.exit = self._new("exit")
        self.raise_exit = self._new("raise_exit")
        body = fn.body if isinstance(fn.body, list) else [ast.Return(value=fn.body)]
        out = self._stmts(body, [(self.entry, "next")])
        for n, lab in out:
            self._edge(n, self.exit, lab)
        self._dom: Optional[Dict[int, Set[int]]] = None
        self._pdom: Optional[Dict[int, Set[int]]] = None

    # ------------------------------------------------------------------ construction
    def _new(self, kind, node=None, **kw) -> int:
        n = Node(len(self.nodes), kind, node, copy=self._copy, **kw)
        self.nodes.append(n)
        return n.id

    def _edge(self, a: int, b: int, label: str = "next"):
        if (b, label) not in self.succ[a]:
            self.succ[a].append((b, label))
            self.pred[b].append((a, label))

    def _connect(self, incoming, n):
        for a, lab in incoming:
            self._edge(a, n, lab)

    def _exc_targets(self) -> List[int]:
        """Nodes an exception raised at the current point may transfer to."""
        targets: List[int] = []
        i = len(self._frames) - 1
        while i >= 0:
            fr = self._frames[i]
            if fr["kind"] == "try":
                targets.extend(fr["handlers"])
                if fr["catch_all"]:
                    return targets
            elif fr["kind"] == "finally":
                targets.append(self._finally_copy(i, "exc"))
                return targets
            i -= 1
        targets.append(self.raise_exit)
        return targets

    def _finally_copy(self, frame_index: int, kind: str, cont: Optional[int] = None) -> int:
        """Entry node of a copy of the finalbody at frame `frame_index` for continuation `kind`."""
        fr = self._frames[frame_index]
        key = (kind, cont)
        if key in fr["copies"]:
            return fr["copies"][key]
        saved_frames, saved_copy = self._frames, self._copy
        self._frames = self._frames[:frame_index]
        self._copy = f"{saved_copy}/finally@{fr['line']}:{kind}"
        entry = self._new("stmt", ast.Pass(lineno=fr["line"], col_offset=0))
        fr["copies"][key] = entry
        out = self._stmts(fr["finalbody"], [(entry, "next")])
        if kind == "exc":
            for t in self._exc_targets():
                for n, lab in out:
                    self._edge(n, t, "exc")
        else:
            # return / break / continue: keep unwinding through outer finally frames
            nxt = self._unwind_target(kind, cont, frame_index - 1)
            for n, lab in out:
                self._edge(n, nxt, lab)
        self._frames, self._copy = saved_frames, saved_copy
        return entry

    def _unwind_target(self, kind: str, cont: Optional[int], start: int) -> int:
        """Where a return/break/continue goes, passing through enclosing finally bodies."""
        i = start
        while i >= 0:
            fr = self._frames[i]
            if fr["kind"] == "finally":
                return self._finally_copy(i, kind, cont)
            if fr["kind"] == "loop" and kind in ("break", "continue") and fr["id"] == cont:
                break
            i -= 1
        if kind == "return":
            return self.exit
        for fr in self._frames:
            if fr["kind"] == "loop" and fr["id"] == cont:
                return fr["break_node"] if kind == "break" else fr["continue_node"]
        # the loop frame was truncated away while building a finally copy: look it up globally
        return self._loops[cont]["break_node" if kind == "break" else "continue_node"]

    def _maybe_raise(self, n: int):
        in_try = any(fr["kind"] in ("try", "finally") for fr in self._frames)
        if in_try or self.exc_edges:
            for t in self._exc_targets():
                self._edge(n, t, "exc")

    def _stmts(self, stmts: List[ast.stmt], incoming):
        for st in stmts:
            incoming = self._stmt(st, incoming)
        return incoming

    def _branch(self, test: int, value) -> int:
        b = self._new("branch", self.nodes[test].ast, value=value, test=test)
        self._edge(test, b, str(value).lower())
        return b

    def _stmt(self, st: ast.stmt, incoming):
        if not incoming:
            # unreachable code: still build it (so its nodes exist) but with no predecessors
            pass
        if isinstance(st, ast.If):
            t = self._new("test", st.test)
            self._connect(incoming, t)
            self._maybe_raise(t)
            bt, bf = self._branch(t, True), self._branch(t, False)
            out = self._stmts(st.body, [(bt, "next")])
            out += self._stmts(st.orelse, [(bf, "next")])
            return out
        if isinstance(st, ast.While):
            t = self._new("test", st.test)
            self._connect(incoming, t)
            self._maybe_raise(t)
            const_true = isinstance(st.test, ast.Constant) and bool(st.test.value)
            brk = self._new("loop_exit", st)
            fr = {"kind": "loop", "id": t, "break_node": brk, "continue_node": t}
            self._loops[t] = fr
            bt = self._branch(t, True)
            self._frames.append(fr)
            body_out = self._stmts(st.body, [(bt, "next")])
            self._frames.pop()
            for n, lab in body_out:
                self._edge(n, t, "loop")
            out = [(brk, "next")]
            if not const_true:
                bf = self._branch(t, False)
                out += self._stmts(st.orelse, [(bf, "next")])
            return out
        if isinstance(st, (ast.For, ast.AsyncFor)):
            h = self._new("for", st)
            self._connect(incoming, h)
            self._maybe_raise(h)
            brk = self._new("loop_exit", st)
            fr = {"kind": "loop", "id": h, "break_node": brk, "continue_node": h}
            self._loops[h] = fr
            bi = self._branch(h, "iter")
            bd = self._branch(h, "done")
            self._frames.append(fr)
            body_out = self._stmts(st.body, [(bi, "next")])
            self._frames.pop()
            for n, lab in body_out:
                self._edge(n, h, "loop")
            out = [(brk, "next")]
            out += self._stmts(st.orelse, [(bd, "next")])
            return out
        if isinstance(st, (ast.With, ast.AsyncWith)):
            w = self._new("with", st)
            self._connect(incoming, w)
            self._maybe_raise(w)
            return self._stmts(st.body, [(w, "next")])
        if isinstance(st, ast.Try) or type(st).__name__ == "TryStar":
            return self._try(st, incoming)
        if isinstance(st, ast.Return):
            n = self._new("stmt", st)
            self._connect(incoming, n)
            self._maybe_raise(n)
            self._edge(n, self._unwind_target("return", None, len(self._frames) - 1), "return")
            return []
        if isinstance(st, ast.Raise):
            n = self._new("stmt", st)
            self._connect(incoming, n)
            for t in self._exc_targets():
                self._edge(n, t, "raise")
            return []
        if isinstance(st, (ast.Break, ast.Continue)):
            n = self._new("stmt", st)
            self._connect(incoming, n)
            loop = None
            for fr in reversed(self._frames):
                if fr["kind"] == "loop":
                    loop = fr
                    break
            if loop is None:
                raise AnalysisError(f"break/continue outside loop at line {st.lineno}")
            kind = "break" if isinstance(st, ast.Break) else "continue"
            self._edge(n, self._unwind_target(kind, loop["id"], len(self._frames) - 1), kind)
            return []
        if isinstance(st, (ast.FunctionDef, ast.AsyncFunctionDef, ast.ClassDef)):
            n = self._new("stmt", st)  # a definition is a simple binding statement
            self._connect(incoming, n)
            return [(n, "next")]
        if isinstance(
            st,
            (
                ast.Assign,
                ast.AugAssign,
                ast.AnnAssign,
                ast.Expr,
                ast.Pass,
                ast.Assert,
                ast.Delete,
                ast.Import,
                ast.ImportFrom,
                ast.Global,
                ast.Nonlocal,
            ),
        ):
            n = self._new("stmt", st)
            self._connect(incoming, n)
            if not isinstance(st, (ast.Pass, ast.Global, ast.Nonlocal)):
                self._maybe_raise(n)
            return [(n, "next")]
        raise AnalysisError(f"CFG: unsupported statement {type(st).__name__} at line {st.lineno}")

    def _try(self, st, incoming):
        has_finally = bool(st.finalbody)
        if has_finally:
            self._frames.append(
                {"kind": "finally", "finalbody": st.finalbody, "copies": {}, "line": st.lineno}
            )
        handlers = []
        catch_all = False
        for h in st.handlers:
            hn = self._new("handler", h)
            handlers.append(hn)
            if h.type is None:
                catch_all = True
            else:
                names = [h.type] if not isinstance(h.type, ast.Tuple) else list(h.type.elts)
                for t in names:
                    d = t.id if isinstance(t, ast.Name) else getattr(t, "attr", "")
                    if d == "BaseException":
                        catch_all = True
        self._frames.append({"kind": "try", "handlers": handlers, "catch_all": catch_all})
        body_out = self._stmts(st.body, incoming)
        self._frames.pop()
        body_out = self._stmts(st.orelse, body_out)
        out = list(body_out)
        for hn, h in zip(handlers, st.handlers):
            out += self._stmts(h.body, [(hn, "next")])
        if has_finally:
            idx = len(self._frames) - 1
            fr = self._frames[idx]
            # normal continuation copy
            saved_frames, saved_copy = self._frames, self._copy
            self._frames = self._frames[:idx]
            self._copy = f"{saved_copy}/finally@{st.lineno}:normal"
            out = self._stmts(st.finalbody, out)
            self._frames, self._copy = saved_frames, saved_copy
            self._frames.pop()
        return out

    # ------------------------------------------------------------------ queries
    def reachable(self) -> Set[int]:
        seen = {self.entry}
        todo = [self.entry]
        while todo:
            n = todo.pop()
            for m, _ in self.succ[n]:
                if m not in seen:
                    seen.add(m)
                    todo.append(m)
        return seen

    def dominators(self) -> Dict[int, Set[int]]:
        if self._dom is not None:
            return self._dom
        reach = self.reachable()
        allr = set(reach)
        dom = {n: set(allr) for n in reach}
        dom[self.entry] = {self.entry}
        changed = True
        order = sorted(reach)
        while changed:
            changed = False
            for n in order:
                if n == self.entry:
                    continue
                ps = [p for p, _ in self.pred[n] if p in reach]
                new = set(allr)
                for p in ps:
                    new &= dom[p]
                new = new | {n}
                if new != dom[n]:
                    dom[n] = new
                    changed = True
        self._dom = dom
        return dom

    def post_dominators(self, exits: Optional[Iterable[int]] = None) -> Dict[int, Set[int]]:
        """Post-dominators w.r.t. the given exits (default: the normal exit only, i.e. over paths
        that end normally; nodes that cannot reach such an exit post-dominate nothing and are
        reported with the full set)."""
        key = tuple(sorted(exits)) if exits is not None else None
        if key is None and self._pdom is not None:
            return self._pdom
        ex = set(exits) if exits is not None else {self.exit}
        # nodes that can reach an exit
        can = set(ex)
        todo = list(ex)
        while todo:
            n = todo.pop()
            for p, _ in self.pred[n]:
                if p not in can:
                    can.add(p)
                    todo.append(p)
        allc = set(can)
        pdom = {n: set(allc) for n in can}
        for e in ex:
            pdom[e] = {e}
        changed = True
        while changed:
            changed = False
            for n in sorted(can, reverse=True):
                if n in ex:
                    continue
                ss = [s for s, _ in self.succ[n] if s in can]
                new = set(allc)
                for s in ss:
                    new &= pdom[s]
                new |= {n}
                if new != pdom[n]:
                    pdom[n] = new
                    changed = True
        if key is None:
            self._pdom = pdom
        return pdom

    def find(self, pred: Callable[[Node], bool], originals_only: bool = False) -> List[Node]:
        reach = self.reachable()
        return [
            n
            for n in self.nodes
            if n.id in reach and pred(n) and not (originals_only and n.copy)
        ]

    def stmt_nodes(self, typ=None) -> List[Node]:
        return self.find(lambda n: n.ast is not None and n.kind not in ("branch", "loop_exit") and (typ is None or isinstance(n.ast, typ)))

    def node_of(self, target: ast.AST, originals_only: bool = True) -> Optional[Node]:
        """The CFG node at which the given expression/statement is evaluated (own expressions only)."""
        reach = self.reachable()
        cands = []
        for n in self.nodes:
            if n.ast is None or n.kind in ("branch", "loop_exit", "entry", "exit", "raise_exit"):
                continue
            if originals_only and n.copy:
                continue
            for part in own_exprs(n.ast):
                if part is target or any(x is target for x in _walk_no_defs(part)):
                    cands.append(n)
                    break
        for n in cands:
            if n.id in reach:
                return n
        return cands[0] if cands else None

    def always_passes(self, stmt: ast.AST, exits: Optional[Iterable[int]] = None) -> bool:
        """Every path from entry to a (normal) exit executes `stmt` (any finally-copy of it counts)."""
        ex = set(exits) if exits is not None else {self.exit}
        targets = {n.id for n in self.nodes if n.ast is stmt or (n.ast is not None and n.kind != "branch" and any(x is stmt for part in own_exprs(n.ast) for x in _walk_no_defs(part)))}
        if not targets:
            return False
        seen = {self.entry}
        todo = [self.entry]
        while todo:
            x = todo.pop()
            if x in ex:
                return False
            for m, _ in self.succ[x]:
                if m not in seen and m not in targets:
                    seen.add(m)
                    todo.append(m)
        return True

    def dominated_by(self, n: int, d: int) -> bool:
        return d in self.dominators().get(n, set())

    def paths_avoiding(self, src: int, dst_pred: Callable[[Node], bool], avoid: Callable[[Node], bool], skip_edge: Optional[Callable[[Node, Node, str], bool]] = None) -> Optional[List[int]]:
        """A path from src to a node satisfying dst_pred that passes through no `avoid` node."""
        prev = {src: None}
        todo = [src]
        while todo:
            n = todo.pop(0)
            if n != src and dst_pred(self.nodes[n]):
                p = []
                while n is not None:
                    p.append(n)
                    n = prev[n]
                return list(reversed(p))
            for m, lab in self.succ[n]:
                if skip_edge is not None and skip_edge(self.nodes[n], self.nodes[m], lab):
                    continue
                if m not in prev and not avoid(self.nodes[m]):
                    prev[m] = n
                    todo.append(m)
        return None

    def dump(self) -> str:
        out = []
        for n in self.nodes:
            out.append(f"{n!r} -> {[(self.nodes[m].id, l) for m, l in self.succ[n.id]]}")
        return "\n".join(out)


def _walk_no_defs(n: ast.AST):
    yield n
    for ch in ast.iter_child_nodes(n):
        if isinstance(ch, (ast.FunctionDef, ast.AsyncFunctionDef, ast.Lambda, ast.ClassDef)):
            continue
        yield from _walk_no_defs(ch)


def calls_in(node: ast.AST, skip_nested_defs: bool = True) -> List[ast.Call]:
    """All Call nodes in the expression(s) of a CFG node's own statement (not its sub-blocks)."""
    out = []

    def walk(n):
        if isinstance(n, ast.Call):
            out.append(n)
        for ch in ast.iter_child_nodes(n):
            if skip_nested_defs and isinstance(ch, (ast.FunctionDef, ast.AsyncFunctionDef, ast.Lambda, ast.ClassDef)):
                continue
            walk(ch)

    for part in own_exprs(node):
        walk(part)
    return out


def own_exprs(st: ast.AST) -> List[ast.AST]:
    """The expressions evaluated *at* a CFG node (excluding nested statement blocks)."""
    if isinstance(st, (ast.If, ast.While)):
        return [st.test]
    if isinstance(st, (ast.For, ast.AsyncFor)):
        return [st.iter, st.target]
    if isinstance(st, (ast.With, ast.AsyncWith)):
        out = []
        for it in st.items:
            out.append(it.context_expr)
            if it.optional_vars is not None:
                out.append(it.optional_vars)
        return out
    if isinstance(st, ast.ExceptHandler):
        return [st.type] if st.type is not None else []
    if isinstance(st, (ast.FunctionDef, ast.AsyncFunctionDef, ast.ClassDef)):
        return list(st.decorator_list)
    if isinstance(st, ast.Try):
        return []
    if isinstance(st, ast.expr):
        return [st]
    return [st]
