"""Entry point: `python -m sa.check <property-id> [--tier quick|thorough]` / `--explain <replay>`."""

from __future__ import annotations

import argparse
import importlib
import json
import os
import sys
import time
import traceback

from .report import EVIDENCE_DIR, REPO, AnalysisError, Report


def _error_evidence(pid: str, tier: str, msg: str, t0: float):
    """Even an undecided run leaves a (truthful) evidence file behind."""
    try:
        EVIDENCE_DIR.mkdir(parents=True, exist_ok=True)
        (EVIDENCE_DIR / f"{pid}.json").write_text(
            json.dumps(
                {
                    "property_id": pid,
                    "tier": tier,
                    "seed": int(os.environ.get("VERIF_SEED", "0") or 0),
                    "level": "other",
                    "coverage": {
                        "explanation": "ANALYSIS-ERROR: the checker could not decide; nothing is claimed. "
                        + msg,
                        "evaluations": 0,
                        "distinct_nontrivial": 0,
                    },
                    "wall_s": round(time.time() - t0, 3),
                    "violations": 0,
                },
                indent=1,
            )
        )
    except Exception:
        pass


def run_property(pid: str, tier: str) -> int:
    t0 = time.time()
    try:
        mod = importlib.import_module(f"sa.props.{pid.lower()}")
    except ModuleNotFoundError:
        print(f"ANALYSIS-ERROR property={pid}: no checker module sa.props.{pid.lower()}")
        return 2
    rep = Report(pid, tier)
    try:
        mod.run(rep, tier)
        return rep.finish()
    except AnalysisError as e:
        # a rule that could not be decided does not erase violations other rules already established
        if rep.findings:
            rep.info(f"PARTIALLY UNDECIDED: a later rule ended with an analysis error and was not evaluated: {e}")
            print(f"note: property={pid}: some rules were not evaluated (analysis error: {e}); findings of the rules that ran stand on their own")
            try:
                code = rep.finish()
            except AnalysisError as e2:
                print(f"ANALYSIS-ERROR property={pid}: {e2}")
                _error_evidence(pid, tier, str(e2), t0)
                return 2
            if code == 1:
                return 1
            # only listed known findings so far: the property as a whole is still undecided
        print(f"ANALYSIS-ERROR property={pid}: {e}")
        _error_evidence(pid, tier, str(e), t0)
        return 2
    except Exception as e:  # a checker bug must never look like a violation
        traceback.print_exc()
        print(f"ANALYSIS-ERROR property={pid}: internal error {type(e).__name__}: {e}")
        _error_evidence(pid, tier, f"internal error {type(e).__name__}: {e}", t0)
        return 2


def explain(path: str) -> int:
    data = json.loads(open(path).read())
    print(json.dumps(data, indent=1))
    pid = data["property"]
    print(f"\n-- re-running {pid} on the current tree ({REPO}) --")
    code = run_property(pid, "quick")
    return code


def main(argv=None) -> int:
    ap = argparse.ArgumentParser(prog="sa.check")
    ap.add_argument("property", nargs="?")
    ap.add_argument("--tier", default=os.environ.get("VERIF_TIER", "quick"), choices=["quick", "thorough"])
    ap.add_argument("--explain", default=None)
    args = ap.parse_args(argv)
    if args.explain:
        return explain(args.explain)
    if not args.property:
        ap.error("property id required")
    return run_property(args.property.upper(), args.tier)


if __name__ == "__main__":
    code = main()
    sys.stdout.flush()
    os._exit(code)
