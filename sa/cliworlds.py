"""CLI worlds (C18): `fickling.cli.main` is *interpreted* (sa/objeval) on stacks of real pickles, with argparse, the standard
streams, `open` and `print` supplied by the world (the parsed options are the world's coordinates).  Injection: every stack of
1-3 corpus pickles x every target 0..n (one past the end included) x --run-last x --replace-result x file / standard input;
the emitted bytes are split by CPython's own reader and compared: exactly n pickles, all but the k-th byte-identical, the k-th
equal to what the (interpreted) injection helper produces from the k-th alone.  Decompilation: the printed text must be one
Python program binding result0..result{n-1} once each, with no _var name assigned twice."""

from __future__ import annotations

import ast
import io
import pickle
import pickletools
import re
from typing import Any, Dict, List, Tuple

from .minieval import PyRaise, Record, Unsupported
from .model import Repo
from .objeval import Native
from .report import AnalysisError
from . import vmworlds as V


def _pickles():
    import collections

    return [
        ("int@2", pickle.dumps(5, 2)), ("list@4-framed", pickle.dumps([1, 2, 3], 4)), ("OrderedDict@2", pickle.dumps(collections.OrderedDict(a=1), 2)),
        ("text@0", pickle.dumps("héllo", 0)), ("big-int@0 (LONG with L suffix)", pickle.dumps(10 ** 30, 0)), ("Fraction@4", pickle.dumps(__import__("fractions").Fraction(1, 3), 4)),
    ]


def _big():
    # an object too large for a frame, and a tail after it that belongs to no frame (Lib/pickle.py's _Framer)
    return ("two-70000-byte-members@4 (tail outside any frame)", pickle.dumps({"a": [b"z" * 70000], "b": "q" * 70000}, 4))


def _split(data: bytes) -> List[bytes]:
    out = []
    pos = 0
    while pos < len(data):
        end = None
        for info, _a, p in pickletools.genops(io.BytesIO(data[pos:])):
            if info.name == "STOP":
                end = pos + p + 1
                break
        if end is None:
            raise ValueError("no STOP")
        out.append(data[pos:end])
        pos = end
    return out


class _Parser:
    """argparse.ArgumentParser as the world sees it: declarations are ignored, parse_args returns the world's options."""

    sa_callable = True

    def __init__(self, options):
        self.options = options

    def __call__(self, *a, **k):
        ns = Record("Namespace", dict(self.options))
        p = Record("ArgumentParser", {})
        p.fields["()add_argument"] = lambda *a_, **k_: None
        p.fields["()add_mutually_exclusive_group"] = lambda *a_, **k_: p
        p.fields["()add_argument_group"] = lambda *a_, **k_: p
        p.fields["()parse_args"] = lambda *a_, **k_: ns
        p.fields["()print_help"] = lambda *a_, **k_: None
        p.fields["()error"] = lambda *a_, **k_: (_ for _ in ()).throw(PyRaise("SystemExit"))
        return p


def run_cli(repo: Repo, options: Dict[str, Any], stdin: bytes = b"", files: Dict[str, bytes] = None, default_analyzer: bool = False):
    """Interpret cli.main with the given parsed options.  Returns (exit status or ('raises', exc), stdout bytes, printed text)."""
    from .props.c06 import _fresh_objeval

    oe = _fresh_objeval(repo)
    oe.eval_module_calls = True
    oe.externals["stdlib_list.in_stdlib"] = V._StdlibOracle()
    out_buf = io.BytesIO()
    printed: List[str] = []
    opened: List[tuple] = []
    oe.externals["argparse.ArgumentParser"] = _Parser(options)

    written: Dict[str, Any] = {}

    def _open(path, mode="r", *a, **k):
        opened.append((path, mode))
        if "r" in mode and "b" in mode and files and path in files:
            return io.BytesIO(files[path])
        if any(ch in mode for ch in "wax+"):
            if path not in written or "w" in mode:
                written[path] = io.BytesIO() if "b" in mode else _KeepStringIO()
            if isinstance(written[path], _KeepStringIO):
                # a text file encodes what is written to it: with the encoding / error handler given, UTF-8 strict otherwise
                written[path].encoding_, written[path].errors_ = k.get("encoding") or "utf-8", k.get("errors") or "strict"
            return written[path]
        raise PyRaise("FileNotFoundError")

    oe.externals["builtins.open"] = Native(_open, "open")
    oe.externals["builtins.print"] = Native(lambda *a, **k: printed.append(" ".join(str(x) for x in a)), "print")
    stdin_rec = Record("stdin", {"buffer": io.BytesIO(stdin)})
    stdout_rec = Record("stdout", {"buffer": out_buf})
    stdout_rec.fields["()isatty"] = lambda: False
    stdout_rec.fields["()write"] = lambda s_: printed.append(str(s_))
    stderr_rec = Record("stderr", {})
    stderr_rec.fields["()write"] = lambda s_: None
    oe.module_state[("sys", "stdin")] = stdin_rec
    oe.module_state[("sys", "stdout")] = stdout_rec
    oe.module_state[("sys", "stderr")] = stderr_rec
    oe.module_state[("sys", "argv")] = ["fickling"]
    if default_analyzer:
        A = "fickling.analysis"
        ab = repo.cls(f"{A}.Analysis")
        subs = sorted((c for c in repo.classes.values() if c is not ab and repo.is_subclass(c, ab.qualname)), key=lambda c: (c.module.name != A, c.module.name, c.node.lineno))
        oe.class_store.setdefault(f"{A}.Analyzer", {})["default_instance"] = oe.instantiate(repo.cls(f"{A}.Analyzer"), [[oe.instantiate(c, [], {}) for c in subs]], {})
    main = oe.module_global(repo.modules["fickling.cli"], "main")
    try:
        rc = main(["fickling"])
    except PyRaise as pe:
        rc = ("raises", pe.name)
    run_cli.last_written = {p_: (b.getvalue() if hasattr(b, "getvalue") else None) for p_, b in written.items()}
    return rc, out_buf.getvalue(), "\n".join(printed)


class _KeepStringIO(io.StringIO):
    """A text file opened for appending: closing it (the `with` block ending) keeps what was written readable.  Like a real text
    file it encodes what is written (text the codec cannot represent is an error at the write)."""

    encoding_, errors_ = "utf-8", "strict"

    def close(self):
        pass

    def write(self, s):
        try:
            s.encode(self.encoding_, self.errors_)
        except UnicodeEncodeError:
            raise PyRaise("UnicodeEncodeError")
        except LookupError:
            raise PyRaise("LookupError")
        return super().write(s)


def base_options():
    return {"PICKLE_FILE": "-", "inject": None, "inject_target": 0, "create": None, "run_last": False, "replace_result": False, "trace": False, "check_safety": False, "json_output": None, "print_results": False, "version": False}


def inject_world(repo: Repo, stack, k: int, run_last: bool, replace: bool, from_file: bool, payload: str = "print('hi')") -> List[Tuple[str, str]]:
    from .props.c06 import _fresh_objeval

    labels = [l for l, _ in stack]
    parts = [d for _, d in stack]
    n = len(parts)
    whole = b"".join(parts)
    opts = base_options()
    opts.update({"inject": payload, "inject_target": k, "run_last": run_last, "replace_result": replace})
    where = f"stack {labels}, --inject {payload!r} --inject-target {k}{' --run-last' if run_last else ''}{' --replace-result' if replace else ''}, input from {'a file' if from_file else 'standard input'}"
    if from_file:
        opts["PICKLE_FILE"] = "in.pkl"
        rc, out, _txt = run_cli(repo, opts, files={"in.pkl": whole})
    else:
        rc, out, _txt = run_cli(repo, opts, stdin=whole)
    devs: List[Tuple[str, str]] = []
    if k >= n:
        if rc in (0, None, False) or out:
            devs.append(("out-of-range-target", f"{where}: exit status {rc!r} and {len(out)} byte(s) emitted; an out-of-range target must fail with a non-zero status and emit nothing"))
        return devs
    if isinstance(rc, tuple):
        return [(f"cli-raises:{rc[1]}", f"{where}: the CLI raises {rc[1]}")]
    if rc not in (0, None):
        return [("nonzero-status", f"{where}: exit status {rc!r}")]
    try:
        got = _split(out)
    except Exception as ex:
        return [("output-unreadable", f"{where}: the emitted bytes are not a stack of pickles ({type(ex).__name__})")]
    if len(got) != n:
        return [(f"pickle-count:{len(got)}", f"{where}: {len(got)} pickle(s) emitted for {n} in the input")]
    for i, (a, b) in enumerate(zip(parts, got)):
        if i != k and a != b:
            devs.append(("bystander-changed", f"{where}: pickle #{i} ({labels[i]}) is not byte-identical to the input ({a[:24]!r}... -> {b[:24]!r}...)"))
    # a reader that takes the stream at its word (CPython's unpickler on a file object, which trusts FRAME lengths) finds the
    # same n values: the bystanders' own, and for the target the original's value or the injected call's
    stream = io.BytesIO(out)
    for i in range(n):
        try:
            V.CALL_LOG.clear()
            v = V._StandInUnpickler(stream).load()
        except Exception as ex:
            devs.append((f"stack-unreadable-from-file:{type(ex).__name__}", f"{where}: reading the emitted stack from a file object fails at pickle #{i} ({labels[i]}): {type(ex).__name__}: {str(ex)[:60]}"))
            break
        if i == k:
            # the target: the source given to --inject reaches eval, as the text it is, exactly once more than in the input
            evals = [e for e in V.CALL_LOG if e[0] == ("builtins", "eval")]
            try:
                V.CALL_LOG.clear()
                V._StandInUnpickler(io.BytesIO(parts[i])).load()
                before = [e for e in V.CALL_LOG if e[0] == ("builtins", "eval")]
            except Exception:
                before = []
            new = [e for e in evals if e not in before] if len(evals) != len(before) + 1 else [e for e in evals if e not in before][:1] or evals[-1:]
            if len(evals) != len(before) + 1 or not new or len(new[0][1]) != 1 or type(new[0][1][0]) is not str or new[0][1][0] != payload:
                devs.append(("payload-not-evaluated-as-given", f"{where}: reading pickle #{i} back, eval is called {len(evals)} time(s) with {[e[1] for e in evals][:3]!r}; the input's pickle calls it {len(before)} time(s) and the injection adds one call with the source text {payload!r}"))
        if i != k:
            try:
                V.CALL_LOG.clear()
                own = V._StandInUnpickler(io.BytesIO(parts[i])).load()
            except Exception:
                continue
            if not V.same_value(own, v):
                devs.append(("bystander-value-changed", f"{where}: read from a file object, pickle #{i} ({labels[i]}) gives {v!r:.60} instead of {own!r:.60}"))
    else:
        if stream.read(1):
            devs.append(("trailing-bytes", f"{where}: bytes remain after the {n} pickle(s) of the emitted stack"))
    # the k-th: what the helper does to it alone
    oe = _fresh_objeval(repo)
    pk = repo.cls("fickling.fickle.Pickled")
    try:
        P = oe.ref(pk).sa_attr("load")(parts[k])
        P.sa_attr("insert_python_eval")(payload, run_first=not run_last, use_output_as_unpickle_result=replace)
        want = P.sa_attr("dumps")()
    except PyRaise as pe:
        return devs + [(f"helper-raises:{pe.name}", f"{where}: the injection helper raises {pe.name} on the target alone")]
    if got[k] != want:
        devs.append(("target-not-injection-of-input", f"{where}: the emitted target is not the input's pickle #{k} with the injection applied ({got[k][:40]!r}... vs {want[:40]!r}...)"))
    return devs


def decompile_world(repo: Repo, stack, trace: bool, from_file: bool) -> List[Tuple[str, str]]:
    labels = [l for l, _ in stack]
    whole = b"".join(d for _, d in stack)
    n = len(stack)
    opts = base_options()
    opts["trace"] = trace
    where = f"stack {labels}{' --trace' if trace else ''}, input from {'a file' if from_file else 'standard input'}"
    if from_file:
        opts["PICKLE_FILE"] = "in.pkl"
        rc, out, txt = run_cli(repo, opts, files={"in.pkl": whole})
    else:
        rc, out, txt = run_cli(repo, opts, stdin=whole)
    if isinstance(rc, tuple):
        return [] if rc[1] == "NotImplementedError" else [(f"cli-raises:{rc[1]}", f"{where}: the CLI raises {rc[1]}")]
    try:
        mod = ast.parse(txt)
    except SyntaxError as ex:
        return [("not-a-program", f"{where}: the printed text is not one Python program: {ex.msg}")]
    assigned: Dict[str, int] = {}
    for st in mod.body:
        if isinstance(st, ast.Assign):
            for t in st.targets:
                if isinstance(t, ast.Name):
                    assigned[t.id] = assigned.get(t.id, 0) + 1
    devs = []
    for i in range(n):
        if assigned.get(f"result{i}", 0) != 1:
            devs.append(("result-names", f"{where}: `result{i}` is assigned {assigned.get(f'result{i}', 0)} time(s) in the printed program"))
            break
    dup = sorted(nm for nm, c in assigned.items() if re.fullmatch(r"_var\d+", nm) and c > 1)
    if dup:
        devs.append(("variable-reused", f"{where}: {dup[:4]} assigned more than once: a variable of one pickle is reused by another"))
    # each pickle's value is bound to its own result name: the program run on inert stand-ins, result<i> against what CPython's
    # unpickler (same stand-ins) returns for pickle i alone
    if not devs:
        try:
            V.CALL_LOG.clear()
            env = V.eval_program_env(mod)
        except V.ProgramError as ex:
            raise Unsupported(f"the printed program is outside the evaluated subset: {ex}")
        except RecursionError:
            return devs
        except Exception as ex:
            return [(f"program-does-not-run:{type(ex).__name__}", f"{where}: the printed program fails on inert stand-ins with {type(ex).__name__}: {str(ex)[:80]}")]
        for i, (label, data) in enumerate(stack):
            try:
                V.CALL_LOG.clear()
                want = V.reference_value(data)
            except Exception:
                continue
            got = env.get(f"result{i}")
            if not V.same_value(want, got):
                devs.append(("result-value", f"{where}: in the printed program `result{i}` is {got!r:.70}; pickle #{i} ({label}) alone unpickles to {want!r:.70}"))
                break
    return devs


_CREPO = None


def _cchunk(items):
    out = []
    for kind, args in items:
        try:
            out.append(("ok", inject_world(_CREPO, *args) if kind == "inject" else decompile_world(_CREPO, *args) if kind == "decompile" else safety_world(_CREPO, *args)))
        except Unsupported as e:
            out.append(("unsupported", f"{kind} {[l for l, _ in args[0]]} {args[1:]}: {e}"))
        except AnalysisError as e:
            out.append(("unsupported", f"{kind} {[l for l, _ in args[0]]} {args[1:]}: {e}"))
    return out


def explore(repo: Repo, tier: str):
    import itertools
    import multiprocessing as mp
    import os
    from concurrent.futures import ProcessPoolExecutor
    from pathlib import Path

    from .cache import cached, digest

    global _CREPO
    _CREPO = repo
    ps = _pickles()
    stacks = [[p] for p in ps[:3]] + [list(c) for c in itertools.permutations(ps[:4], 2)][:: (1 if tier == "thorough" else 2)] + [[ps[0], ps[1], ps[2]], [ps[3], ps[4], ps[5]], [ps[5], ps[0], ps[3]]]
    stacks += [[_big()], [ps[1], _big()]]
    # a pickle that memoises several values, then one that fetches a memoised callable back (the second Fraction's class)
    memo_a = ("text-list@4", pickle.dumps(["alpha", "beta", "gamma", "delta"], 4))
    memo_b = ("two-Fractions@4 (the class fetched from the memo)", pickle.dumps([__import__("fractions").Fraction(1, 3), __import__("fractions").Fraction(2, 3)], 4))
    stacks += [[memo_a, memo_b], [memo_b, memo_a, memo_b]]
    # the same framed pickle more than once: equal opcodes, equal FRAME lengths - and still separate objects
    stacks += [[ps[1], ps[1]], [ps[5], ps[1], ps[5]]]
    if tier == "thorough":
        stacks += [list(c) for c in itertools.permutations(ps, 3)][::7] + [[_big(), ps[2], _big()]]
    sparse = ("list-with-a-lone-BINPUT-2@2 (sparse memo)", b"\x80\x02]q\x02(K\x01K\x02e.")
    stacks += [[sparse], [ps[0], sparse]]
    items = []
    for st in stacks:
        for k in range(len(st) + 1):
            for rl in (False, True):
                for rr in (False, True):
                    for ff in (False, True):
                        items.append(("inject", (st, k, rl, rr, ff)))
    # sources that look like something else than code: a number, text that needs escaping, non-ASCII
    for pl in ("42", "1e3", "-7", "'a\\nb' + \"q\"", "print('h\xe9')", "x" * 300):
        for rl, rr in ((False, False), (True, True)):
            items.append(("inject", ([ps[1]], 0, rl, rr, True, pl)))
        items.append(("decompile", (st, False, False)))  # (--trace interleaves its own report with the programs: not claimed)
        items.append(("decompile", (st, False, True)))
    jobs = min(int(os.environ.get("SA_JOBS", "16")), os.cpu_count() or 1)
    chunks = [items[i::jobs] for i in range(jobs)]

    def compute():
        try:
            with ProcessPoolExecutor(max_workers=jobs, mp_context=mp.get_context("fork")) as ex:
                return list(ex.map(_cchunk, chunks))
        except (OSError, RuntimeError):
            return [_cchunk(c) for c in chunks]

    key = "cliworlds-" + digest(repo, [m for m in repo.modules if m.startswith("fickling.") and m.split(".")[1] in ("fickle", "analysis", "cli", "tracing", "ml")], f"{tier}|{jobs}", [Path(__file__), Path(V.__file__)])
    parts = cached(key, compute)
    found: Dict[str, Tuple[int, str]] = {}
    n = 0
    for outs in parts:
        for o in outs:
            n += 1
            if o[0] == "unsupported":
                raise AnalysisError(f"CLI worlds: cannot interpret {o[1]}")
            for key_, msg in o[1]:
                c, m = found.get(key_, (0, msg))
                found[key_] = (c + 1, m if len(m) <= len(msg) else msg)
    return found, n


def safety_world(repo: Repo, stack, print_results: bool) -> List[Tuple[str, str]]:
    """--check-safety on a stack: the exit status and the JSON report agree with the library verdict of each pickle."""
    import json

    from .props.c06 import _fresh_objeval

    labels = [l for l, _ in stack]
    parts = [d for _, d in stack]
    where = f"--check-safety{' --print-results' if print_results else ''} on stack {labels}"
    # the library face, pickle by pickle
    verdicts = []
    for d in parts:
        oe = _fresh_objeval(repo)
        oe.externals["stdlib_list.in_stdlib"] = V._StdlibOracle()
        A = "fickling.analysis"
        ab = repo.cls(f"{A}.Analysis")
        subs = sorted((c for c in repo.classes.values() if c is not ab and repo.is_subclass(c, ab.qualname)), key=lambda c: (c.module.name != A, c.module.name, c.node.lineno))
        az = oe.instantiate(repo.cls(f"{A}.Analyzer"), [[oe.instantiate(c, [], {}) for c in subs]], {})
        try:
            P = oe.ref(repo.cls("fickling.fickle.Pickled")).sa_attr("load")(d)
            r = oe.module_global(repo.modules[A], "check_safety")(P, analyzer=az)
            verdicts.append(r.sa_attr("severity")[1]["name"])
        except PyRaise:
            return []  # no library verdict for a member: outside this comparison
    opts = base_options()
    opts.update({"check_safety": True, "json_output": "report.json", "print_results": print_results})
    # the CLI builds its default analyzer through the metaclass property (C04.registered): supplied like in the load worlds
    rc, _out, _txt = run_cli(repo, opts, stdin=b"".join(parts), default_analyzer=True)
    if isinstance(rc, tuple):
        return [(f"cli-raises:{rc[1]}", f"{where}: the CLI raises {rc[1]}")]
    devs = []
    all_safe = all(v == "LIKELY_SAFE" for v in verdicts)
    zero = rc in (0, None, False)
    if zero != all_safe:
        devs.append(("exit-status-disagrees", f"{where}: exit status {rc!r}, library verdicts {verdicts}"))
    text = (run_cli.last_written.get("report.json") or "")
    docs = []
    dec = json.JSONDecoder()
    i = 0
    try:
        while i < len(text):
            while i < len(text) and text[i].isspace():
                i += 1
            if i >= len(text):
                break
            obj, j = dec.raw_decode(text, i)
            docs.append(obj)
            i = j
    except ValueError:
        devs.append(("report-unreadable", f"{where}: the JSON report is not a sequence of JSON documents"))
        return devs
    sevs = [d_.get("severity") if isinstance(d_, dict) else None for d_ in docs]
    if sevs != verdicts:
        devs.append(("report-disagrees", f"{where}: the JSON report says {sevs}, the library verdicts are {verdicts}"))
    return devs


def _verdict_pickles():
    import collections

    return [
        ("an int", pickle.dumps(5, 2)), ("an OrderedDict", pickle.dumps(collections.OrderedDict(a=1), 2)), ("a non-standard global", b"cnot_stdlib_module\nThing\n."),
        ("os.system('id')", b"cos\nsystem\n(S'id'\ntR."), ("eval('1')", b"c__builtin__\neval\n(S'1'\ntR."),
        ("a global whose module name contains a lone surrogate (STACK_GLOBAL)", _surrogate_global()),
        ("data only, with a second PROTO", b"\x80\x02\x80\x03K\x01."),
        ("a protocol-0 os.system by INST", b"(S'id'\nios\nsystem\n."),
    ]


def _surrogate_global() -> bytes:
    mod = "m\udc80dule".encode("utf-8", "surrogatepass")
    return b"\x80\x04\x8c" + bytes([len(mod)]) + mod + b"\x8c\x05thing\x93."


def explore_safety(repo: Repo, tier: str):
    import itertools
    import multiprocessing as mp
    import os
    from concurrent.futures import ProcessPoolExecutor
    from pathlib import Path

    from .cache import cached, digest

    global _CREPO
    _CREPO = repo
    ps = _verdict_pickles()
    stacks = [[p] for p in ps] + [list(c) for c in itertools.permutations(ps[:5], 2)] + [[ps[0], ps[0], ps[0]], [ps[0], ps[3], ps[0]], [ps[4], ps[0], ps[1]]]
    stacks += [[ps[0], x] for x in ps[5:]] + [[x, ps[0]] for x in ps[5:]]
    if tier == "thorough":
        stacks += [list(c) for c in itertools.permutations(ps[:5], 3)][::2] + [list(c) for c in itertools.permutations(ps[5:], 2)]
    items = [("safety", (st, pr)) for st in stacks for pr in (False, True)]
    jobs = min(int(os.environ.get("SA_JOBS", "16")), os.cpu_count() or 1)
    chunks = [items[i::jobs] for i in range(jobs)]

    def compute():
        try:
            with ProcessPoolExecutor(max_workers=jobs, mp_context=mp.get_context("fork")) as ex:
                return list(ex.map(_cchunk, chunks))
        except (OSError, RuntimeError):
            return [_cchunk(c) for c in chunks]

    key = "clisafetyworlds-" + digest(repo, [m for m in repo.modules if m.startswith("fickling.") and m.split(".")[1] in ("fickle", "analysis", "cli", "ml")], f"{tier}|{jobs}", [Path(__file__), Path(V.__file__)])
    parts = cached(key, compute)
    found: Dict[str, Tuple[int, str]] = {}
    n = 0
    for outs in parts:
        for o in outs:
            n += 1
            if o[0] == "unsupported":
                raise AnalysisError(f"CLI safety worlds: cannot interpret {o[1]}")
            for key_, msg in o[1]:
                c, m = found.get(key_, (0, msg))
                found[key_] = (c + 1, m if len(m) <= len(msg) else msg)
    return found, n
