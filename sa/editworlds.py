"""Edit worlds (C14): sequences of edits through the opcode-sequence interface of `Pickled` - insert, delete, replace, append,
extend, pop (the MutableSequence mixins, modelled by their `_collections_abc` contract: every one of them goes through
insert / __setitem__ / __delitem__ / __getitem__ / __len__) and the injection helpers - are *interpreted* (sa/objeval) on base
pickles, with every derived view read before the first edit (so that the caches are warm) and after each edit: the decompiled
program, the import / call summaries, the safety verdict with its messages, and the serialised bytes.  After each edit every
view must equal what a freshly constructed `Pickled(list(p))` gives, and dumps() must be the concatenation of the current
opcodes' `data`."""

from __future__ import annotations

import ast
import pickle
from typing import Any, Dict, List, Tuple

from .minieval import PyRaise, Unsupported
from .model import Repo
from .objeval import Instance, Native
from .report import AnalysisError
from . import vmworlds as V

F = "fickling.fickle"
A = "fickling.analysis"


def _bases():
    import collections

    return [
        ("a list (protocol 2)", pickle.dumps([1, 2, 3], 2)),
        ("an OrderedDict (protocol 4, framed)", pickle.dumps(collections.OrderedDict(a=1), 4)),
        ("os.system('id') by REDUCE (protocol 0)", b"cos\nsystem\n(S'id'\ntR."),
    ]


def _mixins(oe):
    """collections.abc.MutableSequence's mixin methods, by contract."""
    def append(recv):
        return Native(lambda v: recv.sa_attr("insert")(recv.sa_attr("__len__")(), v), "MutableSequence.append")

    def extend(recv):
        def f(vs):
            for v in list(vs):
                recv.sa_attr("insert")(recv.sa_attr("__len__")(), v)
        return Native(f, "MutableSequence.extend")

    def pop(recv):
        def f(index=-1):
            v = recv.sa_attr("__getitem__")(index)
            recv.sa_attr("__delitem__")(index)
            return v
        return Native(f, "MutableSequence.pop")

    def clear(recv):
        def f():
            while recv.sa_attr("__len__")():
                recv.sa_attr("__delitem__")(recv.sa_attr("__len__")() - 1)
        return Native(f, "MutableSequence.clear")

    def iadd(recv):
        def f(vs):
            extend(recv)(vs)
            return recv
        return Native(f, "MutableSequence.__iadd__")

    oe.external_base_methods.update({"append": append, "extend": extend, "pop": pop, "clear": clear, "__iadd__": iadd})


VIEW_NAMES = ("program", "summaries", "verdict", "bytes", "queries")


def _views(repo: Repo, oe, P, queries_first: bool = False) -> Dict[str, Any]:
    """Every derived view of P, each as ('ok', value) or ('raises', exception name)."""
    out: Dict[str, Any] = {}

    def view(name, fn):
        try:
            out[name] = ("ok", fn())
        except PyRaise as pe:
            out[name] = ("raises", pe.name)
        except RecursionError:
            out[name] = ("raises", "RecursionError")

    def program():
        m = P.sa_attr("ast")
        try:
            return ast.unparse(m)
        except Exception as ex:  # a tree unparse refuses: the view is that refusal
            return f"<unparse: {type(ex).__name__}>"

    def summaries():
        pr = P.sa_attr("properties")
        return (len(pr.sa_attr("imports")), len(pr.sa_attr("calls")), len(pr.sa_attr("non_setstate_calls")), sorted(pr.sa_attr("likely_safe_imports")))

    def verdict():
        ab = repo.cls(f"{A}.Analysis")
        subs = sorted((c for c in repo.classes.values() if c is not ab and repo.is_subclass(c, ab.qualname)), key=lambda c: (c.module.name != A, c.module.name, c.node.lineno))
        az = oe.instantiate(repo.cls(f"{A}.Analyzer"), [[oe.instantiate(c, [], {}) for c in subs]], {})
        r = oe.module_global(repo.modules[A], "check_safety")(P, analyzer=az)
        return (r.sa_attr("severity")[1]["name"], tuple(str(f.sa_attr("message")) for f in r.sa_attr("results")))

    def queries():
        # the boolean / listing queries of Pickled itself (each a derived view with its own path to the caches)
        names = lambda it: sorted(f"{getattr(n, 'module', None)}:{','.join(a.name for a in n.names)}" for n in list(it))
        return (P.sa_attr("has_import"), P.sa_attr("has_call"), P.sa_attr("has_non_setstate_call"), names(P.sa_attr("unsafe_imports")()), names(P.sa_attr("non_standard_imports")()), P.sa_attr("nb_opcodes"))

    if queries_first:
        view("queries", queries)
    view("program", program)
    view("summaries", summaries)
    view("verdict", verdict)
    view("bytes", lambda: P.sa_attr("dumps")())
    if not queries_first:
        view("queries", queries)
    return out


def _ops(repo: Repo, oe):
    pk = repo.cls(f"{F}.Pickled")
    cls = lambda n: oe.ref(repo.cls(f"{F}.{n}"))
    L = lambda P: P.sa_attr("__len__")()
    return [
        ("insert(-1, BinInt1(7))", lambda P: P.sa_attr("insert")(-1, cls("BinInt1")(7))),
        ("insert(1, Global os.getcwd) + insert(2, Pop())", lambda P: (P.sa_attr("insert")(1, cls("Global").sa_attr("create")("os", "getcwd")), P.sa_attr("insert")(2, cls("Pop")()))),
        ("del p[len-2]", lambda P: P.sa_attr("__delitem__")(L(P) - 2)),
        ("p[len-2] = BinInt1(9)", lambda P: P.sa_attr("__setitem__")(L(P) - 2, cls("BinInt1")(9))),
        ("append(Pop())", lambda P: P.sa_attr("append")(cls("Pop")())),
        ("extend([BinInt1(1), Pop()])", lambda P: P.sa_attr("extend")([cls("BinInt1")(1), cls("Pop")()])),
        ("pop()", lambda P: P.sa_attr("pop")()),
        ("append_python('x', module='os', attr='system', pop_result=True)", lambda P: P.sa_attr("append_python")("x", module="os", attr="system", pop_result=True)),
        ("insert_python('y', run_first=True)", lambda P: P.sa_attr("insert_python")("y", run_first=True, use_output_as_unpickle_result=False)),
        ("insert_python('z', run_first=False, use_output_as_unpickle_result=True)", lambda P: P.sa_attr("insert_python")("z", run_first=False, use_output_as_unpickle_result=True)),
        ("insert_magic_int(4321)", lambda P: P.sa_attr("insert_magic_int")(4321)),
    ]


def _class_insert_op(repo: Repo, oe, clsname: str):
    """`p.insert(1, <one opcode of class clsname>)`: whichever class the new opcode has, the views follow the edit."""
    ref = oe.ref(repo.cls(clsname))

    def build():
        last = None
        for args in ((), (1,), ("x",), (b"x",), (1.5,), ("m", "n")):
            try:
                op = ref(*args)
                op.sa_attr("data")  # an opcode that serialises
                return op
            except PyRaise as pe:
                last = pe
        raise last

    def fn(P):
        P.sa_attr("insert")(1, build())

    return (f"insert(1, {clsname.split('.')[-1]}(...))", fn)


def run_sequence(repo: Repo, blabel: str, base: bytes, seq: Tuple[int, ...]) -> List[Tuple[str, str]]:
    from .props.c06 import _fresh_objeval

    oe = _fresh_objeval(repo)
    oe.externals["stdlib_list.in_stdlib"] = V._StdlibOracle()
    _mixins(oe)
    pk = repo.cls(f"{F}.Pickled")
    ops = _ops(repo, oe)
    P = oe.ref(pk).sa_attr("load")(base)
    _views(repo, oe, P)  # warm every cache
    devs: List[Tuple[str, str]] = []
    done = []
    for k in seq:
        if isinstance(k, tuple):
            label, fn = _class_insert_op(repo, oe, k[1])
        else:
            label, fn = ops[k]
        done.append(label)
        try:
            fn(P)
        except PyRaise:
            pass  # an edit that raises (e.g. a helper refusing a pickle that no longer ends in STOP) is still followed by reads
        got = _views(repo, oe, P)
        again = _views(repo, oe, P)  # read a second time before the next edit: a view is not used up by being looked at
        for name in VIEW_NAMES:
            if got[name] != again[name]:
                devs.append((f"view-changes-when-read-again:{name}", f"on {blabel}, after `{' ; '.join(done)}` the {name} is {str(got[name])[:100]} when first read and {str(again[name])[:100]} when read again (no edit in between)"))
        try:
            fresh = oe.ref(pk)(list(P.sa_attr("__iter__")()))
        except PyRaise as pe:
            return devs + [(f"cannot-copy:{pe.name}", f"{blabel}; {' ; '.join(done)}: Pickled(list(p)) raises {pe.name}")]
        want = _views(repo, oe, fresh)
        for name in VIEW_NAMES:
            if got[name] != want[name]:
                op_kind = (label.split("(")[0].split(" ")[0].split("[")[0] or label) if not isinstance(k, tuple) else "insert-of-class:" + k[1].split(".")[-1]
                devs.append((f"stale-{name}:{op_kind}", f"on {blabel}, after `{' ; '.join(done)}` (all views read before and between the edits) the {name} is {str(got[name])[:110]}, a fresh Pickled with the same opcodes gives {str(want[name])[:110]}"))
        if got["bytes"][0] == "ok":
            try:
                concat = b"".join(o.sa_attr("data") for o in list(P.sa_attr("__iter__")()))
                if concat != got["bytes"][1]:
                    devs.append(("bytes-not-concatenation", f"on {blabel}, after `{' ; '.join(done)}` dumps() is not the concatenation of the current opcodes' data"))
            except PyRaise:
                pass
        if devs:
            break
    return devs


_EREPO = None


def _echunk(items):
    out = []
    for blabel, base, seq in items:
        try:
            out.append(("ok", run_sequence(_EREPO, blabel, base, seq)))
        except Unsupported as e:
            out.append(("unsupported", f"{blabel} {seq}: {e}"))
        except AnalysisError as e:
            out.append(("unsupported", f"{blabel} {seq}: {e}"))
    return out


def explore(repo: Repo, tier: str):
    import itertools
    import multiprocessing as mp
    import os
    from concurrent.futures import ProcessPoolExecutor
    from pathlib import Path

    from .cache import cached, digest

    global _EREPO
    _EREPO = repo
    n_ops = 11
    seqs = [(i,) for i in range(n_ops)] + list(itertools.product(range(n_ops), repeat=2))
    if tier == "thorough":
        seqs += [s for s in itertools.product(range(n_ops), repeat=3) if len(set(s)) == 3][::3]
    items = [(bl, b, s) for bl, b in _bases() for s in seqs]
    # one insert of an opcode of every class the package defines (an edit is an edit whatever the class of the new opcode)
    from .model import opcode_registry

    b0 = _bases()[0]
    items += [(b0[0], b0[1], (("class", o.cls.qualname),)) for o in opcode_registry(repo)[0]]
    # opcodes the pickler does not write any more, edited once each
    for rare in (("OBJ with two arguments (protocol 0)", b"(cdecimal\nDecimal\nS'1.5'\nK\x02o."), ("os.system by INST (protocol 0)", b"(S'id'\nios\nsystem\n."), ("NEWOBJ_EX with keywords (protocol 4)", b"\x80\x04ccollections\nOrderedDict\n)}(\x8c\x01xK\x03u\x92.")):
        items += [(rare[0], rare[1], (i,)) for i in range(n_ops)]
    jobs = min(int(os.environ.get("SA_JOBS", "16")), os.cpu_count() or 1)
    chunks = [items[i::jobs] for i in range(jobs)]

    def compute():
        try:
            with ProcessPoolExecutor(max_workers=jobs, mp_context=mp.get_context("fork")) as ex:
                return list(ex.map(_echunk, chunks))
        except (OSError, RuntimeError):
            return [_echunk(c) for c in chunks]

    key = "editworlds-" + digest(repo, ["fickling.fickle", "fickling.analysis", "fickling.ml"], f"{tier}|{jobs}", [Path(__file__), Path(V.__file__)])
    parts = cached(key, compute)
    found: Dict[str, Tuple[int, str]] = {}
    n = 0
    for outs in parts:
        for o in outs:
            n += 1
            if o[0] == "unsupported":
                raise AnalysisError(f"edit worlds: cannot interpret {o[1]}")
            for key_, msg in o[1]:
                c, m = found.get(key_, (0, msg))
                found[key_] = (c + 1, m if len(m) <= len(msg) else msg)
    return found, n


# ------------------------------------------------------------------------------------------------------------------------
# history worlds (C13): what is answered for a pickle does not depend on what the process did before
# ------------------------------------------------------------------------------------------------------------------------
def _history_inputs():
    import collections

    return _bases() + [
        ("protocol-0 booleans and a float", b"(I01\nI00\nG?\xf0\x00\x00\x00\x00\x00\x00t."),
        ("floats 1.0 and 0.0 (protocol 2)", pickle.dumps([1.0, 0.0, -0.0], 2)),
        ("a non-standard-library call", b"cnot_stdlib_module\nThing\n(S'a'\ntR."),
        ("a dict with shared keys (protocol 4)", pickle.dumps({"a": ("x", "x"), "b": ("x",)}, 4)),
        ("os.system by INST (protocol 0: the import comes from INST alone)", b"(S'id'\nios\nsystem\n."),
        ("NEWOBJ_EX with an empty keyword dict (protocol 4)", b"\x80\x04ccollections\nOrderedDict\n)}\x92."),
        ("OBJ with two arguments (protocol 0)", b"(cdecimal\nDecimal\nS'1.5'\nK\x02o."),
        ("a call whose argument is a 100-character string", b"cos\nsystem\n(S'" + b"x" * 100 + b"'\ntR."),
    ]


def _named_callee_inputs(repo: Repo):
    import re

    names = set()
    for n_ in ast.walk(repo.module(A).tree):
        if isinstance(n_, ast.Constant) and isinstance(n_.value, str):
            m = re.fullmatch(r"([A-Za-z_][A-Za-z0-9_]{1,23})\(?", n_.value)
            if m:
                names.add(m.group(1))
    names = sorted(names)
    return [(f"decimal.{nm}('x') by REDUCE (protocol 0)", b"cdecimal\n" + nm.encode() + b"\n(S'x'\ntR.") for nm in names]


def history_world(repo: Repo, a, b, mode: str) -> List[Tuple[str, str]]:
    from .props.c06 import _fresh_objeval

    pk = repo.cls(f"{F}.Pickled")

    def fresh_oe():
        oe = _fresh_objeval(repo)
        oe.externals["stdlib_list.in_stdlib"] = V._StdlibOracle()
        return oe

    oe1 = fresh_oe()
    P1 = oe1.ref(pk).sa_attr("load")(a[1])
    alone = _views(repo, oe1, P1, queries_first=True)  # (in the fresh process the boolean queries come first, in the other one last)
    devs = []
    if mode == "same-bytes-twice":
        again = _views(repo, oe1, P1)  # the same object asked a second time
        for name in VIEW_NAMES:
            if alone[name] != again[name]:
                devs.append((f"not-repeatable-{name}", f"the {name} of {a[0]} is {str(alone[name])[:100]} the first time it is asked and {str(again[name])[:100]} the second time (same object, nothing edited in between)"))
    oe2 = fresh_oe()
    Pb = oe2.ref(pk).sa_attr("load")(b[1])
    if mode == "after-full-analysis":
        _views(repo, oe2, Pb)
    elif mode == "after-abandoned-decompilation":
        it = oe2.ref(repo.cls(f"{F}.Interpreter"))(Pb)
        try:
            for _ in range(3):
                it.sa_attr("step")()
        except PyRaise:
            pass
    else:  # twice the same bytes, two objects
        _views(repo, oe2, oe2.ref(pk).sa_attr("load")(a[1]))
    after = _views(repo, oe2, oe2.ref(pk).sa_attr("load")(a[1]))
    for name in VIEW_NAMES:
        if alone[name] != after[name]:
            devs.append((f"history-dependent-{name}:{mode}", f"the {name} of {a[0]} is {str(after[name])[:100]} when {('the same bytes were analysed before' if mode == 'same-bytes-twice' else b[0] + ' was ' + ('analysed' if mode == 'after-full-analysis' else 'half decompiled and abandoned') + ' before')} in the process, and {str(alone[name])[:100]} in a fresh process"))
    return devs


def _hchunk(items):
    out = []
    for a, b, mode in items:
        try:
            out.append(("ok", history_world(_EREPO, a, b, mode)))
        except Unsupported as e:
            out.append(("unsupported", f"{a[0]} after {b[0]} ({mode}): {e}"))
        except AnalysisError as e:
            out.append(("unsupported", f"{a[0]} after {b[0]} ({mode}): {e}"))
    return out


def explore_history(repo: Repo, tier: str):
    import multiprocessing as mp
    import os
    from concurrent.futures import ProcessPoolExecutor
    from pathlib import Path

    from .cache import cached, digest

    global _EREPO
    _EREPO = repo
    ins = _history_inputs()
    items = [(a, b, m) for a in ins for b in ins for m in ("after-full-analysis", "after-abandoned-decompilation") if a is not b] + [(a, a, "same-bytes-twice") for a in ins]
    # the callee names the analyses themselves mention (string constants of their own source), each called as a member of a
    # benign standard-library module: the inputs on which a name table that grows or shrinks from run to run would show
    named = _named_callee_inputs(repo)
    items += [(a, a, "same-bytes-twice") for a in named] + [(a, ins[2], "after-full-analysis") for a in named]
    jobs = min(int(os.environ.get("SA_JOBS", "16")), os.cpu_count() or 1)
    chunks = [items[i::jobs] for i in range(jobs)]

    def compute():
        try:
            with ProcessPoolExecutor(max_workers=jobs, mp_context=mp.get_context("fork")) as ex:
                return list(ex.map(_hchunk, chunks))
        except (OSError, RuntimeError):
            return [_hchunk(c) for c in chunks]

    key = "historyworlds-" + digest(repo, ["fickling.fickle", "fickling.analysis", "fickling.ml"], f"{tier}|{jobs}", [Path(__file__), Path(V.__file__)])
    parts = cached(key, compute)
    found: Dict[str, Tuple[int, str]] = {}
    n = 0
    for outs in parts:
        for o in outs:
            n += 1
            if o[0] == "unsupported":
                raise AnalysisError(f"history worlds: cannot interpret {o[1]}")
            for key_, msg in o[1]:
                c, m = found.get(key_, (0, msg))
                found[key_] = (c + 1, m if len(m) <= len(msg) else msg)
    return found, n
