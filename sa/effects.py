"""E4 -- effect tables: classification of external callables reachable from analysis entry points.

`classify_external(qualname)` / `classify_method(name)` return one of
  'inert'      audited, cannot import / resolve / call / spawn / connect / write as a consequence of the input
  'forbidden'  an operation the inertness property excludes
  'unaudited'  not in either table -> the caller ends ANALYSIS-ERROR (never a silent pass, never a violation)
"""

from __future__ import annotations

import ast
from typing import Optional, Tuple

INERT_MODULE_PREFIXES = (
    "ast.", "pickletools.", "struct.", "re.", "json.", "io.", "collections.", "enum.", "abc.", "typing.", "argparse.",
    "stdlib_list.", "astunparse.", "warnings.", "itertools.", "functools.", "operator.", "string.", "textwrap.", "math.",
    "dataclasses.", "copy.", "_compat_pickle.", "keyword.", "sysconfig.get_path", "sysconfig.get_paths", "types.", "contextlib.", "logging.", "sys.stderr.", "sys.stdout.", "sys.stdin.", "os.path.",
    "object.", "Exception.", "ValueError.", "binascii.", "base64.", "hashlib.", "zlib.",
)
INERT_EXACT = {
    "sys.exit", "sys.getsizeof", "sys.version_info", "sys.argv", "sys.stdin", "sys.stdout", "sys.stderr", "sys.builtin_module_names",
    "sys.byteorder", "sys.maxsize", "os.fspath", "os.getcwd", "os.sep", "os.linesep", "os.environ.get", "os.getenv", "os.stat", "os.fstat",
    "fickling.__version__", "time.time", "time.perf_counter", "time.monotonic",
}
PURE_BUILTINS = {
    "abs", "all", "any", "ascii", "bin", "bool", "bytearray", "bytes", "callable", "chr", "classmethod", "complex", "dict", "dir", "divmod",
    "enumerate", "filter", "float", "format", "frozenset", "getattr", "hasattr", "hash", "hex", "id", "int", "isinstance", "issubclass", "iter",
    "len", "list", "map", "max", "min", "next", "object", "oct", "ord", "pow", "print", "property", "range", "repr", "reversed", "round", "set",
    "slice", "sorted", "staticmethod", "str", "sum", "super", "tuple", "type", "zip", "setattr", "delattr", "vars",
    "NotImplementedError", "ValueError", "TypeError", "IndexError", "KeyError", "StopIteration", "Exception", "AttributeError", "RuntimeError",
    "ImportError", "OSError", "DeprecationWarning", "UserWarning", "AssertionError", "NotImplemented", "ModuleNotFoundError", "EOFError",
}
FORBIDDEN_BUILTINS = {"eval", "exec", "compile", "__import__", "breakpoint", "input", "globals", "locals", "memoryview"} - {"memoryview"}
FORBIDDEN_MODULE_PREFIXES = (
    "importlib.", "runpy.", "pkgutil.", "subprocess.", "socket.", "ssl.", "ctypes.", "multiprocessing.", "urllib.", "http.", "ftplib.",
    "smtplib.", "requests.", "webbrowser.", "code.", "codeop.", "tempfile.", "shutil.", "zipimport.", "imp.", "asyncio.", "threading.",
    "dill.", "cloudpickle.", "joblib.", "shelve.", "cPickle.", "torch.", "numpy.", "marshal.load", "builtins.__import__",
)
FORBIDDEN_EXACT = {
    "pickle.load", "pickle.loads", "pickle.Unpickler", "pickle._Unpickler", "pickle._load", "pickle._loads", "_pickle.load", "_pickle.loads",
    "_pickle.Unpickler", "marshal.loads", "marshal.load", "sys.modules", "sys.meta_path", "sys.path", "sys.path_hooks", "sys.setprofile", "sys.settrace",
    "sys.addaudithook",
}
_OS_FORBIDDEN = (
    "system", "popen", "exec", "spawn", "posix_spawn", "fork", "kill", "remove", "unlink", "rename", "replace", "mkdir", "makedirs", "rmdir",
    "removedirs", "chmod", "chown", "link", "symlink", "truncate", "write", "startfile", "putenv", "open", "pipe", "dup", "mkfifo", "chdir",
)
_PATHLIB_FORBIDDEN = ("write_text", "write_bytes", "unlink", "rename", "replace", "mkdir", "rmdir", "touch", "chmod", "symlink_to", "hardlink_to", "open")

# method names on receivers whose class is not a fickling class (str, list, dict, file objects handed in by the caller, ...)
INERT_METHODS = {
    # containers / strings / bytes
    "append", "extend", "insert", "pop", "remove", "clear", "index", "count", "sort", "reverse", "copy", "add", "discard", "update", "get", "items",
    "keys", "values", "setdefault", "popitem", "union", "intersection", "difference", "issubset", "issuperset", "join", "split", "rsplit", "strip",
    "lstrip", "rstrip", "startswith", "endswith", "encode", "decode", "format", "lower", "upper", "replace", "find", "rfind", "partition",
    "rpartition", "splitlines", "isdigit", "isalpha", "isidentifier", "zfill", "ljust", "rjust", "title", "capitalize", "hex", "to_bytes",
    "from_bytes", "bit_length", "is_integer", "group", "groups", "match", "search", "fullmatch", "sub", "findall", "finditer", "span", "start", "end",
    # read-only stream protocol on a caller-supplied object
    "read", "readline", "readinto", "seek", "tell", "seekable", "readable", "close", "getvalue", "getbuffer", "peek", "fileno", "isatty", "flush",
    "__enter__", "__exit__",
    # argparse / misc
    "add_argument", "add_mutually_exclusive_group", "parse_args", "error", "print_help", "with_traceback", "visit", "generic_visit",
    "__new__", "__init__", "__init_subclass__", "__str__", "__repr__", "__len__", "__iter__", "__getitem__", "__contains__", "__eq__", "__hash__",
    "mro", "__subclasses__", "most_common", "elements", "pack", "unpack", "pack_into", "unpack_from", "iter_unpack",
}
FORBIDDEN_METHODS = {
    "system", "popen", "communicate", "connect", "send", "sendall", "sendto", "recv", "urlopen", "urlretrieve", "extract", "extractall",
    "find_class", "load_module", "exec_module", "import_module", "find_spec", "load", "loads", "persistent_load", "unlink", "rmdir", "mkdir", "touch", "rename",
    "chmod", "symlink_to", "write_text", "write_bytes", "truncate", "writelines", "write", "run", "call", "check_call", "check_output", "Popen",
    "start", "spawn", "fork", "kill", "terminate", "rmtree", "copyfile", "copy2", "copytree", "move", "mkdtemp", "mkstemp", "NamedTemporaryFile",
}


# Process-wide settings: they cannot import / resolve / call anything (inert for C01), but they change how LATER
# queries behave (C13: answers are functions of the bytes alone), so C13 judges them separately.
PROCESS_STATE_SETTERS = {
    "sys.setrecursionlimit", "sys.setswitchinterval", "sys.set_int_max_str_digits", "sys.setdlopenflags", "sys.set_asyncgen_hooks",
    "sys.set_coroutine_origin_tracking_depth", "sys.setcheckinterval", "os.chdir", "os.umask", "os.putenv", "os.unsetenv", "os.environ.update",
    "os.environ.setdefault", "os.environ.pop", "os.environ.clear", "os.nice", "os.setpriority", "locale.setlocale", "random.seed", "gc.disable", "gc.enable", "gc.set_threshold", "gc.freeze",
    "warnings.simplefilter", "warnings.filterwarnings", "warnings.resetwarnings", "logging.basicConfig", "logging.disable", "logging.setLoggerClass",
    "resource.setrlimit", "signal.signal", "signal.alarm", "signal.setitimer", "faulthandler.enable", "faulthandler.disable", "tracemalloc.start",
    "decimal.setcontext", "time.tzset", "socket.setdefaulttimeout", "threading.stack_size", "threading.setprofile", "threading.settrace",
    "ast.fix_missing_locations__never",
} - {"ast.fix_missing_locations__never"}
PROCESS_STATE_GETTERS = {"sys.getrecursionlimit", "sys.getswitchinterval", "sys.get_int_max_str_digits", "gc.isenabled", "gc.get_threshold", "locale.getlocale", "resource.getrlimit"}


def is_process_setter(q: str) -> bool:
    return q in PROCESS_STATE_SETTERS


def classify_external(q: str) -> str:
    if q in PROCESS_STATE_SETTERS and not q.startswith(("os.chdir", "os.putenv", "signal.", "socket.", "threading.")):
        return "inert"
    if q in PROCESS_STATE_GETTERS:
        return "inert"
    if q.startswith("builtins."):
        name = q.split(".", 1)[1]
        head = name.split(".")[0]
        if head in FORBIDDEN_BUILTINS:
            return "forbidden"
        if head in PURE_BUILTINS or head == "open":
            return "inert"  # open is judged separately by its mode
        return "unaudited"
    if q in FORBIDDEN_EXACT or any(q.startswith(x + ".") for x in FORBIDDEN_EXACT) or any(q.startswith(p) or q == p.rstrip(".") for p in FORBIDDEN_MODULE_PREFIXES):
        return "forbidden"
    if q.startswith("os.") and not q.startswith("os.path."):
        name = q.split(".")[1]
        if any(name == f or name.startswith(f) for f in _OS_FORBIDDEN):
            return "forbidden"
        return "inert" if q in INERT_EXACT or name in ("fspath", "getcwd", "stat", "fstat", "listdir", "scandir", "walk", "getpid", "sep", "environ", "getenv", "devnull", "name", "path") else "unaudited"
    if q.startswith("pathlib."):
        return "forbidden" if q.split(".")[-1] in _PATHLIB_FORBIDDEN else "inert"
    if q.startswith(("zipfile.", "tarfile.")):
        return "forbidden" if q.split(".")[-1].startswith(("extract", "write", "add")) else "inert"
    if q in INERT_EXACT or any(q.startswith(p) for p in INERT_MODULE_PREFIXES):
        return "inert"
    if q.startswith("sys."):
        return "unaudited"
    if q.startswith(("pickle.", "_pickle.")):
        name = q.split(".")[1]
        return "inert" if name in ("PickleError", "UnpicklingError", "PicklingError", "HIGHEST_PROTOCOL", "DEFAULT_PROTOCOL", "dumps", "dump") else "forbidden"
    if q.startswith("marshal."):
        return "inert" if q == "marshal.dumps" else "forbidden"
    return "unaudited"


def classify_method(name: str) -> str:
    if name in FORBIDDEN_METHODS:
        return "forbidden"
    if name in INERT_METHODS:
        return "inert"
    return "unaudited"


def open_mode(call: ast.Call) -> Tuple[Optional[str], bool]:
    """(literal mode or None, is_literal) of an open(...) call."""
    mode = None
    if len(call.args) >= 2:
        mode = call.args[1]
    for k in call.keywords:
        if k.arg == "mode":
            mode = k.value
    if mode is None:
        return "r", True
    if isinstance(mode, ast.Constant) and isinstance(mode.value, str):
        return mode.value, True
    return None, False
