"""Sequence worlds for the protection environment (C07, C11, C12).

The hook / safe-ML-environment / safety-context code of the repository is *interpreted* (sa/objeval) over abstract operation
sequences - arm the global check, activate the safe ML environment with or without additions, remove the hooks, create / enter /
leave safety contexts (normally or by exception), construct an unpickler with additions - against an abstract `pickle` module
whose four entry points are rebindable attributes holding markers for the original functions.  After every operation each entry
point is *probed* with abstract files (lists of globals, possibly nested through a loader callable): the probe calls whatever
is bound there - the interpreted closure, the checked loader's stand-in, or the original marker - and reports which globals
were resolved.  pickle.Unpickler itself is modelled natively by its documented contract: `load()` resolves every global of
the file, in order, through `self.find_class`; a resolved loader callable that is handed a nested payload is looked up on the
pickle module at that moment, like any attribute.

Nothing of fickling is imported or run by Python; no pickle exists; the alphabet, the probe universe and the length bound are
finite and stated in the evidence.
"""

from __future__ import annotations

import ast
import itertools
from typing import Any, Dict, FrozenSet, List, Optional, Tuple

from .minieval import PyRaise, Record, Unsupported
from .model import Repo
from .objeval import Instance, Native, ObjEval
from .report import AnalysisError

ENTRIES = [("pickle", "load"), ("pickle", "loads"), ("_pickle", "load"), ("_pickle", "loads")]


class Original:
    """One of the pickle module's own entry points: resolves everything it is given."""

    sa_callable = True

    def __init__(self, kind: str):
        self.kind = kind  # "load" | "loads"

    def __call__(self, file=None, *a, **k):
        return ("unprotected", file)

    def __repr__(self):
        return f"<original pickle.{self.kind}>"


class _Identity:
    sa_callable = True

    def __call__(self, x=None, *a, **k):
        return x


class Env:
    def __init__(self, repo: Repo):
        self.repo = repo
        self.oe = oe = ObjEval(repo)
        oe.eval_module_calls = True
        self.orig = {"load": Original("load"), "loads": Original("loads")}
        for mod, attr in ENTRIES:
            oe.module_state[(mod, attr)] = self.orig[attr]  # _pickle.load IS pickle.load in CPython
        oe.externals["io.BytesIO"] = _Identity()  # the abstract payload is its own stream
        self.resolved_log: List[Tuple[str, str]] = []
        self.checked_calls: List[tuple] = []
        oe.func_overrides["fickling.loader.load"] = self._checked_loader
        oe.external_base_methods["__init__"] = lambda recv: Native(lambda *a, **k: recv.fields.__setitem__("__file__", a[0] if a else k.get("file")), "Unpickler.__init__")
        oe.external_base_methods["load"] = lambda recv: Native(lambda *a, **k: self._unpickler_load(recv), "Unpickler.load")
        oe.external_base_methods["find_class"] = lambda recv: Native(lambda module, name: self._resolve(module, name), "Unpickler.find_class")
        # import time: module-level bindings of the hook modules are made now (they snapshot the pickle module's attributes)
        for mn in ("fickling.ml", "fickling.loader", "fickling.hook", "fickling.context"):
            m = repo.modules.get(mn)
            if m is None:
                raise AnalysisError(f"module {mn} not found")
            for name, vals in m.assigns.items():
                if len(vals) == 1 and isinstance(vals[0], (ast.Attribute, ast.Name, ast.Call)) and name != "ML_ALLOWLIST":
                    try:
                        oe.module_global(m, name)
                    except (Unsupported, PyRaise):
                        pass  # not needed unless an operation reads it; it then fails there
        self.hook = repo.modules["fickling.hook"]
        self.ctx_mod = repo.modules["fickling.context"]
        self._reduce_table()

    def _reduce_table(self):
        """The built-in table is data: the interpretation keeps the entries the probes and additions talk about, every group of
        keys bound to one inner dict object, every module named by a string constant in the hook / ml code, and a few more -
        same code paths, a third of the work per constructed unpickler."""
        ml = self.repo.modules["fickling.ml"]
        try:
            table = self.oe.module_global(ml, "ML_ALLOWLIST")
        except (Unsupported, PyRaise):
            return
        if not isinstance(table, dict) or len(table) <= 12:
            return
        keep = {m for m, _ in builtin_sample(self.repo)}
        ids: Dict[int, List[str]] = {}
        for k, v in table.items():
            ids.setdefault(id(v), []).append(k)
        for ks in ids.values():
            if len(ks) > 1:
                keep.update(ks)
        consts = set()
        for mn in ("fickling.ml", "fickling.hook", "fickling.context"):
            m = self.repo.modules[mn]
            for f in [x for x in self.repo.functions.values() if x.module is m]:
                for n in ast.walk(f.node):
                    if isinstance(n, ast.Constant) and isinstance(n.value, str):
                        consts.add(n.value)
        keep.update(k for k in table if k in consts)
        for k in list(table):
            if len(keep) >= 10:
                break
            keep.add(k)
        for k in [k for k in table if k not in keep]:
            del table[k]

    # ---- natives -------------------------------------------------------------------------------------------------
    def _checked_loader(self, file=None, *a, **k):
        """fickling.loader.load (decided by C02): analyse, refuse a flagged pickle, otherwise unpickle the analysed bytes through
        `pickle.loads` looked up at that moment."""
        self.checked_calls.append((file, tuple(sorted(k))))
        if isinstance(file, Record) and file.fields.get("flagged"):
            raise PyRaise("UnsafeFileError")
        inner = self.oe.module_state[("pickle", "loads")]
        return ("checked", inner(file))

    def _resolve(self, module, name):
        self.resolved_log.append((module, name))
        if (module, name) in (("pickle", "load"), ("pickle", "loads"), ("_pickle", "load"), ("_pickle", "loads")):
            return ("entry", module, name)  # getattr(pickle, 'loads') at this moment
        return ("global", module, name)

    def _unpickler_load(self, recv: Instance):
        f = recv.fields.get("__file__")
        if not isinstance(f, Record) or "items" not in f.fields:
            raise Unsupported("Unpickler.load() on something that is not an abstract pickle file")
        out = []
        stack_top = None
        for item in f.fields["items"]:
            if item[0] == "global":
                stack_top = recv.sa_attr("find_class")(item[1], item[2])
                out.append((item[1], item[2]))
            elif item[0] == "call-with":  # REDUCE of the callable just resolved, on a nested payload
                if not (isinstance(stack_top, tuple) and stack_top[0] == "entry"):
                    raise Unsupported("nested payload handed to something that is not a pickle entry point")
                callee = self.oe.module_state[(stack_top[1], stack_top[2])]
                out.append(("nested", callee(item[1])))
        return ("loaded", out)

    # ---- operations ----------------------------------------------------------------------------------------------
    def call_hook(self, fname: str, *args, **kw):
        fn = self.oe.module_global(self.hook, fname)
        self.oe.steps = 0  # the step budget bounds one operation, not the world's whole history
        return fn(*args, **kw)

    def new_context(self):
        return self.oe.module_global(self.ctx_mod, "check_safety")()

    def new_unpickler(self, additions):
        c = self.repo.cls("fickling.ml.FicklingMLUnpickler")
        self.oe.steps = 0
        return self.oe.ref(c)(file_of([]), also_allow=list(additions) if additions is not None else None)

    def binding(self, mod: str, attr: str):
        return self.oe.module_state[(mod, attr)]

    # ---- probes --------------------------------------------------------------------------------------------------
    def probe(self, callee, items, flagged=False):
        """('unprotected',) | ('refused', exc) | ('resolved', [...]) | ('checked', inner-result) for calling `callee(<file>)`."""
        f = file_of(items, flagged)
        self.resolved_log.clear()
        self.oe.steps = 0
        try:
            r = callee(f)
        except PyRaise as pe:
            return ("refused", pe.name, list(self.resolved_log))
        return normalise(r)


def file_of(items, flagged=False) -> Record:
    return Record("file", {"items": list(items), "flagged": flagged})


def normalise(r):
    if isinstance(r, tuple) and r and r[0] == "unprotected":
        return ("unprotected",)
    if isinstance(r, tuple) and r and r[0] == "checked":
        return ("checked", normalise(r[1]))
    if isinstance(r, tuple) and r and r[0] == "loaded":
        return ("resolved", [x if x[0] != "nested" else ("nested", normalise(x[1])) for x in r[1]])
    return ("other", repr(r)[:60])


# ------------------------------------------------------------------------------------------------------------------------
# exploration
# ------------------------------------------------------------------------------------------------------------------------
S1 = ("datetime.date", "time.time", "xml.dom.minidom.Document")  # new modules, different member names; one module name has dots of its own
S_NESTED = ("pickle.loads", "_pickle.loads", "pickle.load", "_pickle.load")


_SAMPLE_CACHE: Dict[int, List[Tuple[str, str]]] = {}


def builtin_sample(repo: Repo) -> List[Tuple[str, str]]:
    """Two (module, member) pairs of the built-in table from two different modules with different member names - preferring two
    modules that are bound to ONE inner dict object in the table (a shared constant), where a write through one shows in the
    other."""
    if id(repo) in _SAMPLE_CACHE:
        return _SAMPLE_CACHE[id(repo)]
    ml = repo.modules["fickling.ml"]
    oe = ObjEval(repo)
    oe.eval_module_calls = True
    try:
        table = oe.module_global(ml, "ML_ALLOWLIST")
    except (Unsupported, PyRaise) as e:
        raise AnalysisError(f"fickling.ml.ML_ALLOWLIST cannot be evaluated: {e}")
    if not isinstance(table, dict) or not all(isinstance(v, dict) for v in table.values()):
        raise AnalysisError("fickling.ml.ML_ALLOWLIST is not a dict of dicts")
    keys = [k for k, v in table.items() if v]
    out: List[Tuple[str, str]] = []
    for i, a in enumerate(keys):
        for b in keys[i + 1:]:
            if table[a] is table[b]:
                names = list(table[a])
                out = [(a, names[0]), (b, names[-1] if len(names) > 1 else names[0])]
                break
        if out:
            break
    if not out:
        for k in keys:
            n = next(iter(table[k]))
            if not out or (out[0][0] != k and out[0][1] != n):
                out.append((k, n))
            if len(out) == 2:
                break
    if len(out) < 2:
        raise AnalysisError("ML_ALLOWLIST: could not pick two sample entries")
    _SAMPLE_CACHE[id(repo)] = out
    return out


def additions_sets(repo: Repo):
    b = builtin_sample(repo)
    # new members of already allow-listed modules - one of them a module whose own name contains dots
    s2 = (f"{b[0][0]}.BrandNewMember",) + ((f"{b[1][0]}.AnotherNewMember",) if "." in b[1][0] else ())
    return {"none": None, "new-modules": S1, "new-member": s2}


def probe_universe(repo: Repo):
    b = builtin_sample(repo)
    return [
        ("builtin", b[0]), ("builtin-2", b[1]),
        ("added:datetime.date", ("datetime", "date")), ("added:time.time", ("time", "time")),
        ("cross:datetime.time", ("datetime", "time")), ("cross:time.date", ("time", "date")),
        ("added-member", (b[0][0], "BrandNewMember")), ("cross-member", (b[1][0], "BrandNewMember")),
        ("never-allowed", ("os", "system")),
        # names with dots: an addition names (module, member) by its LAST dot; a dotted member (STACK_GLOBAL carries them) is a
        # different global than the one added, and an attribute path below an allow-listed name is not that name
        ("added:xml.dom.minidom.Document", ("xml.dom.minidom", "Document")),
        ("split-elsewhere:xml.dom", ("xml.dom", "minidom.Document")), ("split-elsewhere:xml", ("xml", "dom.minidom.Document")),
        ("below-builtin", (b[0][0], b[0][1] + ".__class__")),
    ] + ([("added-member-of-dotted-module", (b[1][0], "AnotherNewMember")), ("cross-member-2", (b[0][0], "AnotherNewMember"))] if "." in b[1][0] else [])


def expected_allowed(repo: Repo, additions) -> set:
    b = builtin_sample(repo)
    allowed = {"builtin", "builtin-2"}
    for a in additions or ():
        m, n = a.rsplit(".", 1)
        for label, (pm, pn) in probe_universe(repo):
            if (pm, pn) == (m, n):
                allowed.add(label)
    return allowed


def fingerprint(env: Env, repo: Repo, callee) -> tuple:
    """What the callable bound to an entry point does with each probe of the universe (and with a flagged file)."""
    if isinstance(callee, Original):
        return ("original",)
    out = []
    for label, (m, n) in probe_universe(repo):
        r = env.probe(callee, [("global", m, n)])
        out.append((label, _verdict(r)))
    fl = env.probe(callee, [("global", "builtins", "eval")], flagged=True)
    out.append(("flagged-file", _verdict(fl)))
    return tuple(out)


def _verdict(r) -> str:
    if r[0] == "unprotected":
        return "unprotected"
    if r[0] == "refused":
        return "refused"
    if r[0] == "resolved":
        return "resolved"
    if r[0] == "checked":
        return "checked>" + _verdict(r[1])
    return "other"


def observe(env: Env, repo: Repo) -> Dict[str, tuple]:
    seen: Dict[int, tuple] = {}  # one object bound to several entry points is probed once (same object, same moment)
    out = {}
    for m, a in ENTRIES:
        c = env.binding(m, a)
        if id(c) not in seen:
            seen[id(c)] = fingerprint(env, repo, c)
        out[f"{m}.{a}"] = seen[id(c)]
    return out


def allowed_of(fp: tuple) -> Optional[set]:
    """Labels the entry resolves (directly or behind the checked loader); None for an original (everything)."""
    if fp == ("original",):
        return None
    return {label for label, v in fp if label != "flagged-file" and v.endswith("resolved")}


OPS_QUICK = ["G", "A:none", "A:new-modules", "A:new-member", "R", "En", "X", "Xe", "C", "Ek", "U:new-modules"]


def sequences(max_len: int, ops=OPS_QUICK):
    """Well-formed operation sequences: leave only what is entered, enter at most 3 deep, Ek only with a created context."""
    def rec(prefix, depth, created):
        if prefix:
            yield tuple(prefix)
        if len(prefix) == max_len:
            return
        for op in ops:
            if op in ("X", "Xe") and depth == 0:
                continue
            if op == "En" and depth >= 3:
                continue
            if op == "Ek" and (created == 0 or depth >= 3):
                continue
            yield from rec(prefix + [op], depth + (1 if op in ("En", "Ek") else -1 if op in ("X", "Xe") else 0), created + (1 if op == "C" else -1 if op == "Ek" else 0))

    yield from rec([], 0, 0)


def scenarios(tier: str):
    """Longer sequences of the shapes that matter for snapshots taken at the wrong moment or kept too long: a context object
    created, the protection changed, then entered; the protection changed inside a context; a context object used twice."""
    pre = [(), ("G",), ("A:none",), ("A:new-modules",)] if tier == "thorough" else [(), ("G",), ("A:new-modules",)]
    mid = [(), ("G",), ("A:new-member",), ("R",), ("A:none",)] if tier == "thorough" else [(), ("G",), ("A:new-member",), ("R",)]
    exits = ("X", "Xe") if tier == "thorough" else ("X",)
    tails = ((), ("R",))
    for p1 in pre:
        for p2 in mid:
            for inside in mid:
                for x in exits:
                    for tail in tails:
                        yield p1 + ("C",) + p2 + ("Ek",) + inside + (x,) + tail
                        yield p1 + ("En", x) + p2 + ("Er",) + inside + (x,) + tail
    for p1 in pre:
        for a in mid:
            yield p1 + ("En",) + a + ("En", "X", "X", "R")  # two different context objects nested
    if tier == "thorough":
        for p1 in pre:
            for a in mid:
                for b in mid:
                    yield p1 + ("En",) + a + ("En",) + b + ("X", "Xe", "R")
                    yield p1 + ("En", "En", "En") + a + ("X", "X", "X") + b + ("R",)


def run_sequence(repo: Repo, seq, adds, check_all: bool = False) -> List[Tuple[str, str]]:
    """Interpret one sequence; returns deviations [(key, message)] for the LAST operation (every prefix is a sequence of its own)
    or, with check_all, for every operation."""
    env = Env(repo)
    pristine = None
    open_ctx: List[Tuple[Any, Dict[str, tuple]]] = []  # (context object, observation just before it was entered)
    created: List[Any] = []
    devs: List[Tuple[str, str]] = []
    ml = repo.modules["fickling.ml"]

    def table_snapshot():
        t = env.oe.module_global(ml, "ML_ALLOWLIST")
        return {k: dict(v) for k, v in t.items()}

    pristine = table_snapshot()
    last = len(seq) - 1
    before = None
    exited: List[Any] = []
    after_prev = None
    for i, op in enumerate(seq):
        need_before = i == last or check_all or op in ("En", "Ek", "Er")
        if need_before:
            before = after_prev if (check_all and after_prev is not None) else observe(env, repo)
        try:
            if op == "G":
                env.call_hook("run_hook")
            elif op.startswith("A:"):
                env.call_hook("activate_safe_ml_environment", also_allow=list(adds[op[2:]]) if adds[op[2:]] is not None else None)
            elif op == "R":
                env.call_hook("remove_hook")
            elif op == "C":
                created.append(env.new_context())
            elif op in ("En", "Ek", "Er"):
                if op == "Er" and not exited:
                    return devs  # nothing to re-enter: not a well-formed scenario
                c = env.new_context() if op == "En" else created.pop(0) if op == "Ek" else exited.pop()
                c.sa_attr("__enter__")()
                open_ctx.append((c, before))
            elif op in ("X", "Xe"):
                c, at_entry = open_ctx.pop()
                exited.append(c)
                if op == "X":
                    c.sa_attr("__exit__")(None, None, None)
                else:
                    rv = c.sa_attr("__exit__")(Record("type", {"name": "RuntimeError"}), Record("exception", {"name": "RuntimeError"}), Record("traceback", {}))
                    if rv is not None and rv is not False and not (isinstance(rv, (int, str, bytes, list, tuple, dict)) and not rv):
                        devs.append(("exit-swallows-exception", f"after `{' ; '.join(seq[: i + 1])}` __exit__ returns {rv!r} for an exception raised inside the context: a truthy value suppresses it (an UnsafeFileError raised by a refused load would vanish)"))
            elif op.startswith("U:"):
                u = env.new_unpickler(adds[op[2:]])
        except PyRaise as pe:
            if i == last:
                devs.append((f"operation-raises:{op}:{pe.name}", f"{op} raises {pe.name}"))
            return devs
        if i != last and not check_all:
            continue
        after = observe(env, repo)
        after_prev = after
        seqs = " ; ".join(seq[: i + 1])
        # ---- the built-in table is never altered
        if table_snapshot() != pristine:
            devs.append(("builtin-table-altered", f"after `{seqs}` the built-in allowlist ML_ALLOWLIST itself has changed"))
        if op.startswith("A:"):
            want = expected_allowed(repo, adds[op[2:]])
            for ent, fp in after.items():
                got = allowed_of(fp)
                if got is None:
                    devs.append((f"not-mediated:{ent}", f"after `{seqs}` {ent} is still the original function: loads through it are not mediated by the safe ML environment"))
                elif got != want:
                    extra, missing = sorted(got - want), sorted(want - got)
                    what = "; ".join(x for x in (f"also permits {extra}" if extra else "", f"refuses {missing}" if missing else "") if x)
                    devs.append((f"allowed-set:{'+'.join(extra) or '-'}:{'+'.join(missing) or '-'}", f"after `{seqs}` the globals {ent} permits are not exactly the built-in allowlist plus the additions of this activation ({list(adds[op[2:]] or [])}): it {what}"))
        if op in ("G", "En", "Ek", "Er"):
            fp = after["pickle.load"]
            fl = dict(fp).get("flagged-file") if fp != ("original",) else "unprotected"
            if fl != "refused":
                devs.append(("flagged-pickle-loads", f"after `{seqs}` pickle.load on a flagged pickle is `{fl}`, not refused"))
            # an enclosing protection is not dropped: what pickle.loads refused before is still refused through pickle.load
            prev = allowed_of(before["pickle.load"])
            now = allowed_of(fp)
            if prev is not None and (now is None or not now <= prev):
                devs.append(("enclosing-protection-dropped", f"after `{seqs}` pickle.load permits {sorted((now or {'<everything>'}) - prev) if now is not None else 'everything'}, which the protection in force before the operation refused"))
        if op in ("X", "Xe"):
            if after != at_entry:
                diff = [ent for ent in after if after[ent] != at_entry[ent]]
                devs.append((f"exit-does-not-restore:{'+'.join(sorted(diff))}", f"after `{seqs}` the protection of {diff} differs from what was in force when the context was entered (e.g. {diff[0]}: then {_short(at_entry[diff[0]])}, now {_short(after[diff[0]])})"))
        if op == "R" and not open_ctx:
            for (m, a) in ENTRIES:
                if env.binding(m, a) is not env.orig[a]:
                    devs.append((f"not-original-after-removal:{m}.{a}", f"after `{seqs}` (no context open) {m}.{a} is {env.binding(m, a)!r}, not the original function"))
        if op in ("C",) or op.startswith("U:"):
            if after != before:
                diff = [ent for ent in after if after[ent] != before[ent]]
                devs.append((f"bystander-changes-protection:{op.split(':')[0]}", f"`{op}` (creating a context object / constructing an unpickler) changes what {diff} permit: after `{seqs}` {_short(after[diff[0]])}, before {_short(before[diff[0]])}"))
        if op.startswith("U:"):
            want = expected_allowed(repo, adds[op[2:]])
            labels = set()
            for label, (m, n) in probe_universe(repo):
                try:
                    u.sa_attr("find_class")(m, n)
                    labels.add(label)
                except PyRaise:
                    pass
            if labels != want:
                devs.append((f"unpickler-allowed-set:{'+'.join(sorted(labels - want)) or '-'}:{'+'.join(sorted(want - labels)) or '-'}", f"after `{seqs}` an unpickler constructed with additions {list(adds[op[2:]] or [])} permits {sorted(labels)}; expected exactly {sorted(want)}"))
    return devs


def _short(fp) -> str:
    if fp == ("original",):
        return "original function"
    return "{" + ", ".join(f"{k}:{v}" for k, v in fp if v != "refused") + "}"


_XREPO = None


def _xchunk(seqs):
    repo = _XREPO
    adds = additions_sets(repo)
    out = []
    for s in seqs:
        try:
            if s and s[0] == "*":
                out.append(("ok", run_sequence(repo, s[1:], adds, check_all=True)))
            else:
                out.append(("ok", run_sequence(repo, s, adds)))
        except Unsupported as e:
            out.append(("unsupported", str(e)))
        except AnalysisError as e:
            out.append(("unsupported", str(e)))
    return out


def explore(repo: Repo, max_len: int, tier: str = "quick"):
    """All well-formed sequences up to max_len (oracles on the last operation; every prefix is enumerated too) plus the longer
    scenario sequences (oracles on every operation); returns ({key: (count, shortest witness)}, number of sequences)."""
    import multiprocessing as mp
    import os
    from concurrent.futures import ProcessPoolExecutor

    global _XREPO
    _XREPO = repo
    seqs = list(sequences(max_len)) + [("*",) + sc for sc in dict.fromkeys(scenarios(tier))]
    jobs = min(int(os.environ.get("SA_JOBS", "16")), os.cpu_count() or 1)
    chunks = [seqs[i::jobs] for i in range(jobs)]
    try:
        with ProcessPoolExecutor(max_workers=jobs, mp_context=mp.get_context("fork")) as ex:
            parts = list(ex.map(_xchunk, chunks))
    except (OSError, RuntimeError):
        parts = [_xchunk(c) for c in chunks]
    found: Dict[str, Tuple[int, str]] = {}
    for chunk, outs in zip(chunks, parts):
        for s, o in zip(chunk, outs):
            if o[0] == "unsupported":
                raise AnalysisError(f"protection environment: cannot interpret the sequence `{' ; '.join(x for x in s if x != '*')}`: {o[1]}")
            for key, msg in o[1]:
                c, m = found.get(key, (0, msg))
                found[key] = (c + 1, m if len(m) <= len(msg) else msg)  # keep the shortest witness
    return found, len(seqs)


def nested_worlds(repo: Repo) -> Tuple[Dict[str, Tuple[int, str]], int]:
    """C07's quantifier on the abstract side: with the safe ML environment active and the pickle entry points themselves
    allow-listed (explicit additions), payloads nested 0..3 levels deep through each of the four entry points, the innermost
    global being allowed or not."""
    found: Dict[str, Tuple[int, str]] = {}
    n = 0
    b = builtin_sample(repo)
    for adds in (S_NESTED, S_NESTED + S1):
        env = Env(repo)
        env.call_hook("activate_safe_ml_environment", also_allow=list(adds))
        for (em, ea) in ENTRIES:
            for (lm, la) in ENTRIES:
                for depth in range(0, 4):
                    for label, (gm, gn), ok in (("allowed", b[0], True), ("not-allowed", ("os", "system"), False), ("not-added", ("datetime", "time"), False)):
                        items = [("global", gm, gn)]
                        for _ in range(depth):
                            items = [("global", lm, la), ("call-with", file_of(items))]
                        n += 1
                        try:
                            r = env.probe(env.binding(em, ea), items)
                        except Unsupported as e:
                            raise AnalysisError(f"nested load: cannot interpret {em}.{ea} on a payload nested {depth} deep through {lm}.{la}: {e}")
                        resolved_bad = (gm, gn) in env.resolved_log
                        if ok and r[0] != "resolved":
                            key, msg = f"nested-allowed-refused:depth{depth}", f"with additions {list(adds)}, {em}.{ea} on an allow-listed global nested {depth} deep through {lm}.{la} is {r[0]}"
                        elif not ok and (r[0] != "refused" or resolved_bad):
                            key, msg = f"nested-unmediated:{label}:depth{depth}", f"with additions {list(adds)}, the global {gm}.{gn} nested {depth} level(s) deep through {lm}.{la} inside a load via {em}.{ea} is {'resolved' if resolved_bad or r[0] != 'refused' else r[0]}: a nested unpickling escapes the allowlist"
                        else:
                            continue
                        c, m0 = found.get(key, (0, msg))
                        found[key] = (c + 1, m0)
    return found, n


C11_KEYS = ("allowed-set:", "unpickler-allowed-set:", "builtin-table-altered", "bystander-changes-protection", "not-mediated:")
C12_KEYS = ("exit-swallows-exception", "exit-does-not-restore", "not-original-after-removal", "flagged-pickle-loads", "enclosing-protection-dropped", "operation-raises", "bystander-changes-protection:C")
C07_KEYS = ("allowed-set:", "not-mediated:", "nested-")


def report_sequence_worlds(repo: Repo, rep, rule: str, tier: str, keys, nested: bool = False):
    """Run the exploration and report the deviations whose key starts with one of `keys` under `rule`."""
    from .cache import cached, digest

    max_len = 4 if tier == "thorough" else 3
    mods = ("fickling.hook", "fickling.context", "fickling.ml", "fickling.loader")

    def compute():
        try:
            f, n_ = explore(repo, max_len, tier)
            nf, nn = nested_worlds(repo)
            return {"found": {k: list(v) for k, v in f.items()}, "n": n_, "nested": {k: list(v) for k, v in nf.items()}, "n_nested": nn}
        except AnalysisError as e:
            return {"error": str(e)}

    res = cached("envworlds-" + digest(repo, mods, f"{max_len}|{tier}"), compute)
    if "error" in res:
        raise AnalysisError(res["error"])
    found = {k: tuple(v) for k, v in res["found"].items()}
    n = res["n"]
    n_nested = 0
    if nested:
        found.update({k: tuple(v) for k, v in res["nested"].items()})
        n_nested = res["n_nested"]
    hook = repo.modules["fickling.hook"]
    shown = 0
    for key, (c, msg) in sorted(found.items()):
        if any(key.startswith(k) for k in keys):
            shown += 1
            rep.bad(rule, "fickling.hook / fickling.context / fickling.ml", key, f"{msg} [{c} sequence(s)]", hook.relpath, 1)
    rep.ok(rule, "fickling.hook / fickling.context / fickling.ml", f"{n} operation sequences (every well-formed sequence of up to {max_len} operations over arm / activate with three kinds of additions / remove / create, enter, re-enter and leave contexts normally or by exception / construct an unpickler, plus longer scenarios with a context created before, entered after and re-used across changes of the protection) interpreted against an abstract pickle module; after each, the four entry points probed with {len(probe_universe(repo)) + 1} abstract files" + (f"; {n_nested} nested-payload probes (depth 0-3 through each entry point)" if nested else ""), "", nontrivial=True)
