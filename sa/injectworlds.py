"""Injection worlds (C08, also C14/C18's 'the k-th with the injection applied'): the injection helpers of `Pickled` are
*interpreted* (sa/objeval) on real base pickles - CPython's pickler output for sample values at protocols 0-5 (framed and
unframed, shared references, instances, a base with more than 255 memo entries) and assembled programs with sparse memo keys -
for every helper and flag combination and three argument shapes, the rewritten opcode list is serialised by the interpreted
`dumps()`, and the bytes are then read by the *reader's side*: pickletools (one STOP, at the end; stack depth at STOP) and
CPython's own unpickler with `find_class` returning inert stand-ins that log every call (the accelerated one, and the
pure-Python one for unframed bases).  Nothing of fickling is run by Python; nothing a pickle names is ever imported.
"""

from __future__ import annotations

import io
import pickle
import pickletools
from typing import Any, Dict, List, Tuple

from .minieval import PyRaise, Unsupported
from .model import Repo
from .report import AnalysisError
from . import vmworlds as V

INJ = ("injected_module", "injected_callable")
ARGSETS = {"no-arguments": (), "one-text": ("id",), "mixed": ("a", 1, True, [1, "x", False], {"k": 2}), "constants": ("a", 1, True, b"b")}


def _bases(tier: str):
    import collections
    import fractions

    shared = [1, 2]
    values = [
        ("int", 5), ("text", "héllo"), ("list", [1, 2, 3]), ("dict", {"a": (1, 2.5), "b": None}), ("shared", [shared, shared]),
        ("instance", fractions.Fraction(1, 3)), ("reduce+build", collections.OrderedDict(a=1)), ("nested", {"k": [{"x": (1, [2])}]}),
    ]
    out = []
    protos = range(0, 6) if tier == "thorough" else (0, 2, 4)
    for label, v in values:
        for p in protos:
            out.append((f"pickle.dumps({label}, protocol={p})", pickle.dumps(v, p)))
    many = [(i, str(i)) for i in range(300)]
    for p in ((0, 2, 4, 5) if tier == "thorough" else (2, 4)):
        out.append((f"pickle.dumps(300 memo entries, protocol={p})", pickle.dumps(many, p)))
    hand = [
        ("sparse memo keys 5 and 9", b"\x80\x02]q\x05K\x01aq\x09."), ("memo key 1 and 2 in use", b"\x80\x02]q\x01]q\x02\x86."),
        ("text PUT 321987 in use", b"]p321987\n."), ("MEMOIZE after sparse BINPUT", b"\x80\x04]q\x03\x94K\x01a."),
        ("MEMOIZE overwriting the slot a text PUT used", b"]p1\nK\x05\x94a."), ("a lone BINPUT 2 (sparse memo)", b"\x80\x02]q\x02K\x01a."),
        ("two PROTO opcodes (2 then 4)", b"\x80\x02\x80\x04]\x94K\x01a."),
        ("GLOBAL result", b"ccollections\nOrderedDict\n."),
        ("torch-like state dict (BINPERSID storage)", [d for l, d in __import__("sa.props.c06", fromlist=["_corpus"])._corpus("quick") if l.startswith("torch-like")][0]),
    ]
    out += hand
    # an object too large for a frame is written between frames, and what follows it outside any frame too (Lib/pickle.py's
    # _Framer): the opcodes after it belong to no frame, whichever FRAME precedes them
    for p in ((4, 5) if tier == "thorough" else (4,)):
        out.append((f"pickle.dumps(two 70000-byte members, the tail outside any frame, protocol={p})", pickle.dumps({"a": [b"z" * 70000], "b": "q" * 70000}, p)))
    if tier == "thorough":
        out.append(("400 long entries at protocol 4 (two FRAME opcodes)", pickle.dumps({f"layer{i}.weight": (f"{i:04d}" + "v" * 180, i) for i in range(400)}, 4)))
        out += [("asm:" + l, d) for l, d in list(V._valid_programs(V.MEMO_ALPHABET, 4))[::6]]
    return out


def _helpers(tier: str = "thorough"):
    """(label, method, kwargs, kind, argset name or None).  kind: what the property promises for the mode."""
    hs = []
    for rf in (True, False):
        for rep_ in (False, True):
            for an in (("no-arguments", "one-text", "mixed") if tier == "thorough" else ("mixed",) if (rf, rep_) != (True, False) else ("no-arguments", "mixed")):
                hs.append((f"insert_python(run_first={rf}, use_output_as_unpickle_result={rep_}, {an})", "insert_python", dict(module=INJ[0], attr=INJ[1], run_first=rf, use_output_as_unpickle_result=rep_), "replace" if rep_ else "keep", an))
            hs.append((f"insert_python_exec(run_first={rf}, use_output_as_unpickle_result={rep_})", "insert_python_exec", dict(run_first=rf, use_output_as_unpickle_result=rep_), "replace-exec" if rep_ else "keep-exec", "one-text"))
    for pop in (True, False):
        for an in (("no-arguments", "one-text", "constants") if tier == "thorough" else ("constants",)):  # append_python takes constants only
            hs.append((f"append_python(pop_result={pop}, {an})", "append_python", dict(module=INJ[0], attr=INJ[1], pop_result=pop), "keep" if pop else "append-keep-value", an))
    for cc in (False, True):
        for ca in (None, [1, "x"]):
            hs.append((f"insert_function_call_on_unpickled_object(compile_code={cc}, constant_args={ca})", "insert_function_call_on_unpickled_object", dict(constant_args=ca, compile_code=cc), "function-on-object", None))
    hs.append(("insert_magic_int(123456)", "insert_magic_int", dict(), "marker", None))
    return hs


FUNC_DEF = "def tamper(obj, *more):\n    return (obj, more)\n"


def _strict_eq(a, b) -> bool:
    if type(a) is not type(b):
        return False
    if isinstance(a, (list, tuple)):
        return len(a) == len(b) and all(_strict_eq(x, y) for x, y in zip(a, b))
    if isinstance(a, dict):
        return list(a) == list(b) and all(_strict_eq(a[k], b[k]) for k in a)
    return a == b


def _load(data: bytes, pure: bool):
    """(result, call log) of CPython's unpickler on stand-ins; raises what the unpickler raises."""
    V.CALL_LOG.clear()
    cls = V._StandInUnpicklerPy if pure else V._StandInUnpickler
    r = cls(io.BytesIO(data)).load()
    return r, list(V.CALL_LOG)


def inject_world(repo: Repo, oe, blabel: str, base: bytes, helper) -> List[Tuple[str, str]]:
    hlabel, method, kwargs, kind, an = helper
    pk = repo.cls("fickling.fickle.Pickled")
    devs: List[Tuple[str, str]] = []
    where = f"{hlabel} on {blabel}"
    try:
        base_result, base_log = _load(base, False)
        base_depth = V.reference_trace(base)[0][-1][1]
    except Exception:
        return []  # the base itself is not loadable with stand-ins: not a base pickle of the property
    if base_depth != 0:
        return []  # a base that leaves values below its result (no pickler writes one): the helpers assume a clean stack
    try:
        P = oe.ref(pk).sa_attr("load")(base)
    except PyRaise:
        return []  # fickling does not accept this base (an opcode it does not implement)
    args = list(ARGSETS[an]) if an else []
    try:
        if method == "insert_function_call_on_unpickled_object":
            P.sa_attr(method)(FUNC_DEF, **kwargs)
        elif method == "insert_magic_int":
            P.sa_attr(method)(123456)
        else:
            P.sa_attr(method)(*args, **kwargs)
        out = P.sa_attr("dumps")()
    except PyRaise as pe:
        return [(f"helper-raises:{method}:{pe.name}", f"{where}: the helper (or dumps() after it) raises {pe.name}")]
    if not isinstance(out, bytes):
        return [("dumps-not-bytes", f"{where}: dumps() returned {type(out).__name__}")]
    # ---- the reader's side
    try:
        ops = [(i.name, a) for i, a, _ in pickletools.genops(io.BytesIO(out))]
    except Exception as ex:
        return [(f"unreadable:{method}", f"{where}: pickletools cannot read the rewritten bytes: {type(ex).__name__}: {str(ex)[:60]}")]
    if [n for n, _ in ops].count("STOP") != 1 or ops[-1][0] != "STOP":
        devs.append((f"stop-discipline:{method}", f"{where}: the rewritten pickle has {[n for n, _ in ops].count('STOP')} STOP opcode(s), the last opcode is {ops[-1][0]}"))
    framed = any(n == "FRAME" for n, _ in ops)
    try:
        ref, _c, _g = V.reference_trace(out)
        depth_at_stop = ref[-1][1]
    except Exception as ex:
        devs.append((f"stack-underflow:{method}", f"{where}: the rewritten opcode sequence does not respect the stack discipline ({type(ex).__name__})"))
        depth_at_stop = None
    if depth_at_stop not in (None, 0):
        mode = "append-keep-value" if kind == "append-keep-value" else "other"
        devs.append((f"unbalanced:{method}:{'pop_result=False' if mode == 'append-keep-value' else kind}", f"{where}: {depth_at_stop} value(s) are left on the VM stack below the result at STOP"))
    for pure in ((False,) if framed else (False, True)):
        which = "pure-Python unpickler" if pure else "accelerated unpickler"
        try:
            result, log = _load(out, pure)
        except Exception as ex:
            devs.append((f"load-fails:{method}:{type(ex).__name__}", f"{where}: the {which} fails on the rewritten pickle: {type(ex).__name__}: {str(ex)[:70]}"))
            continue
        inj_keys = {INJ, ("builtins", "exec"), ("builtins", "eval"), ("marshal", "loads"), ("builtins", "eval(...)")}
        inj = [e for e in log if e[0] in inj_keys]
        rest = [e for e in log if e[0] not in inj_keys]
        if len(rest) != len(base_log) or any(a[0] != b[0] or not _strict_eq(a[1], b[1]) for a, b in zip(rest, base_log)):
            devs.append((f"base-effects-changed:{method}", f"{where} ({which}): the calls the original pickle makes are {[e[0] for e in base_log][:6]}, after the injection {[e[0] for e in rest][:6]} (or with other arguments)"))
        if kind in ("keep", "replace", "append-keep-value"):
            calls = [e for e in inj if e[0] == INJ]
            if len(calls) != 1:
                devs.append((f"call-count:{method}:{len(calls)}", f"{where} ({which}): the injected callable runs {len(calls)} time(s)"))
            elif not (_strict_eq(list(calls[0][1]), args) and not calls[0][2]):
                devs.append((f"arguments-changed:{method}:{an}", f"{where} ({which}): the injected callable receives {calls[0][1]!r}, asked for {tuple(args)!r}"))
        if kind in ("keep-exec", "replace-exec"):
            calls = [e for e in inj if e[0] == ("builtins", "exec")]
            if len(calls) != 1 or not _strict_eq(list(calls[0][1]), args):
                devs.append((f"call-count:{method}:exec", f"{where} ({which}): exec runs {len(calls)} time(s) with {[c[1] for c in calls]!r}"))
        if kind == "marker" and inj:
            devs.append((f"marker-calls:{method}", f"{where} ({which}): the marker injection makes calls {inj[:3]!r}"))
        if kind == "function-on-object":
            execs = [e for e in inj if e[0] == ("builtins", "exec")]
            evals = [e for e in inj if e[0] == ("builtins", "eval")]
            applied = [e for e in inj if e[0] == ("builtins", "eval(...)")]
            if len(execs) != 1 or len(evals) != 1 or len(applied) != 1:
                devs.append((f"call-count:{method}:{len(execs)}/{len(evals)}/{len(applied)}", f"{where} ({which}): the definition is executed {len(execs)} time(s), the name looked up {len(evals)} time(s), the function applied {len(applied)} time(s)"))
            else:
                want = [base_result] + list(kwargs.get("constant_args") or [])
                got = list(applied[0][1])
                if len(got) != len(want) or not (got[0] == base_result and all(_strict_eq(x, y) for x, y in zip(got[1:], want[1:]))):
                    devs.append((f"arguments-changed:{method}", f"{where} ({which}): the function is applied to {got!r}, expected the unpickled object followed by {want[1:]!r}"))
                if evals[0][1] != ("tamper",):
                    devs.append((f"arguments-changed:{method}:name", f"{where} ({which}): eval receives {evals[0][1]!r}, not the function's name"))
        # ---- the result
        if kind in ("keep", "keep-exec", "marker"):
            if not V.same_value(base_result, result):
                devs.append((f"result-not-preserved:{method}:{kind}", f"{where} ({which}): loading returns {result!r:.70}, the original pickle gives {base_result!r:.70}"))
        elif kind in ("replace", "append-keep-value"):
            if not (isinstance(result, V._StandIn) and type(result)._key == INJ):
                devs.append((f"result-not-replaced:{method}:{kind}", f"{where} ({which}): loading returns {result!r:.70}, not the injected call's value"))
        elif kind == "replace-exec":
            if not (isinstance(result, V._StandIn) and type(result)._key == ("builtins", "exec")):
                devs.append((f"result-not-replaced:{method}:{kind}", f"{where} ({which}): loading returns {result!r:.70}, not the injected call's value"))
        elif kind == "function-on-object":
            if not (isinstance(result, V._StandIn) and type(result)._key == ("builtins", "eval(...)")):
                devs.append((f"result-not-replaced:{method}", f"{where} ({which}): loading returns {result!r:.70}, not the injected function's value"))
    return devs


_IREPO = None


def _ichunk(items):
    from .props.c06 import _fresh_objeval

    out = []
    for blabel, base, helper in items:
        try:
            oe = _fresh_objeval(_IREPO)
            out.append(("ok", inject_world(_IREPO, oe, blabel, base, helper)))
        except Unsupported as e:
            out.append(("unsupported", f"{helper[0]} on {blabel}: {e}"))
        except AnalysisError as e:
            out.append(("unsupported", f"{helper[0]} on {blabel}: {e}"))
    return out


def explore(repo: Repo, tier: str):
    import multiprocessing as mp
    import os
    from concurrent.futures import ProcessPoolExecutor
    from pathlib import Path

    from .cache import cached, digest

    global _IREPO
    _IREPO = repo
    items = [(bl, b, h) for bl, b in _bases(tier) for h in _helpers(tier)]
    jobs = min(int(os.environ.get("SA_JOBS", "16")), os.cpu_count() or 1)
    chunks = [items[i::jobs] for i in range(jobs)]

    def compute():
        try:
            with ProcessPoolExecutor(max_workers=jobs, mp_context=mp.get_context("fork")) as ex:
                return list(ex.map(_ichunk, chunks))
        except (OSError, RuntimeError):
            return [_ichunk(c) for c in chunks]

    key = "injectworlds-" + digest(repo, ["fickling.fickle"], f"{tier}|{jobs}", [Path(__file__), Path(V.__file__)])
    parts = cached(key, compute)
    found: Dict[str, Tuple[int, str]] = {}
    n = 0
    for outs in parts:
        for o in outs:
            n += 1
            if o[0] == "unsupported":
                raise AnalysisError(f"injection worlds: cannot interpret {o[1]}")
            for key_, msg in o[1]:
                c, m = found.get(key_, (0, msg))
                found[key_] = (c + 1, m if len(m) <= len(msg) else msg)
    return found, n
