"""Load worlds (C02): the checked load - fickling.loader.load, reached directly, through the global hook and through the safety
context - is *interpreted* end to end (sa/objeval: Pickled.load, every analysis, the verdict comparison, the error) over byte
streams of every verdict class x all six thresholds x three ways of arming x three kinds of stream (in-memory, file-like, and a
stream whose content changes once it has been read to the end).  The pickle module's real entry points are the reader's side:
CPython's own unpickler with every global an inert logging stand-in, which also records *which bytes* it was given."""

from __future__ import annotations

import io
import pickle
from typing import Any, Dict, List, Tuple

from .minieval import PyRaise, Record, Unsupported
from .model import Repo
from .objeval import Instance, Native
from .report import AnalysisError
from . import vmworlds as V

SEVS = ["LIKELY_SAFE", "POSSIBLY_UNSAFE", "SUSPICIOUS", "LIKELY_UNSAFE", "LIKELY_OVERTLY_MALICIOUS", "OVERTLY_MALICIOUS"]
EVIL = b"cos\nsystem\n(S'EVIL'\ntR."


class ChangingStream(io.BytesIO):
    """A file whose content is replaced by something else between the analysis and the load (a file being rewritten, a named
    pipe): once `arm()` has been called - the harness calls it when the safety analysis starts, i.e. after the one parse - any
    further read sees the other content."""

    def __init__(self, first: bytes, then: bytes):
        super().__init__(first)
        self._then, self._armed = then, False

    def arm(self):
        self._armed = True

    def _swap(self):
        if self._armed:
            self._armed = False
            pos = min(self.tell(), 0)
            self.seek(0)
            self.truncate(0)
            self.write(self._then)
            self.seek(pos)

    def read(self, *a):
        self._swap()
        return super().read(*a)

    def readline(self, *a):
        self._swap()
        return super().readline(*a)


def _eight_byte_prefixes() -> bytes:
    import struct

    hidden = b"AAAAcos\nsystem\n(S'id'\ntR."
    return b"\x80\x04\x8d" + struct.pack("<Q", 5) + b"hello" + b"0" + b"\x8e" + struct.pack("<Q", len(hidden)) + hidden + b"."


def _inputs():
    import collections

    return [
        ("an int (nothing to report)", pickle.dumps(5, 2)),
        ("a list at protocol 4 (framed)", pickle.dumps([1, 2, 3], 4)),
        ("an OrderedDict (a standard-library call)", pickle.dumps(collections.OrderedDict(a=1), 2)),
        ("a non-standard-library global", b"cnot_stdlib_module\nThing\n."),
        ("a non-standard-library call", b"cnot_stdlib_module\nThing\n(S'a'\ntR."),
        ("os.system call", b"cos\nsystem\n(S'id'\ntR."),
        ("eval call", b"c__builtin__\neval\n(S'1'\ntR."),
        ("an unsupported opcode (analysis raises)", b"Pfoo\n."),
        ("a self-referential list (analysis raises)", b"\x80\x02]q\x00h\x00a."),
        ("truncated after a dangerous prefix (parse raises)", b"cos\nsystem\n(S'id'\ntR"),
        # rarer shapes of the same verdict classes
        ("os.system by INST (protocol 0: no GLOBAL opcode at all)", b"(S'id'\nios\nsystem\n."),
        ("data only, but a second PROTO opcode (a finding without any import or call)", b"\x80\x02\x80\x03K\x01."),
        ("8-byte length prefixes: a BINUNICODE8 text, popped, then a BINBYTES8 constant whose content spells a call", _eight_byte_prefixes()),
        ("a Python-2 style 8-bit string (SHORT_BINSTRING)", b"\x80\x02U\x03abcq\x00."),
    ]


class World:
    def __init__(self, repo: Repo):
        from .props.c06 import _fresh_objeval

        self.repo = repo
        self.oe = oe = _fresh_objeval(repo)
        oe.eval_module_calls = True
        oe.externals["stdlib_list.in_stdlib"] = V._StdlibOracle()
        self.loaded: List[bytes] = []

        def loads(data=None, *a, **k):
            if not isinstance(data, (bytes, bytearray)):
                raise Unsupported("pickle.loads on something that is not bytes")
            self.loaded.append(bytes(data))
            try:
                return V._StandInUnpickler(io.BytesIO(bytes(data))).load()
            except Exception as ex:
                raise PyRaise(type(ex).__name__)

        def load(file=None, *a, **k):
            if not isinstance(file, io.BytesIO):
                raise Unsupported("pickle.load on something that is not an in-memory stream")
            start = file.tell()
            rest = file.read()
            file.seek(start)
            self.loaded.append(rest)
            try:
                return V._StandInUnpickler(file).load()
            except Exception as ex:
                raise PyRaise(type(ex).__name__)

        self.orig = {"load": Native(load, "pickle.load"), "loads": Native(loads, "pickle.loads")}
        for mod in ("pickle", "_pickle"):
            for attr in ("load", "loads"):
                oe.module_state[(mod, attr)] = self.orig[attr]
        # import time of the hook modules (they snapshot the pickle module's attributes)
        import ast as _ast

        for mn in ("fickling.loader", "fickling.hook", "fickling.context"):
            m = repo.modules[mn]
            for name, vals in m.assigns.items():
                if len(vals) == 1 and isinstance(vals[0], (_ast.Attribute, _ast.Name, _ast.Call)):
                    try:
                        oe.module_global(m, name)
                    except (Unsupported, PyRaise):
                        pass

    def severity(self, name: str):
        return self.oe.class_getattr(self.repo.cls("fickling.analysis.Severity"), name, self.oe.ref(self.repo.cls("fickling.analysis.Severity")))

    def verdict_of(self, data: bytes):
        """The verdict the interpreted analysis gives for these bytes, or ('raises', exc)."""
        try:
            P = self.oe.ref(self.repo.cls("fickling.fickle.Pickled")).sa_attr("load")(data)
            r = self.oe.module_global(self.repo.modules["fickling.analysis"], "check_safety")(P)
            return ("verdict", r.sa_attr("severity")[1]["name"])
        except PyRaise as pe:
            return ("raises", pe.name)
        except RecursionError:
            return ("raises", "RecursionError")


def run_world(repo: Repo, ilabel: str, data: bytes, threshold: str, arming: str, stream_kind: str) -> List[Tuple[str, str]]:
    w = World(repo)
    oe = w.oe
    # Analyzer.default_instance is built through a metaclass property from Analysis.ALL (C04.registered): supply it
    A = "fickling.analysis"
    ab = repo.cls(f"{A}.Analysis")
    subs = sorted((c for c in repo.classes.values() if c is not ab and repo.is_subclass(c, ab.qualname)), key=lambda c: (c.module.name != A, c.module.name, c.node.lineno))
    az = oe.instantiate(repo.cls(f"{A}.Analyzer"), [[oe.instantiate(c, [], {}) for c in subs]], {})
    oe.class_store.setdefault(f"{A}.Analyzer", {})["default_instance"] = az
    verdict = w.verdict_of(data)
    try:
        V.CALL_LOG.clear()
        ref_value = V._StandInUnpickler(io.BytesIO(data)).load()
        ref_log = list(V.CALL_LOG)
        ref_ok = True
    except Exception:
        ref_value, ref_log, ref_ok = None, [], False
    stream = io.BytesIO(data) if stream_kind == "in-memory" else io.BufferedReader(io.BytesIO(data)) if stream_kind == "file-like" else ChangingStream(data, EVIL)
    if isinstance(stream, ChangingStream):
        csf = repo.func("fickling.analysis.check_safety")
        oe.func_overrides[csf.qualname] = lambda *a, **k: (stream.arm(), oe._call_func(csf, list(a), k, None, original=True))[1]
    where = f"{ilabel}, threshold {threshold}, armed by {arming}, {stream_kind} stream"
    loader = oe.module_global(repo.modules["fickling.loader"], "load")
    V.CALL_LOG.clear()
    w.loaded.clear()
    outcome = None
    try:
        if arming == "checked loader":
            result = loader(stream, max_acceptable_severity=w.severity(threshold))
        elif arming == "global hook":
            if threshold != "LIKELY_SAFE":
                return []  # the hook has no threshold parameter: it uses the loader's default
            oe.module_global(repo.modules["fickling.hook"], "run_hook")()
            result = oe.module_state[("pickle", "load")](stream)
        elif arming == "global hook, after a permissive safety context was entered and left":
            if threshold != "LIKELY_SAFE":
                return []
            # two armings in a row: what the second one accepted must not outlive it
            oe.module_global(repo.modules["fickling.hook"], "run_hook")()
            inner = oe.ref(repo.cls("fickling.context.FicklingContextManager"))(max_acceptable_severity=w.severity("OVERTLY_MALICIOUS"))
            inner.sa_attr("__enter__")()
            inner.sa_attr("__exit__")(None, None, None)
            result = oe.module_state[("pickle", "load")](stream)
        else:
            if threshold != "LIKELY_SAFE":
                return []
            ctx = oe.module_global(repo.modules["fickling.context"], "check_safety")()
            ctx.sa_attr("__enter__")()
            try:
                result = oe.module_state[("pickle", "load")](stream)
            finally:
                ctx.sa_attr("__exit__")(None, None, None)
        outcome = ("returned", result)
    except PyRaise as pe:
        outcome = ("raised", pe.name)
    except RecursionError:
        outcome = ("raised", "RecursionError")
    log = list(V.CALL_LOG)
    devs: List[Tuple[str, str]] = []
    allowed = verdict[0] == "verdict" and SEVS.index(verdict[1]) <= SEVS.index(threshold)
    if outcome[0] == "returned":
        if not allowed:
            devs.append((f"loaded-above-threshold:{verdict[1] if verdict[0] == 'verdict' else 'analysis-' + verdict[1]}", f"{where}: the load returns an object although the verdict for these bytes is {verdict[1]}{' (analysis raises)' if verdict[0] == 'raises' else ''}"))
        if any(b != data and not data.startswith(b) for b in w.loaded) or not w.loaded:
            devs.append(("other-bytes-loaded", f"{where}: the unpickler was given {[x[:24] for x in w.loaded]}, not the bytes that were analysed ({data[:24]!r}...)"))
        elif ref_ok and not V.same_value(ref_value, outcome[1]):
            devs.append(("result-differs", f"{where}: the load returns {outcome[1]!r:.60}, the stock unpickler gives {ref_value!r:.60}"))
    else:
        if allowed and ref_ok:
            devs.append((f"refused-below-threshold:{outcome[1]}", f"{where}: the verdict {verdict[1]} is within the threshold but the load raises {outcome[1]}"))
        if log:
            devs.append(("resolved-before-refusal", f"{where}: the load does not return ({outcome[1]}), yet {[e[0] for e in log][:4]} had already been resolved and called"))
        if not allowed and verdict[0] == "verdict" and outcome[1] != "UnsafeFileError":
            devs.append((f"refusal-not-unsafe-file-error:{outcome[1]}", f"{where}: the verdict {verdict[1]} is above the threshold, but the load raises {outcome[1]} instead of UnsafeFileError"))
    return devs


_LREPO = None


def _lchunk(items):
    out = []
    for it in items:
        try:
            out.append(("ok", run_world(_LREPO, *it)))
        except Unsupported as e:
            out.append(("unsupported", f"{it[0]}, {it[2:]}: {e}"))
        except AnalysisError as e:
            out.append(("unsupported", f"{it[0]}, {it[2:]}: {e}"))
    return out


def explore(repo: Repo, tier: str):
    import multiprocessing as mp
    import os
    from concurrent.futures import ProcessPoolExecutor
    from pathlib import Path

    from .cache import cached, digest

    global _LREPO
    _LREPO = repo
    items = []
    for il, data in _inputs():
        for arming in ("checked loader", "global hook", "safety context", "global hook, after a permissive safety context was entered and left"):
            for th in SEVS:
                for sk in ("in-memory", "file-like", "changing"):
                    if arming != "checked loader" and th != "LIKELY_SAFE":
                        continue
                    if arming.startswith("global hook, after") and sk != "in-memory":
                        continue
                    if tier != "thorough" and sk == "file-like" and th not in ("LIKELY_SAFE", "OVERTLY_MALICIOUS"):
                        continue
                    items.append((il, data, th, arming, sk))
    jobs = min(int(os.environ.get("SA_JOBS", "16")), os.cpu_count() or 1)
    chunks = [items[i::jobs] for i in range(jobs)]

    def compute():
        try:
            with ProcessPoolExecutor(max_workers=jobs, mp_context=mp.get_context("fork")) as ex:
                return list(ex.map(_lchunk, chunks))
        except (OSError, RuntimeError):
            return [_lchunk(c) for c in chunks]

    key = "loadworlds-" + digest(repo, [m for m in repo.modules if m.startswith("fickling.") and m.split(".")[1] in ("fickle", "analysis", "ml", "loader", "hook", "context", "exception")], f"{tier}|{jobs}", [Path(__file__), Path(V.__file__)])
    parts = cached(key, compute)
    found: Dict[str, Tuple[int, str]] = {}
    n = 0
    for outs in parts:
        for o in outs:
            n += 1
            if o[0] == "unsupported":
                raise AnalysisError(f"load worlds: cannot interpret {o[1]}")
            for key_, msg in o[1]:
                c, m = found.get(key_, (0, msg))
                found[key_] = (c + 1, m if len(m) <= len(msg) else msg)
    return found, n
