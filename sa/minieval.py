"""A tiny evaluator for *pure* expression/statement fragments over finite constant domains.

Used for (a) the Severity comparison operators over the 6x6 member domain read from the enum
body, and (b) folding `[1, 0][was_safe]`-style exit-code expressions over {True, False}.  It
interprets an AST subset (constants, names, tuples, comparisons, boolean operators, conditional
expressions, subscripts, attribute reads on records, `isinstance`, `int`, `bool`, `len`, `not`,
`if/return` statement chains).  Anything else raises `Unsupported` -- the caller turns that into an
ANALYSIS-ERROR, never into a verdict.
"""

from __future__ import annotations

import ast
import operator
from typing import Any, Callable, Dict, Optional


class Unsupported(Exception):
    pass


class Record:
    """An object with named fields (an enum member read from the source)."""

    def __init__(self, cls: str, fields: Dict[str, Any]):
        self.cls = cls
        self.fields = fields

    def __repr__(self):
        return f"<{self.cls}.{self.fields.get('name')}>"


_MISSING = object()


class _Break(Exception):
    pass


class _Continue(Exception):
    pass


class PyRaise(Exception):
    """A Python exception the interpreted fragment itself would raise (modelled, e.g. IndexError)."""

    def __init__(self, name: str):
        super().__init__(name)
        self.name = name


_EXC_PARENT = {
    "UnicodeEncodeError": "UnicodeError", "UnicodeDecodeError": "UnicodeError", "UnicodeError": "ValueError", "KeyError": "LookupError", "IndexError": "LookupError",
    "NotImplementedError": "RuntimeError", "RecursionError": "RuntimeError", "ZeroDivisionError": "ArithmeticError", "OverflowError": "ArithmeticError",
    "FileNotFoundError": "OSError", "PermissionError": "OSError", "ModuleNotFoundError": "ImportError", "JSONDecodeError": "ValueError", "UnsupportedOperation": "OSError",
}


def _exc_ancestors(name: str):
    name = name.split(".")[-1] if name != "struct.error" else name
    out = [name]
    while name in _EXC_PARENT:
        name = _EXC_PARENT[name]
        out.append(name)
    return out


class ReturnValue(Exception):
    def __init__(self, v):
        self.v = v


_CMP = {
    ast.Lt: operator.lt,
    ast.LtE: operator.le,
    ast.Gt: operator.gt,
    ast.GtE: operator.ge,
    ast.Eq: operator.eq,
    ast.NotEq: operator.ne,
}


_SAFE_METHODS = {
    "list": ("append", "insert", "extend", "index", "count", "copy", "pop", "sort", "reverse", "remove", "clear"),
    "dict": ("items", "keys", "values", "get", "copy", "update", "setdefault", "pop", "clear"),
    "str": ("islower", "isupper", "istitle", "isspace", "isalnum", "isdecimal", "isnumeric", "title", "capitalize", "casefold", "swapcase", "removeprefix", "removesuffix", "expandtabs", "center", "ljust", "rjust", "encode", "split", "rsplit", "startswith", "endswith", "strip", "join", "format", "lower", "upper", "replace", "count", "isascii", "isdigit", "isalpha", "isidentifier", "isprintable", "lstrip", "rstrip", "find", "rfind", "partition", "rpartition", "splitlines", "zfill"),
    "bytes": ("decode", "startswith", "endswith"),
    "tuple": ("index", "count"),
    "int": ("to_bytes", "bit_length"),
    "set": ("add", "discard", "update", "union", "copy", "issubset", "issuperset", "intersection", "difference", "remove"),
}
_PY_TYPES = {"int": int, "float": float, "str": str, "bytes": bytes, "list": list, "dict": dict, "tuple": tuple, "bool": bool, "bytearray": bytearray, "set": set}


class PyIter:
    """A real Python iterator over already-evaluated values (iter(), zip(), map(), range(), enumerate()): consumption is
    exactly Python's - lazy, one-shot, shared between the places that hold it."""

    def __init__(self, it, what: str):
        self.it, self.what = iter(it), what

    def __iter__(self):
        return self

    def __next__(self):
        return next(self.it)

    def __repr__(self):
        return f"<{self.what} iterator>"


class Closure:
    """A nested `def` / lambda of the interpreted fragment: called with the enclosing variables as they are at call time."""

    def __init__(self, ev: "Evaluator", node):
        self.ev, self.node = ev, node
        # parameter defaults are evaluated once, when the `def` / lambda is evaluated (`lambda x, i=i: ...` keeps this i)
        a = node.args
        self._defaults = [self._early(d) for d in a.defaults]
        self._kw_defaults = [None if d is None else self._early(d) for d in a.kw_defaults]

    def _early(self, d):
        try:
            return ("v", self.ev.ev(d))
        except Unsupported as ex:
            return ("unsupported", ex)

    @staticmethod
    def _default(slot):
        if slot[0] == "unsupported":
            raise slot[1]
        return slot[1]

    sa_callable = True

    def sa_call(self, args, kw):
        a = self.node.args
        names = [x.arg for x in a.posonlyargs + a.args]
        env = dict(self.ev.env)
        kw = dict(kw)
        pos = list(args)
        defaults = dict(zip(names[len(names) - len(a.defaults):], self._defaults))
        for n in names:
            if pos:
                env[n] = pos.pop(0)
            elif n in kw:
                env[n] = kw.pop(n)
            elif n in defaults:
                env[n] = self._default(defaults[n])
            else:
                raise PyRaise("TypeError")
        if a.vararg:
            env[a.vararg.arg] = tuple(pos)
        elif pos:
            raise PyRaise("TypeError")
        for k, d in zip(a.kwonlyargs, self._kw_defaults):
            if k.arg in kw:
                env[k.arg] = kw.pop(k.arg)
            elif d is not None:
                env[k.arg] = self._default(d)
            else:
                raise PyRaise("TypeError")
        if a.kwarg:
            env[a.kwarg.arg] = kw
        elif kw:
            raise PyRaise("TypeError")
        child = self.ev.child(env)
        if hasattr(child, "yields"):
            child.yields = None  # an enclosing generator's output is not this function's
        if isinstance(self.node, ast.Lambda):
            return child.ev(self.node.body)
        own = [x for x in _own_nodes(self.node)]
        if any(isinstance(x, ast.Global) for x in own):
            raise Unsupported("nested function with a global statement")
        shared = [nm for x in own if isinstance(x, ast.Nonlocal) for nm in x.names]
        is_gen = any(isinstance(x, (ast.Yield, ast.YieldFrom)) for x in own)
        if is_gen:
            child.yields = []  # run eagerly; handed out as a one-shot iterator (side effects happen at creation, not at consumption)
        try:
            r = child.run_body(self.node.body)
        finally:
            for nm in shared:
                if nm in child.env:
                    self.ev.env[nm] = child.env[nm]  # `nonlocal x`: the enclosing function's binding is the one that changed
        if is_gen:
            return PyIter(child.yields, f"generator {getattr(self.node, 'name', '<lambda>')}")
        return r

    def __call__(self, *args, **kw):
        return self.sa_call(list(args), kw)


def _own_nodes(fn):
    """The nodes of a function's own body (not those of functions / classes nested in it)."""
    stack = list(fn.body) if isinstance(fn.body, list) else [fn.body]
    while stack:
        n = stack.pop()
        yield n
        for c in ast.iter_child_nodes(n):
            if not isinstance(c, (ast.FunctionDef, ast.AsyncFunctionDef, ast.Lambda, ast.ClassDef)):
                stack.append(c)


def _as_iterable(seq):
    """list/tuple/str/bytes/dict/set/PyIter -> something a Python `for` can consume with Python's own semantics."""
    if isinstance(seq, (list, tuple, PyIter, range)):
        return seq
    if isinstance(seq, (str, bytes)):
        return list(seq)
    if isinstance(seq, (dict, set, frozenset)):
        return list(seq)
    if hasattr(seq, "sa_iter"):
        return _as_iterable(seq.sa_iter())
    return None


class Evaluator:
    def child(self, env: dict) -> "Evaluator":
        c = type(self).__new__(type(self))
        c.__dict__.update(self.__dict__)
        c.env = env
        return c

    def ev_args(self, call: ast.Call):
        out = []
        for a in call.args:
            if isinstance(a, ast.Starred):
                v = _as_iterable(self.ev(a.value))
                if v is None:
                    raise Unsupported("starred non-sequence")
                out.extend(v)
            else:
                out.append(self.ev(a))
        return out

    def __init__(
        self,
        env: Dict[str, Any],
        record_compare: Optional[Callable[[str, Record, Any, "Evaluator"], Any]] = None,
        isinstance_hook: Optional[Callable[[Any, str], Optional[bool]]] = None,
        call_hook: Optional[Callable[[str, list, dict, "Evaluator"], Any]] = None,
    ):
        self.call_hook = call_hook
        self.steps = 0
        self.env = env
        self.record_compare = record_compare
        self.isinstance_hook = isinstance_hook
        self.depth = 0

    # expressions ---------------------------------------------------------------------------
    def ev(self, e: ast.AST) -> Any:
        """Evaluate once: the argument expressions of the call being evaluated are memoised for the duration of that call,
        so that the chain of special cases below (which may look at an argument before handing the call to a hook) never
        evaluates an argument with side effects (a stream read, an iterator step) twice."""
        st = self.__dict__.get("_memo")
        if st is None:
            st = self.__dict__["_memo"] = []
        top = st[-1] if st else None
        k = id(e)
        if top is not None and k in top and top[k] is not _MISSING:
            return top[k]
        if isinstance(e, ast.Call):
            frame = {id(a.value if isinstance(a, ast.Starred) else a): _MISSING for a in e.args}
            frame.update({id(kw.value): _MISSING for kw in e.keywords})
            st.append(frame)
            try:
                v = self._ev(e)
            finally:
                st.pop()
        else:
            v = self._ev(e)
        if top is not None and k in top:
            top[k] = v
        return v

    def _ev(self, e: ast.AST) -> Any:
        if isinstance(e, ast.GeneratorExp):
            # evaluated eagerly (the evaluator's fragment has no effects a lazy generator could interleave with), but handed out
            # as Python hands it out: a one-shot iterator - a second consumer finds it empty
            items = self._ev(ast.copy_location(ast.ListComp(elt=e.elt, generators=e.generators), e))
            return PyIter(items, "generator expression")
        if isinstance(e, ast.Constant):
            return e.value
        if isinstance(e, ast.Name):
            if e.id in self.env:
                return self.env[e.id]
            if e.id in ("True", "False", "None"):
                return {"True": True, "False": False, "None": None}[e.id]
            if e.id == "NotImplemented":
                return NotImplemented
            nh = getattr(self, "name_hook", None)
            if nh is not None:
                r = nh(e.id)
                if r is not _MISSING:
                    return r
            raise Unsupported(f"free name {e.id}")
        if isinstance(e, ast.NamedExpr) and isinstance(e.target, ast.Name):
            v = self.ev(e.value)
            self.env[e.target.id] = v
            return v
        if isinstance(e, (ast.Tuple, ast.List)):
            vals = []
            for x in e.elts:
                if isinstance(x, ast.Starred):
                    it = _as_iterable(self.ev(x.value))
                    if it is None:
                        raise Unsupported("starred non-iterable in a display")
                    vals.extend(it)
                else:
                    vals.append(self.ev(x))
            return tuple(vals) if isinstance(e, ast.Tuple) else vals
        if isinstance(e, ast.Dict):
            out = {}
            for k, v in zip(e.keys, e.values):
                if k is None:
                    sub = self.ev(v)
                    if not isinstance(sub, dict):
                        raise Unsupported("** of a non-dict")
                    out.update(sub)
                else:
                    kk = self.ev(k)
                    try:
                        out[kk] = self.ev(v)
                    except TypeError:
                        raise PyRaise("TypeError")
            return out
        if isinstance(e, ast.Attribute):
            v = self.ev(e.value)
            if isinstance(v, Record):
                if e.attr in v.fields:
                    return v.fields[e.attr]
                ga = v.fields.get("__getattr__")
                if callable(ga):
                    return ga(e.attr)
                raise Unsupported(f"attribute .{e.attr} of {v!r}")
            if isinstance(v, dict) and v.get("__namespace__") and e.attr in v:
                return v[e.attr]
            if hasattr(v, "sa_attr"):
                return v.sa_attr(e.attr)
            raise Unsupported(f"attribute .{e.attr} of a {type(v).__name__}")
        if isinstance(e, ast.Subscript):
            v = self.ev(e.value)
            if isinstance(e.slice, ast.Slice):
                lo = self.ev(e.slice.lower) if e.slice.lower is not None else None
                hi = self.ev(e.slice.upper) if e.slice.upper is not None else None
                stp = self.ev(e.slice.step) if e.slice.step is not None else None
                i = slice(lo, hi, stp)
            else:
                i = self.ev(e.slice)
            if isinstance(v, Record):
                gi = v.fields.get("__getitem__")
                if gi is None:
                    raise Unsupported(f"subscript of {v!r}")
                return gi(i)
            try:
                return v[i]
            except (IndexError, KeyError) as ex:
                raise PyRaise(type(ex).__name__)
            except Exception as ex:
                raise Unsupported(f"subscript failed: {ex}")
        if isinstance(e, ast.UnaryOp):
            v = self.ev(e.operand)
            if isinstance(e.op, ast.Not):
                return not self.truth(v)
            if isinstance(e.op, ast.USub) and isinstance(v, (int, float)):
                return -v
            raise Unsupported(f"unary {type(e.op).__name__}")
        if isinstance(e, ast.BoolOp):
            if isinstance(e.op, ast.And):
                v = True
                for x in e.values:
                    v = self.ev(x)
                    if not self.truth(v):
                        return v
                return v
            v = False
            for x in e.values:
                v = self.ev(x)
                if self.truth(v):
                    return v
            return v
        if isinstance(e, ast.IfExp):
            return self.ev(e.body) if self.truth(self.ev(e.test)) else self.ev(e.orelse)
        if isinstance(e, ast.Compare):
            left = self.ev(e.left)
            for op, right_e in zip(e.ops, e.comparators):
                right = self.ev(right_e)
                if not self.truth(self.compare(op, left, right)):
                    return False
                left = right
            return True
        if isinstance(e, ast.BinOp):
            l, r = self.ev(e.left), self.ev(e.right)
            if getattr(l, "sa_symbolic", False) or getattr(r, "sa_symbolic", False):
                try:
                    if isinstance(e.op, ast.Add):
                        return l + r
                    if isinstance(e.op, ast.Sub):
                        return l - r
                except TypeError:
                    pass
                raise Unsupported("arithmetic on a symbolic quantity")
            if isinstance(e.op, ast.Add) and type(l) is type(r) and isinstance(l, (str, bytes, list, tuple)):
                return l + r
            if isinstance(e.op, ast.Mult) and isinstance(l, (str, bytes, list, tuple)) and isinstance(r, int) and not isinstance(r, bool) and 0 <= r <= 4096:
                return l * r
            if isinstance(l, bool) or isinstance(r, bool) or not (isinstance(l, int) and isinstance(r, int)):
                if not (isinstance(l, (int, bool)) and isinstance(r, (int, bool))):
                    plain = (int, float, complex, str, bytes, bytearray, list, tuple, type(None), dict, set, frozenset)
                    if isinstance(l, plain) and isinstance(r, plain) and type(e.op) in (ast.Add, ast.Sub, ast.Mult, ast.Mod, ast.FloorDiv, ast.Div, ast.BitXor, ast.BitAnd, ast.BitOr, ast.LShift, ast.RShift, ast.Pow):
                        pyops = {ast.Add: operator.add, ast.Sub: operator.sub, ast.Mult: operator.mul, ast.Mod: operator.mod, ast.FloorDiv: operator.floordiv, ast.Div: operator.truediv, ast.BitXor: operator.xor, ast.BitAnd: operator.and_, ast.BitOr: operator.or_, ast.LShift: operator.lshift, ast.RShift: operator.rshift, ast.Pow: operator.pow}
                        if isinstance(e.op, (ast.Mult, ast.Pow, ast.LShift)) and any(isinstance(x, int) and not isinstance(x, bool) and abs(x) > 1 << 20 for x in (l, r)) and not (isinstance(l, int) and isinstance(r, int)):
                            raise Unsupported("huge repetition / exponent")
                        try:
                            return pyops[type(e.op)](l, r)
                        except (TypeError, ValueError, ZeroDivisionError, OverflowError) as ex:
                            raise PyRaise(type(ex).__name__)
                    raise Unsupported("binary operator on non-integers")
            ops = {ast.Add: operator.add, ast.Sub: operator.sub, ast.Mult: operator.mul, ast.BitXor: operator.xor, ast.BitAnd: operator.and_, ast.BitOr: operator.or_, ast.LShift: operator.lshift, ast.RShift: operator.rshift, ast.Pow: operator.pow, ast.FloorDiv: operator.floordiv, ast.Mod: operator.mod}
            if isinstance(e.op, (ast.Pow, ast.LShift)) and (not isinstance(r, int) or r < 0 or r > 4096):
                raise Unsupported("exponent out of range")
            if isinstance(e.op, ast.Div):
                ops = dict(ops)
                ops[ast.Div] = operator.truediv
            if type(e.op) in ops:
                try:
                    return ops[type(e.op)](l, r)
                except (ZeroDivisionError, OverflowError) as ex:
                    raise PyRaise(type(ex).__name__)
            raise Unsupported(f"binary {type(e.op).__name__}")
        if isinstance(e, ast.JoinedStr):
            parts = []
            for v in e.values:
                if isinstance(v, ast.Constant):
                    parts.append(str(v.value))
                else:
                    try:
                        x = self.ev(v.value)
                    except Unsupported:
                        x = "<?>"
                    if not isinstance(x, Record) and x != "<?>" and (v.format_spec is not None or v.conversion != -1):
                        if v.conversion == ord("r"):
                            x = repr(x)
                        elif v.conversion == ord("s"):
                            x = str(x)
                        elif v.conversion == ord("a"):
                            x = ascii(x)
                        spec = self.ev(v.format_spec) if v.format_spec is not None else ""
                        try:
                            parts.append(format(x, spec))
                        except (ValueError, TypeError) as ex:
                            raise PyRaise(type(ex).__name__)
                        continue
                    parts.append(x.fields.get("__str__", repr(x)) if isinstance(x, Record) else str(x))
            return "".join(parts)
        if isinstance(e, (ast.GeneratorExp, ast.ListComp)) and len(e.generators) == 1 and isinstance(e.generators[0].target, ast.Tuple) and all(isinstance(t, ast.Name) for t in e.generators[0].target.elts):
            g = e.generators[0]
            seq = self.ev(g.iter)
            if isinstance(seq, Record) and callable(seq.fields.get("__iter__")):
                seq = seq.fields["__iter__"]()
            seq = _as_iterable(seq)
            if seq is None:
                raise Unsupported("comprehension over a non-sequence")
            names = [t.id for t in g.target.elts]
            saved = {n: self.env.get(n, _MISSING) for n in names}
            out = []
            try:
                for item in seq:
                    if not isinstance(item, (list, tuple)) or len(item) != len(names):
                        raise PyRaise("ValueError")
                    for n, x in zip(names, item):
                        self.env[n] = x
                    if all(self.truth(self.ev(c)) for c in g.ifs):
                        out.append(self.ev(e.elt))
            finally:
                for n, v in saved.items():
                    if v is _MISSING:
                        self.env.pop(n, None)
                    else:
                        self.env[n] = v
            return out
        if isinstance(e, ast.Lambda):
            return Closure(self, e)
        if isinstance(e, (ast.DictComp, ast.SetComp)):
            elt = ast.Tuple(elts=[e.key, e.value], ctx=ast.Load()) if isinstance(e, ast.DictComp) else e.elt
            items = self.ev(ast.ListComp(elt=elt, generators=e.generators))
            try:
                return dict(items) if isinstance(e, ast.DictComp) else set(items)
            except TypeError:
                raise PyRaise("TypeError")
        if isinstance(e, (ast.GeneratorExp, ast.ListComp)) and len(e.generators) == 1 and isinstance(e.generators[0].target, ast.Name):
            g = e.generators[0]
            seq = self.ev(g.iter)
            if isinstance(seq, Record) and callable(seq.fields.get("__iter__")):
                seq = seq.fields["__iter__"]()
            seq = _as_iterable(seq)
            if seq is None:
                raise Unsupported("comprehension over a non-sequence")
            out = []
            saved = self.env.get(g.target.id, _MISSING)
            for item in seq:
                self.env[g.target.id] = item
                if all(self.truth(self.ev(c)) for c in g.ifs):
                    out.append(self.ev(e.elt))
            if saved is _MISSING:
                self.env.pop(g.target.id, None)
            else:
                self.env[g.target.id] = saved
            return out
        if isinstance(e, ast.ListComp):
            # the general form: several `for` clauses, tuple targets
            out = []
            saved = dict(self.env)

            def bind(t, item):
                if isinstance(t, ast.Name):
                    self.env[t.id] = item
                elif isinstance(t, (ast.Tuple, ast.List)):
                    if not isinstance(item, (list, tuple)) or len(item) != len(t.elts):
                        raise PyRaise("ValueError")
                    for tt, x in zip(t.elts, item):
                        bind(tt, x)
                else:
                    raise Unsupported("comprehension target")

            def rec(i):
                if i == len(e.generators):
                    out.append(self.ev(e.elt))
                    return
                g = e.generators[i]
                seq = self.ev(g.iter)
                if isinstance(seq, Record) and callable(seq.fields.get("__iter__")):
                    seq = seq.fields["__iter__"]()
                seq = _as_iterable(seq)
                if seq is None:
                    raise Unsupported("comprehension over a non-sequence")
                for item in seq:
                    bind(g.target, item)
                    if all(self.truth(self.ev(c)) for c in g.ifs):
                        rec(i + 1)

            try:
                rec(0)
            finally:
                self.env.clear()
                self.env.update(saved)
            return out
        if isinstance(e, ast.Call):
            fn = e.func
            if isinstance(fn, ast.Name) and fn.id == "sum" and len(e.args) == 1 and fn.id not in self.env:
                vals = self.ev(e.args[0])
                if isinstance(vals, PyIter):
                    vals = list(vals)
                if isinstance(vals, (list, tuple)) and all(isinstance(v, (int, bool)) for v in vals):
                    return sum(int(v) for v in vals)
                raise Unsupported("sum over non-integers")
            if isinstance(fn, ast.Name) and fn.id in ("any", "all") and fn.id not in self.env and len(e.args) == 1 and isinstance(e.args[0], ast.GeneratorExp) and len(e.args[0].generators) == 1 and isinstance(e.args[0].generators[0].target, ast.Name):
                # lazy, like Python: stop at the first deciding element (later elements need not be evaluable)
                ge = e.args[0]
                g = ge.generators[0]
                seq = self.ev(g.iter)
                if isinstance(seq, Record) and callable(seq.fields.get("__iter__")):
                    seq = seq.fields["__iter__"]()
                seq = _as_iterable(seq)
                if seq is None:
                    raise Unsupported("comprehension over a non-sequence")
                saved = self.env.get(g.target.id, _MISSING)
                result = fn.id == "all"
                try:
                    for item in (seq if isinstance(seq, PyIter) else list(seq)):
                        self.env[g.target.id] = item
                        if not all(self.truth(self.ev(c)) for c in g.ifs):
                            continue
                        t = self.truth(self.ev(ge.elt))
                        if fn.id == "all" and not t:
                            result = False
                            break
                        if fn.id == "any" and t:
                            result = True
                            break
                finally:
                    if saved is _MISSING:
                        self.env.pop(g.target.id, None)
                    else:
                        self.env[g.target.id] = saved
                return result
            if isinstance(fn, ast.Name) and fn.id in ("iter", "zip", "map", "filter", "range", "next", "reversed") and fn.id not in self.env and not e.keywords and not any(isinstance(a, ast.Starred) for a in e.args):
                args = [self.ev(a) for a in e.args]
                if fn.id == "range" and all(isinstance(a, int) and not isinstance(a, bool) for a in args) and 1 <= len(args) <= 3:
                    try:
                        return range(*args)
                    except ValueError:
                        raise PyRaise("ValueError")
                if fn.id == "next" and args and isinstance(args[0], PyIter):
                    try:
                        return next(args[0])
                    except StopIteration:
                        if len(args) == 2:
                            return args[1]
                        raise PyRaise("StopIteration")
                its = []
                ok = True
                for a in (args[1:] if fn.id in ("map", "filter") else args):
                    if isinstance(a, Record) and callable(a.fields.get("__iter__")):
                        a = a.fields["__iter__"]()
                    a = _as_iterable(a)
                    if a is None:
                        ok = False
                        break
                    its.append(a)
                if ok and fn.id == "iter" and len(its) == 1:
                    return PyIter(its[0], "iter")
                if ok and fn.id == "reversed" and len(its) == 1 and isinstance(its[0], (list, tuple, range)):
                    return PyIter(reversed(its[0]), "reversed")
                if ok and fn.id == "zip":
                    return PyIter(zip(*its), "zip")
                if ok and fn.id in ("map", "filter") and args and (hasattr(args[0], "sa_call") or args[0] is None):
                    f0 = args[0]
                    call = (lambda *xs: f0.sa_call(list(xs), {})) if f0 is not None else None
                    if fn.id == "map":
                        return PyIter(map(call, *its), "map")
                    if len(its) == 1:
                        return PyIter(filter((lambda x: self.truth(call(x))) if call else (lambda x: self.truth(x)), its[0]), "filter")
                # fall through to the hooks for anything else
            if isinstance(fn, ast.Name) and fn.id in ("max", "min", "any", "all", "sorted", "list", "tuple", "enumerate") and fn.id not in self.env:
                args = [self.ev(a) for a in e.args]
                kw = {k.arg: self.ev(k.value) for k in e.keywords}
                if fn.id in ("max", "min") and len(args) == 1 and hasattr(args[0], "sa_" + fn.id):
                    return getattr(args[0], "sa_" + fn.id)(**kw)
                if len(args) == 1 and hasattr(args[0], "sa_iter"):
                    args = [_as_iterable(args[0])]  # an object with an interpreted __iter__
                if fn.id in ("max", "min"):
                    seq = list(args[0]) if len(args) == 1 else list(args)
                    if not seq:
                        if "default" in kw:
                            return kw["default"]
                        raise PyRaise("ValueError")  # max() / min() of an empty sequence
                    keyf = kw.get("key")
                    if keyf is not None and not callable(keyf):
                        raise Unsupported(f"{fn.id}(key=...) with a key the evaluator cannot call")
                    best = seq[0]
                    best_k = keyf(best) if keyf is not None else best
                    for x in seq[1:]:
                        xk = keyf(x) if keyf is not None else x
                        better = self.compare(ast.Gt() if fn.id == "max" else ast.Lt(), xk, best_k)
                        if self.truth(better):
                            best, best_k = x, xk
                    return best
                if fn.id == "any":
                    return any(self.truth(x) for x in args[0])
                if fn.id == "all":
                    return all(self.truth(x) for x in args[0])
                if fn.id in ("list", "sorted") and len(args) == 1 and fn.id == "list":
                    return list(args[0])
                if fn.id == "tuple" and len(args) == 1:
                    return tuple(args[0])
                if fn.id == "enumerate" and len(args) in (1, 2):
                    start = kw.get("start", args[1] if len(args) == 2 else 0)
                    if not isinstance(start, int):
                        raise PyRaise("TypeError")
                    return [(i, x) for i, x in enumerate(args[0], start)]
            if isinstance(fn, ast.Name) and fn.id not in self.env and any(isinstance(a, ast.Starred) for a in e.args) and fn.id in ("max", "min", "sum", "len", "list", "tuple", "set", "sorted", "any", "all", "print", "zip", "range", "dict", "str", "int"):
                # f(*xs): the arguments are what the expansion yields, each evaluated once
                return self.ev(ast.copy_location(ast.Call(func=fn, args=[ast.Constant(v) for v in self.ev_args(e)], keywords=e.keywords), e))
            if isinstance(fn, ast.Name) and fn.id == "dict" and fn.id not in self.env and e.keywords and len(e.args) <= 1 and not any(isinstance(a, ast.Starred) for a in e.args):
                try:
                    out = dict(self.ev(e.args[0])) if e.args else {}
                except (TypeError, ValueError) as ex:
                    raise PyRaise(type(ex).__name__)
                for k in e.keywords:
                    if k.arg is None:
                        sub = self.ev(k.value)
                        if not isinstance(sub, dict):
                            raise Unsupported("** of a non-dict")
                        out.update(sub)
                    else:
                        out[k.arg] = self.ev(k.value)
                return out
            if isinstance(fn, ast.Name) and not e.keywords and not any(isinstance(a, ast.Starred) for a in e.args):
                if fn.id == "isinstance" and len(e.args) == 2:
                    args = [self.ev(e.args[0]), None]
                else:
                    args = [self.ev(a) for a in e.args]
                if fn.id == "isinstance" and len(e.args) == 2:
                    cls = ast.unparse(e.args[1])
                    if self.isinstance_hook is not None:
                        r = self.isinstance_hook(args[0], cls)
                        if r is not None:
                            return r
                    names = [ast.unparse(x) for x in e.args[1].elts] if isinstance(e.args[1], ast.Tuple) else [cls]
                    if all(n in _PY_TYPES for n in names) and not isinstance(args[0], Record):
                        return isinstance(args[0], tuple(_PY_TYPES[n] for n in names))
                    raise Unsupported(f"isinstance(_, {cls})")
                if fn.id == "type" and len(args) == 1:
                    if hasattr(args[0], "sa_type"):
                        return args[0].sa_type()
                    return f"<type {type(args[0]).__name__}>"
                if fn.id == "int" and len(args) == 1 and isinstance(args[0], (bool, int)):
                    return int(args[0])
                if fn.id == "ord" and len(args) == 1 and fn.id not in self.env:
                    if isinstance(args[0], (str, bytes)) and len(args[0]) == 1:
                        return ord(args[0])
                    raise PyRaise("TypeError")
                if fn.id == "chr" and len(args) == 1 and fn.id not in self.env:
                    if isinstance(args[0], int) and not isinstance(args[0], bool) and 0 <= args[0] <= 0x10FFFF:
                        return chr(args[0])
                    raise PyRaise("TypeError" if not isinstance(args[0], int) else "ValueError")
                if fn.id == "bool" and len(args) == 1:
                    return self.truth(args[0])
                if fn.id == "len" and len(args) == 1 and isinstance(args[0], (tuple, list, str, dict, bytes, set, frozenset)):
                    return len(args[0])
                if fn.id == "dict" and len(args) <= 1 and fn.id not in self.env:
                    try:
                        src_ = args[0] if args else ()
                        if isinstance(src_, PyIter):
                            src_ = list(src_)
                        return dict(src_)
                    except (TypeError, ValueError) as ex:
                        raise PyRaise(type(ex).__name__)
                if fn.id == "set" and len(args) <= 1 and fn.id not in self.env:
                    try:
                        return set(args[0]) if args else set()
                    except TypeError:
                        raise PyRaise("TypeError")
            if isinstance(fn, ast.Attribute):
                try:
                    recv = self.ev(fn.value)
                except Unsupported:
                    recv = None
                if isinstance(recv, Record) and ("()" + fn.attr) in recv.fields:
                    args = self.ev_args(e)
                    kw = {k.arg: self.ev(k.value) for k in e.keywords if k.arg}
                    return recv.fields["()" + fn.attr](*args, **kw)
                if isinstance(recv, (list, dict, str, bytes, tuple, int, set)) and not isinstance(recv, (Record, bool)) and fn.attr in _SAFE_METHODS.get(type(recv).__name__, ()):
                    args = self.ev_args(e)
                    kw = {k.arg: self.ev(k.value) for k in e.keywords if k.arg}
                    try:
                        r = getattr(recv, fn.attr)(*args, **kw)
                        return list(r) if fn.attr in ("items", "keys", "values") else r
                    except (IndexError, KeyError, ValueError, TypeError, OverflowError, UnicodeError) as ex:
                        raise PyRaise(type(ex).__name__)
            if isinstance(fn, ast.Name) and fn.id == "hasattr" and len(e.args) == 2:
                o = self.ev(e.args[0])
                a = self.ev(e.args[1])
                if isinstance(o, Record):
                    return a in o.fields or ("()" + str(a)) in o.fields
            if isinstance(fn, ast.Name) and fn.id == "len" and len(e.args) == 1 and "len" not in self.env:
                o = self.ev(e.args[0])
                if isinstance(o, Record) and "__len__" in o.fields:
                    v = o.fields["__len__"]
                    return v() if callable(v) else v
                if isinstance(o, PyIter) or (isinstance(o, (int, float, bool)) or o is None):
                    raise PyRaise("TypeError")  # object of this type has no len()
            if self.call_hook is not None:
                name = ast.unparse(fn)
                args = self.ev_args(e)
                kw = {k.arg: self.ev(k.value) for k in e.keywords if k.arg}
                r = self.call_hook(name, args, kw, self)
                if r is not _MISSING:
                    return r
            # a callable abstract value (e.g. an opcode class looked up in a table): evaluate the callee expression
            why = ""
            try:
                callee = self.ev(fn)
            except Unsupported as ex:
                callee = None
                why = f" ({ex})"
            if callee is not None and hasattr(callee, "sa_call"):
                args = self.ev_args(e)
                kw = {k.arg: self.ev(k.value) for k in e.keywords if k.arg}
                return callee.sa_call(args, kw)
            if isinstance(callee, (PyIter, list, tuple, dict, set, frozenset, str, bytes, int, float)) and not isinstance(callee, Record):
                raise PyRaise("TypeError")  # a value of this type is not callable
            raise Unsupported(f"call {ast.unparse(e)[:40]}{why}")
        raise Unsupported(f"expression {type(e).__name__}")

    def _exc_type_value(self, name: str):
        return Record("exception-type", {"__name__": name})

    def _with(self, st: ast.With, i: int):
        """The context-manager protocol, one item at a time: __enter__'s value is bound; __exit__ is called however the body is
        left (normally, by an exception - which a true result swallows -, by return / break / continue).  World-provided
        stand-ins without the two methods (files, archives) are bound as they are."""
        if i == len(st.items):
            self._block(st.body)
            return
        it = st.items[i]
        cm = self.ev(it.context_expr)
        enter = exit_ = None
        if hasattr(cm, "sa_attr") and not isinstance(cm, Record):
            try:
                enter, exit_ = cm.sa_attr("__enter__"), cm.sa_attr("__exit__")
            except PyRaise:
                raise PyRaise("TypeError")  # not a context manager
        elif isinstance(cm, Record) and "()__enter__" in cm.fields and "()__exit__" in cm.fields:
            enter, exit_ = cm.fields["()__enter__"], cm.fields["()__exit__"]
        v = enter() if enter is not None else cm
        if it.optional_vars is not None:
            if not isinstance(it.optional_vars, ast.Name):
                raise Unsupported("with-target")
            self.env[it.optional_vars.id] = v
        if exit_ is None:
            self._with(st, i + 1)
            return
        try:
            self._with(st, i + 1)
        except PyRaise as pe:
            exc = Record("exception", {"name": pe.name, "args": (), "__str__": pe.name})
            if self.truth(exit_(self._exc_type_value(pe.name), exc, None)):
                return  # swallowed
            raise
        except (ReturnValue, _Break, _Continue):
            exit_(None, None, None)
            raise
        exit_(None, None, None)

    def _bind_target(self, t: ast.AST, item):
        if isinstance(t, ast.Name):
            self.env[t.id] = item
        elif isinstance(t, (ast.Tuple, ast.List)):
            if isinstance(item, PyIter):
                item = list(item)
            if not isinstance(item, (list, tuple)) or len(item) != len(t.elts):
                raise PyRaise("ValueError" if isinstance(item, (list, tuple)) else "TypeError")
            for tt, x in zip(t.elts, item):
                self._bind_target(tt, x)
        else:
            raise Unsupported("loop target")

    def _index(self, sl: ast.AST):
        if isinstance(sl, ast.Slice):
            lo = self.ev(sl.lower) if sl.lower is not None else None
            hi = self.ev(sl.upper) if sl.upper is not None else None
            stp = self.ev(sl.step) if sl.step is not None else None
            return slice(lo, hi, stp)
        return self.ev(sl)

    def truth(self, v: Any) -> bool:
        if isinstance(v, Record):
            return True
        if v is NotImplemented:
            raise Unsupported("truth value of NotImplemented")
        return bool(v)

    def compare(self, op: ast.cmpop, l: Any, r: Any) -> Any:
        if isinstance(op, (ast.Is, ast.IsNot)):
            same = l is r
            return same if isinstance(op, ast.Is) else not same
        if isinstance(op, (ast.In, ast.NotIn)):
            if isinstance(r, PyIter):
                # `x in <iterator>` advances the iterator up to and including the first match, like Python
                res = False
                for item in r:
                    if item is l or self._eq(item, l):
                        res = True
                        break
                return res if isinstance(op, ast.In) else not res
            if isinstance(r, (tuple, list, str)):
                res = any(x is l or self._eq(x, l) for x in r) if not isinstance(r, str) else (l in r)
                return res if isinstance(op, ast.In) else not res
            if isinstance(r, (dict, set, frozenset, bytes)) and not isinstance(l, Record):
                try:
                    res = l in r
                except TypeError:
                    raise PyRaise("TypeError")
                return res if isinstance(op, ast.In) else not res
            raise Unsupported("membership in non-sequence")
        if isinstance(l, Record) or isinstance(r, Record):
            if self.record_compare is None:
                raise Unsupported("comparison of records")
            return self.record_compare(type(op).__name__, l, r, self)
        if type(op) in _CMP:
            try:
                return _CMP[type(op)](l, r)
            except TypeError as ex:
                if all(isinstance(x, (int, float, complex, str, bytes, bytearray, list, tuple, dict, set, frozenset, type(None))) for x in (l, r)):
                    raise PyRaise("TypeError")  # what Python itself raises for these two concrete values
                raise Unsupported(f"comparison failed: {ex}")
        raise Unsupported(f"comparison {type(op).__name__}")

    def _eq(self, a, b):
        if isinstance(a, Record) or isinstance(b, Record):
            return bool(self.compare(ast.Eq(), a, b))
        return a == b

    # statements ----------------------------------------------------------------------------
    def run_body(self, body) -> Any:
        """Execute an if/return chain; returns the returned value (None if it falls off)."""
        try:
            self._block(body)
        except ReturnValue as r:
            return r.v
        return None

    def _block(self, body):
        for st in body:
            if isinstance(st, ast.Return):
                raise ReturnValue(self.ev(st.value) if st.value is not None else None)
            elif isinstance(st, ast.If):
                if self.truth(self.ev(st.test)):
                    self._block(st.body)
                else:
                    self._block(st.orelse)
            elif isinstance(st, ast.Expr) and isinstance(st.value, ast.Constant):
                continue  # docstring
            elif isinstance(st, ast.Pass):
                continue
            elif isinstance(st, ast.Assign) and len(st.targets) == 1 and isinstance(st.targets[0], ast.Name):
                self.env[st.targets[0].id] = self.ev(st.value)
            elif isinstance(st, ast.Assign) and len(st.targets) == 1 and isinstance(st.targets[0], ast.Attribute):
                tgt = self.ev(st.targets[0].value)
                if not isinstance(tgt, Record):
                    raise Unsupported("attribute store on a non-record")
                tgt.fields[st.targets[0].attr] = self.ev(st.value)
            elif isinstance(st, ast.AnnAssign) and isinstance(st.target, ast.Name) and st.value is not None:
                self.env[st.target.id] = self.ev(st.value)
            elif isinstance(st, ast.AugAssign) and isinstance(st.target, ast.Name):
                cur = self.ev(st.target)
                val = self.ev(st.value)
                if isinstance(cur, list) and isinstance(st.op, ast.Add) and isinstance(val, (list, tuple)):
                    cur.extend(val)
                    continue
                if isinstance(cur, (dict, set)) and isinstance(st.op, ast.BitOr) and isinstance(val, (dict, set, frozenset)) and isinstance(val, dict) == isinstance(cur, dict):
                    cur.update(val)  # dict.__ior__ / set.__ior__ update the object in place: every holder of it sees the change
                    continue
                fake = ast.BinOp(left=ast.Constant(cur), op=st.op, right=ast.Constant(val))
                if isinstance(cur, bool) and isinstance(val, bool) and isinstance(st.op, (ast.BitAnd, ast.BitOr)):
                    self.env[st.target.id] = (cur and val) if isinstance(st.op, ast.BitAnd) else (cur or val)
                else:
                    self.env[st.target.id] = self.ev(fake)
            elif isinstance(st, ast.For) and isinstance(st.target, (ast.Name, ast.Tuple)):
                seq = self.ev(st.iter)
                if isinstance(seq, Record) and callable(seq.fields.get("__iter__")):
                    seq = seq.fields["__iter__"]()
                seq = _as_iterable(seq)
                if seq is None:
                    raise Unsupported("for over a non-sequence")
                broke = False
                for item in seq:
                    self.steps += 1
                    if self.steps > 10000:
                        raise Unsupported("too many steps")
                    self._bind_target(st.target, item)
                    try:
                        self._block(st.body)
                    except _Break:
                        broke = True
                        break
                    except _Continue:
                        continue
                if not broke:
                    self._block(st.orelse)
            elif isinstance(st, ast.With) and len(st.items) == 1 and isinstance(st.items[0].context_expr, ast.Call) and ast.unparse(st.items[0].context_expr.func).split(".")[-1] == "suppress":
                # contextlib.suppress(E1, E2, ...): an exception of one of these classes raised in the body ends the body and is
                # dropped; the statements after the `with` run next
                names = [ast.unparse(a).split(".")[-1] for a in st.items[0].context_expr.args]
                try:
                    self._block(st.body)
                except PyRaise as pe:
                    if not ("Exception" in names or "BaseException" in names or any(a in names for a in _exc_ancestors(pe.name))):
                        raise
            elif isinstance(st, ast.With):
                self._with(st, 0)
            elif isinstance(st, ast.While):
                broke = False
                while self.truth(self.ev(st.test)):
                    self.steps += 1
                    if self.steps > 10000:
                        raise Unsupported("too many steps")
                    try:
                        self._block(st.body)
                    except _Break:
                        broke = True
                        break
                    except _Continue:
                        continue
                if not broke:
                    self._block(st.orelse)
            elif isinstance(st, ast.FunctionDef):
                self.env[st.name] = Closure(self, st)
            elif isinstance(st, ast.Assert):
                if not self.truth(self.ev(st.test)):
                    raise PyRaise("AssertionError")
            elif isinstance(st, ast.Assign) and len(st.targets) == 1 and isinstance(st.targets[0], (ast.Tuple, ast.List)):
                v = self.ev(st.value)
                if not isinstance(v, (list, tuple)) or len(v) != len(st.targets[0].elts):
                    raise Unsupported("tuple assignment shape")
                for t, x in zip(st.targets[0].elts, v):
                    if not isinstance(t, ast.Name):
                        raise Unsupported("tuple assignment target")
                    self.env[t.id] = x
            elif isinstance(st, ast.Assign) and len(st.targets) == 1 and isinstance(st.targets[0], ast.Subscript):
                t = st.targets[0]
                cont = self.ev(t.value)
                v = self.ev(st.value)
                if isinstance(cont, Record) and "__setitem__" in cont.fields:
                    idx = self._index(t.slice)
                    cont.fields["__setitem__"](idx, v)
                elif isinstance(cont, (list, dict, bytearray)):
                    idx = self._index(t.slice)
                    try:
                        if isinstance(idx, slice) and isinstance(v, Record) and callable(v.fields.get("__iter__")):
                            v = v.fields["__iter__"]()
                        cont[idx] = v
                    except (IndexError, KeyError, TypeError, ValueError) as ex:
                        raise PyRaise(type(ex).__name__)
                else:
                    raise Unsupported("subscript assignment into a non-container")
            elif isinstance(st, ast.Delete) and all(isinstance(t, ast.Subscript) for t in st.targets):
                for t in st.targets:
                    cont = self.ev(t.value)
                    idx = self._index(t.slice)
                    if isinstance(cont, Record) and "__delitem__" in cont.fields:
                        cont.fields["__delitem__"](idx)
                    elif isinstance(cont, (list, dict)):
                        try:
                            del cont[idx]
                        except (IndexError, KeyError, TypeError) as ex:
                            raise PyRaise(type(ex).__name__)
                    else:
                        raise Unsupported("del of a non-container item")
            elif isinstance(st, ast.Try):
                # Python's semantics: the finally block runs however the statement is left - normally, by an exception (of the
                # body, of a handler, of the else block), by return / break / continue.  (An Unsupported is the analyser's own
                # "cannot tell": nothing of the program runs after it.)
                try:
                    try:
                        self._block(st.body)
                    except PyRaise as pe:
                        for h in st.handlers:
                            if h.type is None:
                                names = None
                            elif isinstance(h.type, ast.Tuple):
                                names = [ast.unparse(x).split(".")[-1] for x in h.type.elts]
                            else:
                                names = [ast.unparse(h.type).split(".")[-1]]
                            if names is None or "Exception" in names or "BaseException" in names or any(a in names for a in _exc_ancestors(pe.name)):
                                if h.name:
                                    self.env[h.name] = Record("exception", {"name": pe.name, "args": (), "__str__": pe.name})
                                outer = getattr(self, "_handling", None)
                                self._handling = pe.name  # what a bare `raise` in the handler re-raises
                                try:
                                    self._block(h.body)
                                finally:
                                    self._handling = outer
                                break
                        else:
                            raise
                    else:
                        self._block(st.orelse)
                except (PyRaise, ReturnValue, _Break, _Continue):
                    self._block(st.finalbody)
                    raise
                self._block(st.finalbody)
            elif isinstance(st, ast.Nonlocal):
                pass  # handled by the call that runs this body: the names are written back to the enclosing function
            elif isinstance(st, ast.Raise):
                name = "Exception"
                if st.exc is None:
                    if getattr(self, "_handling", None) is None:
                        raise PyRaise("RuntimeError")  # no active exception to re-raise
                    raise PyRaise(self._handling)
                if st.exc is not None:
                    name = ast.unparse(st.exc.func if isinstance(st.exc, ast.Call) else st.exc).split(".")[-1]
                raise PyRaise(name)
            elif isinstance(st, ast.Break):
                raise _Break()
            elif isinstance(st, ast.Continue):
                raise _Continue()
            elif isinstance(st, ast.Expr):
                v = st.value
                if isinstance(v, ast.Call):
                    try:
                        callee = ast.unparse(v.func)
                    except Exception:
                        callee = ""
                    if (callee == "print" or callee.startswith(("logger.", "logging.", "log.", "_log.", "LOGGER.", "warnings.", "sys.stderr.", "sys.stdout.write"))) and callee.split(".")[0] not in self.env:  # (a local variable that happens to be called `log` is data, not a logger)
                        try:
                            self.ev(v)
                        except Unsupported:
                            pass  # diagnostics whose value is discarded do not influence the fragment's result
                        continue
                self.ev(st.value)
            else:
                raise Unsupported(f"statement {type(st).__name__}")
