"""E1 -- repository model: modules, import maps, classes, MRO, functions, opcode registry."""

from __future__ import annotations

import ast
import pickletools
import sys
from dataclasses import dataclass, field
from pathlib import Path
from typing import Dict, Iterable, List, Optional, Tuple

from .report import REPO, AnalysisError

PY = (3, 12)


def dotted(e: ast.AST) -> Optional[str]:
    """`a.b.c` for a Name/Attribute chain, else None."""
    parts = []
    while isinstance(e, ast.Attribute):
        parts.append(e.attr)
        e = e.value
    if isinstance(e, ast.Name):
        parts.append(e.id)
        return ".".join(reversed(parts))
    return None


def _version_test(test: ast.AST) -> Optional[bool]:
    """Fold `sys.version_info <op> (a, b)` for the interpreter the checks reason about (3.12)."""
    if isinstance(test, ast.UnaryOp) and isinstance(test.op, ast.Not):
        v = _version_test(test.operand)
        return None if v is None else not v
    if not (isinstance(test, ast.Compare) and len(test.ops) == 1):
        return None
    left, right = test.left, test.comparators[0]
    if dotted(left) not in ("sys.version_info", "version_info"):
        return None
    if not isinstance(right, ast.Tuple) or not all(isinstance(x, ast.Constant) for x in right.elts):
        return None
    r = tuple(x.value for x in right.elts)
    l = PY[: len(r)] if len(r) <= 2 else PY + (0,) * (len(r) - 2)
    op = test.ops[0]
    if isinstance(op, ast.Lt):
        return l < r
    if isinstance(op, ast.LtE):
        return l <= r
    if isinstance(op, ast.Gt):
        return l > r
    if isinstance(op, ast.GtE):
        return l >= r
    if isinstance(op, ast.Eq):
        return l == r
    if isinstance(op, ast.NotEq):
        return l != r
    return None


class _PruneVersion(ast.NodeTransformer):
    def visit_If(self, node: ast.If):
        self.generic_visit(node)
        v = _version_test(node.test)
        if v is None:
            return node
        chosen = node.body if v else node.orelse
        return chosen or [ast.copy_location(ast.Pass(), node)]


_TERMINATORS = (ast.Return, ast.Raise, ast.Break, ast.Continue)


class _NormaliseIf(ast.NodeTransformer):
    """Spelling normalisation applied to every module before any rule looks at it (semantics-preserving):

    * `if not X: A else: B`            ->  `if X: B else: A`        (only when there is an else branch)
    * `if X: ...; <terminator> else: B` ->  `if X: ...; <terminator>` followed by B
      (the else of a branch that cannot fall through is the code after the if)

    so that rules written against one spelling of a two-way branch hold for the mirrored one."""

    def _flip(self, node: ast.If):
        while node.orelse and isinstance(node.test, ast.UnaryOp) and isinstance(node.test.op, ast.Not):
            node.test = node.test.operand
            node.body, node.orelse = node.orelse, node.body
        return node

    def _block(self, stmts):
        out = []
        for st in stmts:
            st = self.visit(st)
            if isinstance(st, list):
                out.extend(st)
                continue
            if isinstance(st, ast.If):
                # `if a:\n    if b: X` (no else anywhere)  ->  `if a and b: X`
                while not st.orelse and len(st.body) == 1 and isinstance(st.body[0], ast.If) and not st.body[0].orelse:
                    inner = st.body[0]
                    vals = (st.test.values if isinstance(st.test, ast.BoolOp) and isinstance(st.test.op, ast.And) else [st.test]) + (inner.test.values if isinstance(inner.test, ast.BoolOp) and isinstance(inner.test.op, ast.And) else [inner.test])
                    st.test = ast.copy_location(ast.BoolOp(op=ast.And(), values=list(vals)), st.test)
                    st.body = inner.body
                if not (st.orelse and st.body and isinstance(st.body[-1], _TERMINATORS) and not isinstance(st.orelse[-1], _TERMINATORS)):
                    st = self._flip(st)  # a guard `if not X: raise ... else: <rest that falls through>` keeps its test and is flattened below
                if st.orelse and st.body and isinstance(st.body[-1], _TERMINATORS):
                    tail = st.orelse
                    st.orelse = []
                    out.append(st)
                    out.extend(self._block_done(tail))
                    continue
            out.append(st)
        return out

    def _block_done(self, stmts):
        # statements already visited; only re-apply the flattening at this level
        out = []
        for st in stmts:
            if isinstance(st, ast.If) and st.orelse and st.body and isinstance(st.body[-1], _TERMINATORS):
                tail = st.orelse
                st.orelse = []
                out.append(st)
                out.extend(self._block_done(tail))
            else:
                out.append(st)
        return out

    def visit_FunctionDef(self, node):
        counts = {}
        for n in ast.walk(node):
            if isinstance(n, ast.Name):
                counts[n.id] = counts.get(n.id, 0) + 1
        prev = getattr(self, "_counts", None)
        self._counts = counts
        try:
            return self.generic_visit(node)
        finally:
            self._counts = prev

    visit_AsyncFunctionDef = visit_FunctionDef

    def _inline_returns(self, stmts):
        """`x = E; return x` with x used nowhere else in the function  ->  `return E`."""
        counts = getattr(self, "_counts", None)
        if not counts:
            return stmts
        out = []
        i = 0
        while i < len(stmts):
            st = stmts[i]
            nx = stmts[i + 1] if i + 1 < len(stmts) else None
            if (
                isinstance(st, ast.Assign) and len(st.targets) == 1 and isinstance(st.targets[0], ast.Name)
                and isinstance(nx, ast.Return) and isinstance(nx.value, ast.Name) and nx.value.id == st.targets[0].id
                and counts.get(st.targets[0].id, 0) == 2
            ):
                out.append(ast.copy_location(ast.Return(value=st.value), st))
                i += 2
                continue
            # `t = E; <simple statement using t exactly once>` with t used nowhere else: substitute (the inverse of 'introduce a
            # temporary for an argument'); never into a nested scope (lambda / comprehension / def), whose body runs later
            if (
                isinstance(st, ast.Assign) and len(st.targets) == 1 and isinstance(st.targets[0], ast.Name)
                and isinstance(st.value, ast.Call)
                and isinstance(nx, (ast.Expr, ast.Assign, ast.AugAssign, ast.Return, ast.AnnAssign))
                and counts.get(st.targets[0].id, 0) == 2
            ):
                name = st.targets[0].id
                use = [n for n in ast.walk(nx) if isinstance(n, ast.Name) and n.id == name]
                nested = any(isinstance(sc, (ast.Lambda, ast.ListComp, ast.SetComp, ast.DictComp, ast.GeneratorExp, ast.FunctionDef)) and any(u is x for x in ast.walk(sc) for u in use) for sc in ast.walk(nx))
                if len(use) == 1 and isinstance(use[0].ctx, ast.Load) and not nested:
                    val = st.value

                    class _Sub(ast.NodeTransformer):
                        def visit_Name(self, n, _u=use[0], _v=val):
                            return _v if n is _u else n

                    stmts[i + 1] = _Sub().visit(nx)
                    i += 1
                    continue
            out.append(st)
            i += 1
        return out

    def generic_visit(self, node):
        for fld in ("body", "orelse", "finalbody"):
            v = getattr(node, fld, None)
            if isinstance(v, list) and v and isinstance(v[0], ast.stmt):
                setattr(node, fld, self._inline_returns(self._block(v)))
        if isinstance(node, ast.Try):
            for h in node.handlers:
                h.body = self._inline_returns(self._block(h.body))
        if isinstance(node, ast.Match):
            for c in node.cases:
                c.body = self._block(c.body)
        return node


def _canonical_import_aliases(tree: ast.Module) -> ast.Module:
    """`import pickle as pkl` at module level is analysed as `import pickle` (every `pkl` renamed back), provided neither
    name is bound to anything else in the module.  Rules can then recognise a standard module by its real name."""
    cands = {}
    for st in tree.body:
        if isinstance(st, ast.Import):
            for a in st.names:
                if a.asname and "." not in a.name and a.asname != a.name:
                    cands[a.asname] = a.name
    if not cands:
        return tree
    bound: Dict[str, int] = {}
    for n in ast.walk(tree):
        names = []
        if isinstance(n, ast.Name) and isinstance(n.ctx, (ast.Store, ast.Del)):
            names.append(n.id)
        elif isinstance(n, (ast.FunctionDef, ast.AsyncFunctionDef, ast.ClassDef)):
            names.append(n.name)
        elif isinstance(n, ast.arg):
            names.append(n.arg)
        elif isinstance(n, (ast.Import, ast.ImportFrom)):
            for a in n.names:
                names.append((a.asname or a.name).split(".")[0])
        elif isinstance(n, ast.ExceptHandler) and n.name:
            names.append(n.name)
        elif isinstance(n, (ast.Global, ast.Nonlocal)):
            names.extend(n.names)
        for x in names:
            bound[x] = bound.get(x, 0) + 1
    ren = {alias: real for alias, real in cands.items() if bound.get(alias, 0) == 1 and bound.get(real, 0) == 0}
    if not ren:
        return tree
    for n in ast.walk(tree):
        if isinstance(n, ast.Name) and n.id in ren:
            n.id = ren[n.id]
        elif isinstance(n, ast.Import):
            for a in n.names:
                if a.asname in ren and ren[a.asname] == a.name:
                    a.asname = None
    return tree


@dataclass
class FuncInfo:
    qualname: str
    node: ast.AST  # FunctionDef | AsyncFunctionDef | Lambda
    module: "Module"
    cls: Optional["ClassInfo"] = None
    kind: str = "function"  # function|method|staticmethod|classmethod|property|setter|nested|lambda
    parent: Optional["FuncInfo"] = None

    @property
    def name(self) -> str:
        return getattr(self.node, "name", "<lambda>")

    @property
    def file(self) -> str:
        return self.module.relpath

    @property
    def line(self) -> int:
        return getattr(self.node, "lineno", 0)

    def params(self) -> List[str]:
        a = self.node.args
        names = [x.arg for x in a.posonlyargs + a.args]
        if a.vararg:
            names.append(a.vararg.arg)
        names += [x.arg for x in a.kwonlyargs]
        if a.kwarg:
            names.append(a.kwarg.arg)
        return names

    def __hash__(self):
        return hash(self.qualname)

    def __eq__(self, other):
        return isinstance(other, FuncInfo) and other.qualname == self.qualname

    def __repr__(self):
        return f"<func {self.qualname}>"


@dataclass
class ClassInfo:
    module: "Module"
    name: str
    node: ast.ClassDef
    bases: List[str] = field(default_factory=list)  # resolved qualified names
    methods: Dict[str, List[FuncInfo]] = field(default_factory=dict)
    attrs: Dict[str, ast.AST] = field(default_factory=dict)  # class-level assignments (last wins)
    attr_annotations: Dict[str, ast.AST] = field(default_factory=dict)
    order: int = 0  # definition order across the repo model

    @property
    def qualname(self) -> str:
        return f"{self.module.name}.{self.name}"

    def method(self, name: str, kind: Optional[str] = None) -> Optional[FuncInfo]:
        fs = self.methods.get(name, [])
        # `@typing.overload` stubs are placeholders: the definition that follows them is the method
        real = [f for f in fs if not any((dotted(d) or "").split(".")[-1] == "overload" for d in getattr(f.node, "decorator_list", []))] or fs
        for f in real:
            if kind is None and f.kind not in ("setter", "deleter"):
                return f
            if kind is not None and f.kind == kind:
                return f
        return None

    def __hash__(self):
        return hash(self.qualname)

    def __eq__(self, other):
        return isinstance(other, ClassInfo) and other.qualname == self.qualname

    def __repr__(self):
        return f"<class {self.qualname}>"


@dataclass
class Module:
    name: str
    path: Path
    relpath: str
    src: str
    tree: ast.Module
    imports: Dict[str, str] = field(default_factory=dict)
    star_imports: List[str] = field(default_factory=list)
    classes: Dict[str, ClassInfo] = field(default_factory=dict)
    functions: Dict[str, FuncInfo] = field(default_factory=dict)
    assigns: Dict[str, List[ast.AST]] = field(default_factory=dict)  # top-level name -> value exprs
    body_func: Optional[FuncInfo] = None

    def __hash__(self):
        return hash(self.name)

    def __repr__(self):
        return f"<module {self.name}>"


def _decorators(node) -> List[str]:
    out = []
    for d in getattr(node, "decorator_list", []):
        out.append(dotted(d) or (dotted(d.func) if isinstance(d, ast.Call) else None) or "?")
    return out


class Repo:
    """Parsed model of `<repo>/fickling/*.py` (plus, optionally, other directories)."""

    def __init__(self, root: Path = REPO, package: str = "fickling", extra_files: Iterable[Path] = ()):
        self.root = Path(root)
        self.package = package
        self.modules: Dict[str, Module] = {}
        self.classes: Dict[str, ClassInfo] = {}
        self.functions: Dict[str, FuncInfo] = {}
        self._mro_cache: Dict[str, List[str]] = {}
        self._class_counter = 0
        pkg_dir = self.root / package
        if not pkg_dir.is_dir():
            raise AnalysisError(f"package directory {pkg_dir} not found")
        files = sorted(pkg_dir.rglob("*.py"))
        if not files:
            raise AnalysisError(f"no python sources under {pkg_dir}")
        for p in files:
            relmod = p.relative_to(self.root).with_suffix("")
            parts = list(relmod.parts)
            if parts[-1] == "__init__":
                parts = parts[:-1]
            self._load(".".join(parts), p, is_pkg=p.name == "__init__.py")
        for p in extra_files:
            self._load(Path(p).stem, Path(p), is_pkg=False)
        for m in self.modules.values():
            self._index(m)
        # star imports once everything is indexed
        for m in self.modules.values():
            for src in m.star_imports:
                sm = self.modules.get(src)
                if sm:
                    for n in list(sm.classes) + list(sm.functions) + list(sm.assigns) + list(sm.imports):
                        if not n.startswith("_"):
                            m.imports.setdefault(n, self.resolve_qual(f"{src}.{n}"))
        for c in self.classes.values():
            c.bases = [self.resolve_expr(c.module, b) or "?" for b in c.node.bases]
        self.inlined: List[str] = []
        self._inline_trivial_helpers()

    # ------------------------------------------------------------------ helper inlining (spelling normalisation)
    @staticmethod
    def _strip_doc(body):
        return body[1:] if body and isinstance(body[0], ast.Expr) and isinstance(body[0].value, ast.Constant) and isinstance(body[0].value.value, str) else body

    @staticmethod
    def _simple_arg(e: ast.AST) -> bool:
        while isinstance(e, ast.Attribute):
            e = e.value
        return isinstance(e, (ast.Name, ast.Constant))

    def _inline_trivial_helpers(self):
        """'Extract method' undone before any rule looks at the code (semantics-preserving, one level deep):

        * a call of a helper whose whole body is `return <expr>` (module-level function of the same module, or a method of
          the same class called on self/cls), with plain names / attribute chains / constants as arguments, is replaced by
          that expression with the parameters substituted;
        * a statement `self.<m>()` where `<m>` takes nothing but self, returns nothing and defines nothing that clashes with
          the caller's locals is replaced by the body of `<m>`.

        The helpers themselves stay in the model and are analysed as functions of their own."""
        import copy

        def locals_of(fn_node) -> set:
            out = {a.arg for a in ast.walk(fn_node.args) if isinstance(a, ast.arg)}
            for n in ast.walk(fn_node):
                if isinstance(n, ast.Name) and isinstance(n.ctx, (ast.Store, ast.Del)):
                    out.add(n.id)
            return out

        def private(callee: Optional[FuncInfo]) -> bool:
            # public functions are API: rules (and readers) know them by name; what 'extract method' produces is private
            return callee is not None and callee.name.startswith("_") and not callee.name.startswith("__")

        def expr_helper(callee: Optional[FuncInfo], is_method: bool):
            if not private(callee):
                return None
            if callee is None or callee.kind not in ("function", "method", "staticmethod", "classmethod"):
                return None
            node = callee.node
            if not isinstance(node, ast.FunctionDef) or node.decorator_list and callee.kind in ("function", "method"):
                return None
            a = node.args
            if a.vararg or a.kwarg or a.kwonlyargs or a.defaults or a.posonlyargs:
                return None
            body = self._strip_doc(node.body)
            if len(body) != 1 or not isinstance(body[0], ast.Return) or body[0].value is None:
                return None
            ex = body[0].value
            if any(isinstance(x, (ast.Lambda, ast.ListComp, ast.SetComp, ast.DictComp, ast.GeneratorExp, ast.Yield, ast.YieldFrom, ast.Await, ast.NamedExpr)) for x in ast.walk(ex)):
                return None
            return [x.arg for x in a.args], ex

        def stmt_helper(callee: Optional[FuncInfo], allow_return_value: bool):
            """(params, body) of a private helper whose statements can stand in for a call statement."""
            if not private(callee):
                return None
            if callee is None or callee.kind not in ("method", "function", "staticmethod", "classmethod"):
                return None
            node = callee.node
            if not isinstance(node, ast.FunctionDef) or (node.decorator_list and callee.kind in ("method", "function")):
                return None
            a = node.args
            if a.vararg or a.kwarg or a.kwonlyargs or a.defaults or a.posonlyargs:
                return None
            body = self._strip_doc(node.body)
            if not body or any(isinstance(x, (ast.Yield, ast.YieldFrom, ast.Await, ast.FunctionDef, ast.AsyncFunctionDef, ast.ClassDef, ast.Lambda, ast.Global, ast.Nonlocal)) for st in body for x in ast.walk(st)):
                return None
            rets = [x for st in body for x in ast.walk(st) if isinstance(x, ast.Return)]
            if not allow_return_value and rets:
                return None
            params = [x.arg for x in a.args]
            if any(isinstance(x, ast.Name) and isinstance(x.ctx, (ast.Store, ast.Del)) and x.id in params for st in body for x in ast.walk(st)):
                return None
            return params, body

        for f in list(self.functions.values()):
            if f.kind in ("module", "lambda") or not isinstance(f.node, (ast.FunctionDef, ast.AsyncFunctionDef)):
                continue
            flocals = locals_of(f.node)

            def resolve(call: ast.Call):
                fn = call.func
                if isinstance(fn, ast.Name) and fn.id not in flocals:
                    lk = f.module.functions.get(fn.id)
                    return (lk, False, None) if lk is not None and lk is not f else (None, False, None)
                if isinstance(fn, ast.Attribute) and isinstance(fn.value, ast.Name) and fn.value.id in ("self", "cls") and f.cls is not None and f.params()[:1] == [fn.value.id]:
                    # not overridden anywhere below the class that defines it
                    m = self.find_method(f.cls, fn.attr)
                    if m is None or m is f or m.kind in ("property", "setter"):
                        return (None, True, None)
                    if any(k is not m.cls and k.method(fn.attr) is not None for k in self.subclasses(m.cls)):
                        return (None, True, None)
                    return (m, True, fn.value)
                return (None, False, None)

            class Inl(ast.NodeTransformer):
                def visit_FunctionDef(s, node):
                    return node if node is not f.node else s.generic_visit(node)

                visit_AsyncFunctionDef = visit_Lambda = visit_ClassDef = visit_FunctionDef

                def visit_Call(s, node):
                    s.generic_visit(node)
                    if node.keywords or any(isinstance(x, ast.Starred) for x in node.args) or not all(Repo._simple_arg(x) for x in node.args):
                        return node
                    callee, is_m, recv = resolve(node)
                    h = expr_helper(callee, is_m)
                    if h is None:
                        return node
                    params, ex = h
                    args = list(node.args)
                    if is_m and callee.kind in ("method", "classmethod"):
                        args = [recv] + args
                    if len(params) != len(args):
                        return node
                    free = {x.id for x in ast.walk(ex) if isinstance(x, ast.Name)} - set(params)
                    if free & flocals:
                        return node
                    sub = dict(zip(params, args))
                    new = copy.deepcopy(ex)

                    class Sub(ast.NodeTransformer):
                        def visit_Name(s2, n):
                            return copy.deepcopy(sub[n.id]) if n.id in sub and isinstance(n.ctx, ast.Load) else n

                    new = Sub().visit(new)
                    for x in ast.walk(new):
                        if hasattr(x, "lineno"):
                            x.lineno = node.lineno
                    self.inlined.append(f"{f.qualname}: {callee.qualname}(...) -> expression")
                    return ast.copy_location(new, node)

            def substitute(body, params, args):
                sub = {p: a for p, a in zip(params, args) if not (isinstance(a, ast.Name) and a.id == p)}
                new = copy.deepcopy(body)
                if not sub:
                    return new

                class Sub(ast.NodeTransformer):
                    def visit_Name(s2, n):
                        return copy.deepcopy(sub[n.id]) if n.id in sub and isinstance(n.ctx, ast.Load) else n

                return [Sub().visit(st) for st in new]

            def try_inline(call: ast.Call, allow_return_value: bool):
                if call.keywords or any(isinstance(x, ast.Starred) for x in call.args) or not all(Repo._simple_arg(x) for x in call.args):
                    return None
                callee, is_m, recv = resolve(call)
                h = stmt_helper(callee, allow_return_value)
                if h is None:
                    return None
                params, body = h
                args = list(call.args)
                if is_m and callee.kind in ("method", "classmethod"):
                    args = [recv] + args
                if len(params) != len(args):
                    return None
                hl = set()
                for b in body:
                    for x in ast.walk(b):
                        if isinstance(x, ast.Name) and isinstance(x.ctx, (ast.Store, ast.Del)):
                            hl.add(x.id)
                free = {x.id for b in body for x in ast.walk(b) if isinstance(x, ast.Name)} - set(params) - hl
                if (hl & flocals) or (free & flocals):
                    return None
                return callee, substitute(body, params, args)

            def inline_stmts(stmts):
                out = []
                for st in stmts:
                    for fld in ("body", "orelse", "finalbody"):
                        v = getattr(st, fld, None)
                        if isinstance(v, list) and v and isinstance(v[0], ast.stmt) and not isinstance(st, (ast.FunctionDef, ast.AsyncFunctionDef, ast.ClassDef)):
                            setattr(st, fld, inline_stmts(v))
                    if isinstance(st, ast.Try):
                        for h in st.handlers:
                            h.body = inline_stmts(h.body)
                    if isinstance(st, ast.Expr) and isinstance(st.value, ast.Call):
                        r = try_inline(st.value, False)
                        if r is not None:
                            callee, body = r
                            self.inlined.append(f"{f.qualname}: {callee.qualname}(...) statement -> {len(body)} statement(s)")
                            out.extend(body)
                            continue
                    if isinstance(st, ast.Return) and isinstance(st.value, ast.Call):
                        r = try_inline(st.value, True)
                        if r is not None:
                            callee, body = r
                            if not isinstance(body[-1], (ast.Return, ast.Raise)):
                                body = body + [ast.Return(value=ast.Constant(None))]
                            self.inlined.append(f"{f.qualname}: return {callee.qualname}(...) -> {len(body)} statement(s)")
                            out.extend(body)
                            continue
                    out.append(st)
                return out

            f.node.body = inline_stmts(f.node.body)
            Inl().visit(f.node)
            ast.fix_missing_locations(f.node)

    # ------------------------------------------------------------------ loading
    def _load(self, name: str, path: Path, is_pkg: bool):
        src = path.read_text()
        try:
            tree = ast.parse(src, filename=str(path))
        except SyntaxError as e:
            raise AnalysisError(f"cannot parse {path}: {e}")
        tree = _PruneVersion().visit(tree)
        tree = _NormaliseIf().visit(tree)
        tree = _canonical_import_aliases(tree)
        ast.fix_missing_locations(tree)
        try:
            relpath = str(path.resolve().relative_to(self.root.resolve()))
        except ValueError:
            relpath = str(path)
        m = Module(name=name, path=path, relpath=relpath, src=src, tree=tree)
        m.is_pkg = is_pkg  # type: ignore[attr-defined]
        self.modules[name] = m

    def _abs_import(self, m: Module, level: int, module: Optional[str]) -> str:
        if level == 0:
            return module or ""
        base = m.name.split(".")
        if not getattr(m, "is_pkg", False):
            base = base[:-1]
        if level > 1:
            base = base[: -(level - 1)]
        return ".".join(base + ([module] if module else []))

    def _index(self, m: Module):
        def collect_imports(body):
            for st in body:
                if isinstance(st, ast.Import):
                    for a in st.names:
                        if a.asname:
                            m.imports[a.asname] = a.name
                        else:
                            top = a.name.split(".")[0]
                            m.imports[top] = top
                elif isinstance(st, ast.ImportFrom):
                    src = self._abs_import(m, st.level, st.module)
                    for a in st.names:
                        if a.name == "*":
                            m.star_imports.append(src)
                        else:
                            m.imports[a.asname or a.name] = f"{src}.{a.name}"
                elif isinstance(st, (ast.Try, ast.If, ast.With)):
                    for sub in ast.iter_child_nodes(st):
                        pass
                    for fld in ("body", "orelse", "finalbody"):
                        collect_imports(getattr(st, fld, []))
                    for h in getattr(st, "handlers", []):
                        collect_imports(h.body)

        collect_imports(m.tree.body)

        def top_level(body):
            for st in body:
                if isinstance(st, (ast.FunctionDef, ast.AsyncFunctionDef)):
                    f = FuncInfo(f"{m.name}.{st.name}", st, m, None, "function")
                    m.functions[st.name] = f
                    self._register_func(f)
                elif isinstance(st, ast.ClassDef):
                    self._index_class(m, st)
                elif isinstance(st, ast.Assign):
                    for t in st.targets:
                        if isinstance(t, ast.Name):
                            m.assigns.setdefault(t.id, []).append(st.value)
                elif isinstance(st, ast.AnnAssign) and isinstance(st.target, ast.Name) and st.value:
                    m.assigns.setdefault(st.target.id, []).append(st.value)
                elif isinstance(st, (ast.Try, ast.If, ast.With)):
                    for fld in ("body", "orelse", "finalbody"):
                        top_level(getattr(st, fld, []))
                    for h in getattr(st, "handlers", []):
                        top_level(h.body)

        top_level(m.tree.body)
        # module body as a pseudo-function (import-time effects)
        body_fn = ast.FunctionDef(
            name="<module>",
            args=ast.arguments(posonlyargs=[], args=[], kwonlyargs=[], kw_defaults=[], defaults=[]),
            body=[
                s
                for s in m.tree.body
                if not isinstance(s, (ast.FunctionDef, ast.AsyncFunctionDef, ast.ClassDef))
            ]
            or [ast.Pass()],
            decorator_list=[],
            lineno=1,
            col_offset=0,
        )
        m.body_func = FuncInfo(f"{m.name}.<module>", body_fn, m, None, "module")
        self.functions[m.body_func.qualname] = m.body_func

    def _index_class(self, m: Module, node: ast.ClassDef):
        c = ClassInfo(m, node.name, node)
        self._class_counter += 1
        c.order = self._class_counter
        m.classes[node.name] = c
        self.classes[c.qualname] = c
        for st in node.body:
            if isinstance(st, (ast.FunctionDef, ast.AsyncFunctionDef)):
                decs = _decorators(st)
                kind = "method"
                if "property" in decs or any(d.split(".")[-1] == "cached_property" for d in decs):
                    kind = "property"
                elif any(d.endswith(".setter") for d in decs):
                    kind = "setter"
                elif any(d.endswith(".deleter") for d in decs):
                    kind = "deleter"
                elif "staticmethod" in decs:
                    kind = "staticmethod"
                elif "classmethod" in decs:
                    kind = "classmethod"
                qn = f"{c.qualname}.{st.name}" + ("" if kind not in ("setter", "deleter") else f"[{kind}]")
                f = FuncInfo(qn, st, m, c, kind)
                c.methods.setdefault(st.name, []).append(f)
                self._register_func(f)
            elif isinstance(st, ast.Assign):
                for t in st.targets:
                    if isinstance(t, ast.Name):
                        c.attrs[t.id] = st.value
            elif isinstance(st, ast.AnnAssign) and isinstance(st.target, ast.Name):
                c.attr_annotations[st.target.id] = st.annotation
                if st.value is not None:
                    c.attrs[st.target.id] = st.value

    def _register_func(self, f: FuncInfo):
        self.functions[f.qualname] = f
        # nested functions and lambdas
        n = 0
        for sub in self._direct_nested(f.node):
            if isinstance(sub, ast.Lambda):
                n += 1
                g = FuncInfo(f"{f.qualname}.<lambda#{n}>", sub, f.module, f.cls, "lambda", f)
            else:
                g = FuncInfo(f"{f.qualname}.<locals>.{sub.name}", sub, f.module, f.cls, "nested", f)
            self._register_func(g)

    @staticmethod
    def _direct_nested(fn_node) -> List[ast.AST]:
        out = []

        def walk(n):
            for ch in ast.iter_child_nodes(n):
                if isinstance(ch, (ast.FunctionDef, ast.AsyncFunctionDef, ast.Lambda)):
                    out.append(ch)
                elif isinstance(ch, ast.ClassDef):
                    continue
                else:
                    walk(ch)

        body = fn_node.body if isinstance(fn_node.body, list) else [fn_node.body]
        for st in body:
            if isinstance(st, (ast.FunctionDef, ast.AsyncFunctionDef, ast.Lambda)):
                out.append(st)
            else:
                walk(st)
        return out

    def nested_of(self, f: FuncInfo) -> List[FuncInfo]:
        return [g for g in self.functions.values() if g.parent is f]

    # ------------------------------------------------------------------ resolution
    def resolve_qual(self, qual: str, depth: int = 0) -> str:
        """Follow re-exports: `fickling.load` -> `fickling.loader.load`."""
        if depth > 8:
            return qual
        parts = qual.split(".")
        for i in range(len(parts), 0, -1):
            mod = ".".join(parts[:i])
            if mod in self.modules:
                rest = parts[i:]
                if not rest:
                    return qual
                m = self.modules[mod]
                head = rest[0]
                if head in m.classes or head in m.functions or head in m.assigns:
                    return qual
                if head in m.imports:
                    return self.resolve_qual(".".join([m.imports[head]] + rest[1:]), depth + 1)
                sub = f"{mod}.{head}"
                if sub in self.modules:
                    continue
                return qual
        return qual

    def resolve_expr(self, m: Module, e: ast.AST, local_names: Iterable[str] = ()) -> Optional[str]:
        """Qualified name of a Name/Attribute chain as seen from module `m` (None if not a chain or
        rooted in a local)."""
        if isinstance(e, ast.Subscript):  # Generic[T], MutableSequence["Opcode"]
            return self.resolve_expr(m, e.value, local_names)
        d = dotted(e)
        if d is None:
            return None
        head, *rest = d.split(".")
        if head in local_names:
            return None
        if head in m.classes or head in m.functions or head in m.assigns:
            # alias assignment at module level: X = Y
            if head in m.assigns and head not in m.classes and head not in m.functions:
                vals = m.assigns[head]
                if len(vals) == 1:
                    v0 = vals[0]
                    # a decorator applied by hand keeps the callee: X = functools.lru_cache(...)(Y), X = functools.wraps(Y)(Z)
                    if isinstance(v0, ast.Call) and len(v0.args) == 1 and not v0.keywords and (dotted(v0.args[0]) or isinstance(v0.args[0], ast.Subscript)):
                        deco = v0.func.func if isinstance(v0.func, ast.Call) else v0.func
                        if (dotted(deco) or "").split(".")[-1] in ("lru_cache", "cache", "wraps", "partial", "staticmethod", "classmethod"):
                            v0 = v0.args[0]
                    tgt = self.resolve_expr(m, v0) if dotted(v0) or isinstance(v0, ast.Subscript) else None
                    if tgt and tgt != f"{m.name}.{head}":
                        return self.resolve_qual(".".join([tgt] + rest))
            return self.resolve_qual(".".join([f"{m.name}.{head}"] + rest))
        if head in m.imports:
            return self.resolve_qual(".".join([m.imports[head]] + rest))
        import builtins

        if hasattr(builtins, head):
            return ".".join([f"builtins.{head}"] + rest)
        return None

    def lookup(self, qual: str):
        """ClassInfo | FuncInfo | Module | None for a qualified name (methods through MRO)."""
        qual = self.resolve_qual(qual)
        if qual in self.modules:
            return self.modules[qual]
        if qual in self.classes:
            return self.classes[qual]
        if qual in self.functions:
            return self.functions[qual]
        if "." in qual:
            owner, attr = qual.rsplit(".", 1)
            c = self.classes.get(self.resolve_qual(owner))
            if c is not None:
                return self.find_method(c, attr)
        return None

    # ------------------------------------------------------------------ hierarchy
    def mro(self, c: ClassInfo) -> List[str]:
        """C3 linearisation over qualified names; unknown/external bases are leaves."""
        if c.qualname in self._mro_cache:
            return self._mro_cache[c.qualname]

        def lin(q: str, seen: Tuple[str, ...]) -> List[str]:
            if q in seen:
                raise AnalysisError(f"cyclic class hierarchy at {q}")
            ci = self.classes.get(q)
            if ci is None:
                return [q]
            seqs = [lin(b, seen + (q,)) for b in ci.bases] + [list(ci.bases)]
            res = [q]
            seqs = [s for s in seqs if s]
            while seqs:
                for s in seqs:
                    cand = s[0]
                    if not any(cand in t[1:] for t in seqs):
                        break
                else:
                    raise AnalysisError(f"inconsistent MRO for {q}")
                res.append(cand)
                seqs = [[x for x in s if x != cand] for s in seqs]
                seqs = [s for s in seqs if s]
            return res

        out = lin(c.qualname, ())
        self._mro_cache[c.qualname] = out
        return out

    def mro_classes(self, c: ClassInfo) -> List[ClassInfo]:
        return [self.classes[q] for q in self.mro(c) if q in self.classes]

    def is_subclass(self, c: ClassInfo, base_qual: str) -> bool:
        return base_qual in self.mro(c)

    def subclasses(self, base: ClassInfo, strict: bool = False) -> List[ClassInfo]:
        out = [
            c
            for c in self.classes.values()
            if base.qualname in self.mro(c) and not (strict and c is base)
        ]
        return sorted(out, key=lambda c: c.order)

    def find_method(self, c: ClassInfo, name: str, kind: Optional[str] = None) -> Optional[FuncInfo]:
        for k in self.mro_classes(c):
            f = k.method(name, kind)
            if f is not None:
                return f
        return None

    def find_attr(self, c: ClassInfo, name: str) -> Optional[Tuple[ClassInfo, ast.AST]]:
        for k in self.mro_classes(c):
            if name in k.attrs:
                return k, k.attrs[name]
        return None

    def cls(self, qual: str) -> ClassInfo:
        c = self.classes.get(qual)
        if c is None:
            raise AnalysisError(f"anchor class {qual} not found in the source")
        return c

    def func(self, qual: str) -> FuncInfo:
        f = self.lookup(qual)
        if not isinstance(f, FuncInfo):
            raise AnalysisError(f"anchor function {qual} not found in the source")
        return f

    def module(self, name: str) -> Module:
        m = self.modules.get(name)
        if m is None:
            raise AnalysisError(f"anchor module {name} not found in the source")
        return m


# ---------------------------------------------------------------------- opcode registry
@dataclass
class OpcodeClass:
    cls: ClassInfo
    opname: str
    info: pickletools.OpcodeInfo


def opcode_registry(repo: Repo) -> Tuple[List[OpcodeClass], List[str]]:
    """Every subclass of fickle.Opcode bound to its pickletools row, mirroring
    `Opcode.__init_subclass__` (the exempt abstract bases are read from that method's tuple)."""
    base = repo.cls("fickling.fickle.Opcode")
    isc = base.method("__init_subclass__")
    if isc is None:
        raise AnalysisError("Opcode.__init_subclass__ not found: cannot derive the opcode registry")
    exempt: Optional[List[str]] = None
    for n in ast.walk(isc.node):
        if (
            isinstance(n, ast.Compare)
            and dotted(n.left) == "cls.__name__"
            and len(n.ops) == 1
            and isinstance(n.ops[0], ast.NotIn)
            and isinstance(n.comparators[0], (ast.Tuple, ast.List, ast.Set))
        ):
            exempt = [e.value for e in n.comparators[0].elts if isinstance(e, ast.Constant)]
    if exempt is None:
        raise AnalysisError(
            "Opcode.__init_subclass__: `cls.__name__ not in (...)` exemption tuple not recognised"
        )
    # the registration statement must still be there
    registers = any(
        isinstance(n, ast.Assign)
        and isinstance(n.targets[0], ast.Subscript)
        and dotted(n.targets[0].value) == "OPCODES_BY_NAME"
        for n in ast.walk(isc.node)
    )
    if not registers:
        raise AnalysisError("Opcode.__init_subclass__ no longer fills OPCODES_BY_NAME")
    by_name = {o.name: o for o in pickletools.opcodes}
    out: List[OpcodeClass] = []
    seen = {}
    for c in repo.subclasses(base, strict=True):
        if c.name in exempt:
            continue
        found = repo.find_attr(c, "name")
        if found is None or not isinstance(found[1], ast.Constant) or not isinstance(found[1].value, str):
            raise AnalysisError(f"opcode class {c.qualname} has no literal `name`")
        opname = found[1].value
        if found[0] is not c:
            # inherits its parent's name: Opcode.__init_subclass__ raises "already defined"
            raise AnalysisError(f"opcode class {c.qualname} inherits name {opname!r} (import would fail)")
        if opname in seen:
            raise AnalysisError(f"opcode name {opname} registered twice ({seen[opname]}, {c.qualname})")
        if opname not in by_name:
            raise AnalysisError(f"{c.qualname}.name = {opname!r} is not a pickletools opcode")
        seen[opname] = c.qualname
        out.append(OpcodeClass(c, opname, by_name[opname]))
    return out, exempt


_REPO_CACHE: Dict[str, Repo] = {}


def load_repo(root: Path = REPO) -> Repo:
    k = str(root)
    if k not in _REPO_CACHE:
        _REPO_CACHE[k] = Repo(root)
    return _REPO_CACHE[k]
