"""Object-model layer over sa/minieval.py: interprets *methods of the repository's own classes* on abstract instances.

What it adds to the pure-fragment evaluator:

* `ClassRef` (one per ClassInfo, identity-stable): attribute lookup through the C3 MRO of the repo model (class-body
  assignments are folded in their class scope; attributes stored by `__init_subclass__` are obtained by interpreting the
  `__init_subclass__` chain with `cls` bound to the class), calling it builds an `Instance` by interpreting `__init__`;
* `Instance`: per-object fields, then the class; `@property` getters, bound methods, classmethods, staticmethods, `super()`;
* module globals on demand (classes, functions, enum members, plain constants of the defining module);
* a small table of *specification* callables that are executed for real because they are the reader's side of the
  agreement or pure arithmetic on already-concrete values: `struct.pack/calcsize`, `repr`, `len`, `sorted`, `issubclass`.

Nothing of the analysed package is imported or executed by Python itself: every statement of fickling that "runs" is walked
by this interpreter over the representative values the caller supplies; an unsupported construct raises `Unsupported`
(-> ANALYSIS-ERROR at the caller), a Python exception the fragment would raise is `PyRaise`.
"""

from __future__ import annotations

import ast
import pickletools
import struct
from typing import Any, Dict, List, Optional, Tuple

from .minieval import PyIter, _MISSING, Evaluator, PyRaise, Record, ReturnValue, Unsupported
from .model import ClassInfo, FuncInfo, Module, Repo, dotted

_PT = {o.name: o for o in pickletools.opcodes}
MAX_DEPTH = 40


class ClassRef:
    sa_callable = True

    def __init__(self, oe: "ObjEval", c: ClassInfo):
        self.oe, self.c = oe, c

    def sa_attr(self, name: str):
        return self.oe.class_getattr(self.c, name, self)

    def sa_setattr(self, name: str, v):
        self.oe.class_store.setdefault(self.c.qualname, {})[name] = v

    def __call__(self, *args, **kw):
        return self.oe.instantiate(self.c, list(args), kw)

    def sa_iter(self):
        if "enum.Enum" in self.oe.repo.mro(self.c):
            return self.oe.enum_members(self.c)
        raise PyRaise("TypeError")

    def sa_getitem(self, key):
        if "enum.Enum" in self.oe.repo.mro(self.c):
            for m in self.oe.enum_members(self.c):
                if m[1]["name"] == key:
                    return m
            raise PyRaise("KeyError")
        raise Unsupported(f"subscript of the class {self.c.name}")

    def __repr__(self):
        return f"<class {self.c.name}>"


class Instance:
    def __init__(self, oe: "ObjEval", c: ClassInfo):
        self.oe, self.c = oe, c
        self.fields: Dict[str, Any] = {}

    def sa_attr(self, name: str):
        if self.oe.forced_attrs:
            for k in self.oe.repo.mro_classes(self.c):
                prov = self.oe.forced_attrs.get((k.qualname, name))
                if prov is not None:
                    return prov(self)
        if name in self.fields:
            return self.fields[name]
        if name == "__class__":
            return self.oe.ref(self.c)
        if name == "__dict__":
            return self.fields  # the instance dict itself: pops and stores through it are seen by later attribute reads
        return self.oe.class_getattr(self.c, name, self)

    def sa_setattr(self, name: str, v):
        for k in self.oe.repo.mro_classes(self.c):
            st = k.method(name, "setter")
            if st is not None:
                self.oe.call_func(st, [self, v], {}, k)  # a property with a setter: the setter runs
                return
            if k.method(name) is not None or name in k.attrs:
                break
        self.fields[name] = v

    def sa_iter(self):
        try:
            it = self.oe.class_getattr(self.c, "__iter__", self)
        except PyRaise:
            # no __iter__: Python's sequence protocol (and collections.abc.Sequence's mixin) - items 0, 1, ... until IndexError
            try:
                getitem = self.oe.class_getattr(self.c, "__getitem__", self)
            except PyRaise:
                raise PyRaise("TypeError")
            out = []
            i = 0
            while True:
                try:
                    out.append(getitem(i))
                except PyRaise as pe:
                    if pe.name == "IndexError":
                        break
                    raise
                i += 1
                if i > 100000:
                    raise Unsupported("unbounded sequence iteration")
            return out
        r = it()
        if isinstance(r, Instance):
            # __iter__ handed out an iterator object of the repository (often `self`): drive its __next__, lazily - consumption
            # is shared between everyone who holds it, as in Python
            try:
                nxt = r.oe.class_getattr(r.c, "__next__", r)
            except PyRaise:
                raise PyRaise("TypeError")  # iter() returned non-iterator

            def drive():
                n = 0
                while True:
                    try:
                        v = nxt()
                    except PyRaise as pe:
                        if pe.name == "StopIteration":
                            return
                        raise
                    yield v
                    n += 1
                    if n > 100000:
                        raise Unsupported("unbounded iteration")

            return PyIter(drive(), f"{r.c.name} iterator")
        return r

    # an instance inside a Python container (a list searched with `in` / .index, a dict key, a set member) answers `==` and
    # hash() the way its class says: through its interpreted __eq__ / __hash__ if it defines them, by identity otherwise
    def _user_dunder(self, name: str):
        for k in self.oe.repo.mro_classes(self.c):
            f = k.method(name)
            if f is not None:
                return f, k
        return None

    def __eq__(self, other):
        if other is self:
            return True
        u = self._user_dunder("__eq__")
        if u is None:
            return NotImplemented
        r = self.oe.call_func(u[0], [self, other], {}, u[1])
        if r is NotImplemented:
            return NotImplemented
        return bool(r)

    def __ne__(self, other):
        r = self.__eq__(other)
        return r if r is NotImplemented else not r

    def __hash__(self):
        u = self._user_dunder("__hash__")
        if u is not None:
            return self.oe.call_func(u[0], [self], {}, u[1])
        if self._user_dunder("__eq__") is not None:
            raise PyRaise("TypeError")  # a class that defines __eq__ without __hash__ is unhashable
        return object.__hash__(self)

    def __repr__(self):
        return f"<{self.c.name} instance arg={self.fields.get('arg')!r}>"


class EnumMember(tuple):
    """A member of an Enum class of the repository: ("enum-member", {"name", "value"}) for the checks that read it as data, and an
    object for the interpreted code - one per (class, name), carrying the attributes the enum's own __init__ sets, with the
    class's methods and comparison operators bound to it."""

    def __new__(cls, oe, k, name, value):
        t = tuple.__new__(cls, ("enum-member", {"name": name, "value": value}))
        t.oe, t.k, t.fields = oe, k, {}
        return t

    @property
    def c(self):
        return self.k

    def sa_attr(self, name):
        if name in ("name", "_name_"):
            return self[1]["name"]
        if name in ("value", "_value_"):
            return self[1]["value"]
        if name in self.fields:
            return self.fields[name]
        if name == "__class__":
            return self.oe.ref(self.k)
        return self.oe.class_getattr(self.k, name, self)

    def sa_setattr(self, name, v):
        self.fields[name] = v

    def __repr__(self):
        return f"<{self.k.name}.{self[1]['name']}>"

    def __hash__(self):
        return id(self)

    def __eq__(self, other):
        return self is other

    def __ne__(self, other):
        return self is not other


class BoundMethod:
    sa_callable = True

    def __init__(self, oe, f: FuncInfo, receiver, owner: ClassInfo):
        self.oe, self.f, self.receiver, self.owner = oe, f, receiver, owner

    def __call__(self, *args, **kw):
        pre = [] if self.receiver is None else [self.receiver]
        return self.oe.call_func(self.f, pre + list(args), kw, self.owner)

    def sa_attr(self, name):
        if name == "__code__":
            return ("code-of", self.f.qualname)
        if name == "__name__":
            return self.f.name
        raise Unsupported(f"attribute .{name} of a method")


class BoundClosure:
    """A function object stored on a class (by `setattr(cls, name, fn)` in __init_subclass__, or `alias = method` in the class
    body) and looked up through an instance: called with the instance as first argument."""

    sa_callable = True

    def __init__(self, fn, receiver):
        self.fn, self.receiver = fn, receiver

    def __call__(self, *args, **kw):
        return self.fn(self.receiver, *args, **kw)


class FuncRef(BoundMethod):
    def __init__(self, oe, f: FuncInfo):
        super().__init__(oe, f, None, None)


class SuperProxy:
    def __init__(self, oe, receiver, after: ClassInfo):
        self.oe, self.receiver, self.after = oe, receiver, after

    def sa_attr(self, name: str):
        c = self.receiver.c
        mro = self.oe.repo.mro_classes(c)
        if self.after not in mro:
            raise Unsupported("super() outside the receiver's MRO")
        rest = mro[mro.index(self.after) + 1:]
        for k in rest:
            f = k.method(name)
            if f is not None:
                return self.oe.bind(f, self.receiver, k)
        ext = self.oe.external_base_methods.get(name)
        if ext is not None:
            return ext(self.receiver)
        if name == "__new__":
            return _ObjectNew(self.oe)
        if name in ("__init_subclass__", "__init__"):
            return _Noop()
        raise Unsupported(f"super().{name} not found in the repo model")


class ImportTimeRegistry(dict):
    """A module-level registry that `__init_subclass__` fills while the classes are being created, supplied whole by a check
    (from the repository model).  While an `__init_subclass__` is being interpreted it answers as it did at that moment of
    the import: the class being created is not in it yet, and what the hook stores is already there."""

    def __init__(self, oe, items):
        super().__init__(items)
        self.oe = oe

    def __contains__(self, k):
        if self.oe.initsub_depth > 0:
            return False
        return dict.__contains__(self, k)

    def __setitem__(self, k, v):
        if self.oe.initsub_depth > 0:
            return
        dict.__setitem__(self, k, v)


class Native:
    """A callable supplied by a check's abstract world (the contract of something outside the repository)."""

    sa_callable = True

    def __init__(self, fn, name="native"):
        self.fn, self.name = fn, name

    def __call__(self, *a, **k):
        return self.fn(*a, **k)

    def __repr__(self):
        return f"<native {self.name}>"


class _ObjectNew:
    """object.__new__(cls): a fresh, uninitialised instance of cls."""

    sa_callable = True

    def __init__(self, oe):
        self.oe = oe

    def __call__(self, cls=None, *a, **k):
        if not isinstance(cls, ClassRef):
            raise PyRaise("TypeError")
        return Instance(self.oe, cls.c)


class _Noop:
    sa_callable = True

    def __call__(self, *a, **k):
        return None


# standard-library modules whose functions are pure functions of plain values (no I/O, no global state): admitted as the
# specification of themselves when every argument is a plain Python value
PURE_STDLIB = {"re", "copy", "bisect", "heapq", "textwrap", "string", "posixpath", "fnmatch", "keyword", "unicodedata", "operator", "itertools", "math", "_compat_pickle", "binascii", "base64", "difflib", "shlex"}


def _pure_attr(modname: str, name: str):
    import importlib

    mod = importlib.import_module(modname)
    if not hasattr(mod, name):
        raise PyRaise("AttributeError")
    v = getattr(mod, name)
    if callable(v) and not isinstance(v, type):
        def call(*a, **k):
            r = v(*a, **k)
            return list(r) if hasattr(r, "__next__") else r

        return _Spec(call, f"{modname}.{name}")
    if isinstance(v, (str, bytes, int, float, tuple, frozenset, dict, list, set)) or (modname == "re" and isinstance(v, int)):
        return v
    if modname == "itertools" and isinstance(v, type) and name not in ("count", "cycle", "repeat"):
        # itertools' iterator types, over already-evaluated values: lazy one-shot iterators like the real ones
        def make(*a, **k):
            from .minieval import _as_iterable

            args = [(_as_iterable(x) if (hasattr(x, "sa_iter") or isinstance(x, PyIter)) else x) for x in a]
            return PyIter(v(*args, **k), f"itertools.{name}")

        return _Spec(make, f"itertools.{name}")
    raise Unsupported(f"external attribute {modname}.{name}")


class RepoModuleRef:
    """A module of the repository as a value (`import fickling.loader as loader`): attribute reads are its globals."""

    def __init__(self, oe, m):
        self.oe, self.m = oe, m

    def sa_attr(self, name: str):
        v = self.oe.module_global(self.m, name)
        if v is _MISSING:
            sub = self.oe.repo.modules.get(f"{self.m.name}.{name}")
            if sub is not None:
                return RepoModuleRef(self.oe, sub)  # `import pkg.sub` makes the sub-module an attribute of the package
            raise PyRaise("AttributeError")
        return v

    def sa_setattr(self, name: str, v):
        self.oe._module_values[(self.m.name, name)] = v


class ModuleRef:
    def __init__(self, name: str, oe=None):
        self.name, self.oe = name, oe

    def sa_setattr(self, name: str, v):
        if self.oe is None:
            raise Unsupported(f"store to {self.name}.{name}")
        self.oe.module_state[(self.name, name)] = v  # rebinding an attribute of an external module: process-wide state

    def sa_attr(self, name: str):
        q = f"{self.name}.{name}"
        if self.oe is not None and (self.name, name) in self.oe.module_state:
            return self.oe.module_state[(self.name, name)]
        if self.oe is not None and q in self.oe.externals:
            return self.oe.externals[q]
        if self.name in PURE_STDLIB:
            return _pure_attr(self.name, name)
        if q in SPEC_CALLABLES:
            return SPEC_CALLABLES[q]
        if q in SPEC_CONSTANTS:
            return SPEC_CONSTANTS[q]
        if self.name == "ast" and isinstance(getattr(ast, name, None), type):
            return _PyType(getattr(ast, name))
        if self.name == "io" and isinstance(getattr(__import__("io"), name, None), type):
            return _PyType(getattr(__import__("io"), name))
        if self.name == "builtins":
            import builtins as _b

            if hasattr(_b, name):
                return Record("builtin", {"name": name})
            raise PyRaise("AttributeError")
        raise Unsupported(f"external attribute {q}")


class _Spec:
    """A real Python callable admitted into the interpretation (specification side / pure arithmetic)."""

    sa_callable = True

    def __init__(self, fn, name):
        self.fn, self.name = fn, name

    def __call__(self, *args, **kw):
        for a in list(args) + list(kw.values()):
            if isinstance(a, (ClassRef, Instance, Record, BoundMethod)):
                raise Unsupported(f"{self.name} applied to an abstract object")
        try:
            return self.fn(*args, **kw)
        except RecursionError:
            raise PyRaise("RecursionError")
        except AttributeError:
            raise PyRaise("AttributeError")
        except struct.error:
            raise PyRaise("struct.error")
        except (ValueError, TypeError, OverflowError, UnicodeError, KeyError, IndexError) as ex:
            raise PyRaise(type(ex).__name__)


def _listed(fn):
    return lambda *a, **k: list(fn(*a, **k))


def _defaultdict(factory=None):
    from collections import defaultdict

    return defaultdict(factory.t if isinstance(factory, _PyType) else factory)


class _GenopsIter(PyIter):
    """pickletools.genops over a real in-memory stream, consumed lazily (the interpreted parser moves the same stream between
    steps); each OpcodeInfo is handed out in the record form `Opcode.info` has in this interpreter."""

    def __init__(self, stream):
        self.it, self.what = pickletools.genops(stream), "genops"

    def __next__(self):
        try:
            info, arg, pos = next(self.it)
        except StopIteration:
            raise
        except Exception as ex:  # what the reader's side raises on bytes it refuses
            raise PyRaise(type(ex).__name__ if isinstance(ex, (ValueError, TypeError, OverflowError, EOFError, IndexError, KeyError)) else "ValueError")
        return (_info_record(info), arg, pos)


def _info_record(i):
    arg = None if i.arg is None else Record("ArgumentDescriptor", {"name": i.arg.name, "n": i.arg.n})
    return Record("OpcodeInfo", {"name": i.name, "code": i.code, "arg": arg, "proto": i.proto})


# decompressing readers over in-memory data (a world builds them from bytes it made up): streams like any other
_MEMORY_STREAMS = (__import__("gzip").GzipFile, __import__("zipfile").ZipExtFile)


def _genops(stream):
    import io

    if isinstance(stream, (bytes, bytearray)):
        stream = io.BytesIO(bytes(stream))
    if not isinstance(stream, (io.BytesIO, io.BufferedReader) + _MEMORY_STREAMS):
        raise Unsupported("genops over something that is not an in-memory stream")
    return _GenopsIter(stream)


def _bytesio(data=b""):
    import io

    return io.BytesIO(bytes(data))


def _compile(source, filename="<string>", mode="exec", flags=0, dont_inherit=True, optimize=-1):
    # compiling text to a code object executes nothing; never inherit this analyser's own __future__ flags
    return compile(source, filename, mode, flags, True, optimize)


def _json_dump(obj, fp, **k):
    import io as _io
    import json as _json

    if not isinstance(fp, _io.StringIO):
        raise PyRaise("TypeError")  # a file opened in binary mode, or not a file
    _json.dump(obj, fp, **k)


SPEC_CALLABLES = {
    "json.dump": _Spec(_json_dump, "json.dump"),
    "json.dumps": _Spec(__import__("json").dumps, "json.dumps"),
    "marshal.dumps": _Spec(__import__("marshal").dumps, "marshal.dumps"),
    "pickletools.genops": _Spec(_genops, "pickletools.genops"),
    "ast.unparse": _Spec(ast.unparse, "ast.unparse"),
    "ast.dump": _Spec(ast.dump, "ast.dump"),
    "ast.walk": _Spec(_listed(ast.walk), "ast.walk"),
    "ast.iter_child_nodes": _Spec(_listed(ast.iter_child_nodes), "ast.iter_child_nodes"),
    "ast.iter_fields": _Spec(_listed(ast.iter_fields), "ast.iter_fields"),
    "collections.defaultdict": _Spec(_defaultdict, "collections.defaultdict"),
    "struct.pack": _Spec(struct.pack, "struct.pack"),
    "struct.calcsize": _Spec(struct.calcsize, "struct.calcsize"),
    "struct.unpack": _Spec(struct.unpack, "struct.unpack"),
    "struct.unpack_from": _Spec(struct.unpack_from, "struct.unpack_from"),
    "struct.Struct": _Spec(struct.Struct, "struct.Struct"),
}
import pickle as _pickle_spec  # constants of the reader's side only; nothing is unpickled

SPEC_CONSTANTS = {"sys.builtin_module_names": __import__("sys").builtin_module_names, "sys.stdlib_module_names": __import__("sys").stdlib_module_names, "pickle.HIGHEST_PROTOCOL": _pickle_spec.HIGHEST_PROTOCOL, "pickle.DEFAULT_PROTOCOL": _pickle_spec.DEFAULT_PROTOCOL, "sys.maxsize": __import__("sys").maxsize, "sys.byteorder": __import__("sys").byteorder}
# pickletools' documented integer constants (argument-size markers) and pickle's opcode byte constants
SPEC_CALLABLES["sys.getrecursionlimit"] = _Spec(lambda: 1000, "sys.getrecursionlimit")  # CPython's default: what a fresh process answers
SPEC_CONSTANTS.update({f"pickletools.{k}": v for k, v in vars(__import__("pickletools")).items() if k.isupper() and isinstance(v, int)})
SPEC_CONSTANTS.update({f"pickle.{k}": v for k, v in vars(_pickle_spec).items() if k.isupper() and isinstance(v, bytes) and len(v) == 1})
_BUILTIN_SPECS = {
    "compile": _Spec(_compile, "compile"),
    "repr": _Spec(repr, "repr"), "ascii": _Spec(ascii, "ascii"),
    "abs": _Spec(abs, "abs"), "divmod": _Spec(divmod, "divmod"), "hex": _Spec(hex, "hex"), "round": _Spec(round, "round"),
}
_EXC_NAMES = {"ValueError", "TypeError", "NotImplementedError", "KeyError", "IndexError", "OverflowError", "UnicodeEncodeError", "UnicodeDecodeError", "UnicodeError", "AttributeError", "RuntimeError", "Exception", "AssertionError", "struct.error"}
_PYTYPES = {"type": type, "object": object, "int": int, "float": float, "str": str, "bytes": bytes, "bytearray": bytearray, "bool": bool, "list": list, "tuple": tuple, "dict": dict, "set": set, "frozenset": frozenset, "complex": complex, "type(None)": type(None)}


class ObjEval:
    def __init__(self, repo: Repo):
        self.repo = repo
        # exception classes the repository defines take their place in the hierarchy `except` clauses are matched against
        from . import minieval as _me

        for c in repo.classes.values():
            for b in c.node.bases:
                bn = (dotted(b) or "").split(".")[-1]
                if bn and (bn.endswith(("Error", "Exception", "Warning")) or bn in _me._EXC_PARENT) and c.name != bn:
                    _me._EXC_PARENT.setdefault(c.name, bn)
                    break
        self._refs: Dict[str, ClassRef] = {}
        self.class_store: Dict[str, Dict[str, Any]] = {}
        self._initsub_done: Dict[str, Dict[str, Any]] = {}
        self._folding: set = set()
        self.depth = 0
        self.steps = 0
        self.special_attrs = {}  # (class qualname, attr) -> value provider
        self._enum_members: Dict[tuple, Any] = {}
        self._class_values: Dict[tuple, Any] = {}
        self._module_values: Dict[tuple, Any] = {}
        self._defaults: Dict[tuple, Any] = {}
        self._memo_results: Dict[tuple, Any] = {}
        self.module_state: Dict[tuple, Any] = {}  # (external module, attribute) -> current binding
        self.func_overrides: Dict[str, Any] = {}  # qualified repo function -> stand-in supplied by a check's abstract world
        self.eval_module_calls = False
        self.initsub_depth = 0
        self.max_steps = 2_000_000
        self.module_specials: Dict[tuple, Any] = {}  # (module name, global name) -> provider(): registries filled while classes are created
        self.external_base_methods: Dict[str, Any] = {}  # method name -> factory(receiver) for methods of external base classes
        self.forced_attrs: Dict[tuple, Any] = {}  # (class qualname, attr) -> provider(instance): the abstract world's answer, whatever the instance stores
        self.externals: Dict[str, Any] = {}  # qualified external name -> callable/value supplied by a check's abstract world

    # ------------------------------------------------------------------ references
    def ref(self, c: ClassInfo) -> ClassRef:
        r = self._refs.get(c.qualname)
        if r is None:
            r = self._refs[c.qualname] = ClassRef(self, c)
        return r

    def bind(self, f: FuncInfo, receiver, owner: ClassInfo):
        if f.kind == "staticmethod":
            return BoundMethod(self, f, None, owner)
        if f.kind == "classmethod":
            cr = receiver if isinstance(receiver, ClassRef) else self.ref(receiver.c)
            return BoundMethod(self, f, cr, owner)
        if f.kind == "property":
            if isinstance(receiver, (Instance, EnumMember)):
                v = self.call_func(f, [receiver], {}, owner)
                if any((dotted(d) or "").split(".")[-1] == "cached_property" for d in f.node.decorator_list):
                    # functools.cached_property: the value lands in the instance dict under the property's own name, and the
                    # instance dict shadows the (non-data) descriptor from then on - until `del obj.name` / `__dict__.pop`
                    receiver.fields[f.name] = v
                return v
            raise Unsupported("property read on a class")
        if isinstance(receiver, (Instance, EnumMember)):
            return BoundMethod(self, f, receiver, owner)
        return BoundMethod(self, f, None, owner)  # plain function looked up on the class

    # ------------------------------------------------------------------ attribute lookup
    def class_getattr(self, c: ClassInfo, name: str, receiver):
        if name == "__name__":
            return c.name
        if name == "__qualname__":
            return c.name
        sp = self.special(c, name)
        if sp is not _MISSING:
            return sp
        mro = self.repo.mro_classes(c)
        # attributes stored on the class object at run time (by __init_subclass__ or by interpreted code)
        for k in mro:
            st = self.class_store.get(k.qualname, {})
            if name in st:
                return st[name]
            isub = self.initsub_attrs(k)
            if name in isub:
                v = isub[name]
                if v is _POISON:
                    raise Unsupported(f"{k.name}.{name} is set by an __init_subclass__ statement outside the evaluator's subset")
                from .minieval import Closure as _Closure

                if isinstance(receiver, Instance) and (isinstance(v, _Closure) or (isinstance(v, BoundMethod) and v.receiver is None)):
                    return BoundClosure(v, receiver)  # a function stored on the class, reached through an instance
                return v
            f = k.method(name)
            if f is not None:
                return self.bind(f, receiver, k)
            if name in k.attrs:
                v = self.fold_class_attr(k, name)
                if "enum.Enum" in self.repo.mro(k) and not name.startswith("_"):
                    return self.enum_member(k, name, v)
                if isinstance(v, BoundMethod) and v.receiver is None and isinstance(receiver, Instance) and v.f.kind not in ("staticmethod", "classmethod"):
                    return self.bind(v.f, receiver, v.owner or k)  # `alias = method` in the class body
                return v
        if name in ("visit", "generic_visit") and isinstance(receiver, Instance) and ("ast.NodeVisitor" in self.repo.mro(c) or "ast.NodeTransformer" in self.repo.mro(c)):
            return _NodeVisitorMethod(self, receiver, name)
        if name in self.external_base_methods and isinstance(receiver, Instance) and any(not b.startswith("fickling.") for b in self.repo.mro(c)):
            return self.external_base_methods[name](receiver)
        ext = [b for b in self.repo.mro(c) if not b.startswith("fickling.")]
        if isinstance(receiver, Instance) and any(b in ("collections.abc.MutableSequence", "collections.abc.Sequence") for b in ext):
            mx = _sequence_mixin(self, receiver, name, "collections.abc.MutableSequence" in ext)
            if mx is not None:
                return mx
        for b in ext:
            if b in ("ast.NodeVisitor", "ast.NodeTransformer"):
                continue  # modelled: visit / generic_visit above; its visit_Constant shim only forwards to generic_visit
            if _external_defines(b, name):
                # an attribute the class inherits from outside the repository: not something this interpreter can run, and not
                # an AttributeError either
                raise Unsupported(f"attribute .{name} of {c.name} is inherited from {b}")
        raise PyRaise("AttributeError")

    def enum_members(self, c: ClassInfo) -> list:
        """The members of an Enum class, in definition order (aliases - equal values - are not separate members)."""
        out = []
        for name, v in c.attrs.items():
            if name.startswith("_") or c.method(name) is not None:
                continue
            m = self.class_getattr(c, name, None)
            if isinstance(m, EnumMember) and not any(x[1]["value"] == m[1]["value"] for x in out):
                out.append(m)
        return out

    def enum_member(self, k: ClassInfo, name: str, value):
        key = (k.qualname, name)
        m = self._enum_members.get(key)
        if m is None:
            m = self._enum_members[key] = EnumMember(self, k, name, value)
            init = next((kk.method("__init__") for kk in self.repo.mro_classes(k) if kk.method("__init__") is not None), None)
            if init is not None:
                # EnumType calls __init__(member, *value) for tuple values, __init__(member, value) otherwise
                args = list(value) if isinstance(value, tuple) else [value]
                self.call_func(init, [m] + args, {}, k)
        return m

    def special(self, c: ClassInfo, name: str):
        if name == "info":
            nm = None
            for k in self.repo.mro_classes(c):
                if "name" in k.attrs and isinstance(k.attrs["name"], ast.Constant):
                    nm = k.attrs["name"].value
                    break
            if nm in _PT:
                return _info_record(_PT[nm])
            return _MISSING
        prov = self.special_attrs.get((c.qualname, name))
        if prov is not None:
            return prov()
        for k in self.repo.mro_classes(c):
            prov = self.special_attrs.get((k.qualname, name))
            if prov is not None:
                return prov()
        return _MISSING

    def fold_class_attr(self, k: ClassInfo, name: str):
        key = (k.qualname, name)
        if key in self._class_values:
            return self._class_values[key]  # a class attribute is one object for the life of the process
        v = self._fold_class_attr(k, name)
        self._class_values[key] = v
        return v

    def _fold_class_attr(self, k: ClassInfo, name: str):
        key = (k.qualname, name)
        if key in self._folding:
            raise Unsupported(f"cyclic class attribute {k.name}.{name}")
        self._folding.add(key)
        try:
            ev = OEvaluator(self, {}, k.module, cls_scope=k)
            return ev.ev(k.attrs[name])
        finally:
            self._folding.discard(key)

    def initsub_attrs(self, c: ClassInfo) -> Dict[str, Any]:
        """Attributes `__init_subclass__` implementations of c's ancestors store on c itself."""
        if c.qualname in self._initsub_done:
            return self._initsub_done[c.qualname]
        # Classes are created in definition order when their modules are imported, and each creation runs the hook: what a
        # hook leaves in shared objects (a registry list) is there, in that order, before any function of the package runs.
        # So the first time any class under a hook is looked at, the hook is run for all of them, earliest definition first.
        if not getattr(self, "_initsub_sweeping", False):
            hook = next((k.method("__init_subclass__") for k in self.repo.mro_classes(c)[1:] if k.method("__init_subclass__") is not None), None)
            if hook is not None:
                self._initsub_sweeping = True
                try:
                    peers = [k for k in self.repo.classes.values() if k.qualname not in self._initsub_done and next((a.method("__init_subclass__") for a in self.repo.mro_classes(k)[1:] if a.method("__init_subclass__") is not None), None) is hook]
                    for k in sorted(peers, key=lambda k: k.order):
                        if k is not c and k.order < c.order:
                            self.initsub_attrs(k)
                    later = [k for k in sorted(peers, key=lambda k: k.order) if k.order > c.order]
                finally:
                    self._initsub_sweeping = False
                res = self._initsub_one(c)
                self._initsub_sweeping = True
                try:
                    for k in later:
                        if k.qualname not in self._initsub_done:
                            self._initsub_one(k)
                finally:
                    self._initsub_sweeping = False
                return res
        return self._initsub_one(c)

    def _initsub_one(self, c: ClassInfo) -> Dict[str, Any]:
        if c.qualname in self._initsub_done:
            return self._initsub_done[c.qualname]
        out: Dict[str, Any] = {}
        self._initsub_done[c.qualname] = out  # re-entrancy: reads during the run see what was stored so far
        mro = self.repo.mro_classes(c)
        first = None
        for k in mro[1:]:
            f = k.method("__init_subclass__")
            if f is not None:
                first = (f, k)
                break
        if first is None:
            return out
        rec = _ClsRecorder(self, c, out)
        try:
            self.run_initsub(first[0], first[1], rec)
        except (Unsupported, PyRaise):
            # statements outside the subset: whatever any __init_subclass__ in the chain may store is unknown
            for k in mro[1:]:
                f = k.method("__init_subclass__")
                if f is not None:
                    for n in ast.walk(f.node):
                        if isinstance(n, ast.Attribute) and isinstance(n.ctx, ast.Store) and dotted(n.value) == "cls":
                            out.setdefault(n.attr, _POISON)
        return out

    def run_initsub(self, f: FuncInfo, owner: ClassInfo, rec: "_ClsRecorder"):
        env = {f.params()[0]: rec, "kwargs": {}}
        ev = OEvaluator(self, env, f.module, cls_scope=owner, func_owner=owner, lenient_stmts=True, poison=rec)
        self.initsub_depth += 1
        try:
            ev.run_body(f.node.body)
        finally:
            self.initsub_depth -= 1

    # ------------------------------------------------------------------ calls
    def instantiate(self, c: ClassInfo, args: list, kw: dict) -> Instance:
        """type.__call__: `cls.__new__(cls, *args, **kw)`, then - if that returned an instance of cls - its __init__ with the same
        arguments."""
        if "enum.Enum" in self.repo.mro(c):
            # EnumType.__call__(value): the member with that value, never a new object
            if len(args) != 1 or kw:
                raise Unsupported("functional Enum API")
            for m in self.enum_members(c):
                if m[1]["value"] == args[0]:
                    return m
            raise PyRaise("ValueError")
        inst = None
        for k in self.repo.mro_classes(c):
            nf = k.method("__new__")
            if nf is not None:
                inst = self.call_func(nf, [self.ref(c)] + list(args), dict(kw), k)
                break
        if inst is None:
            inst = Instance(self, c)
        elif not (isinstance(inst, Instance) and c in self.repo.mro_classes(inst.c)):
            return inst  # __new__ returned something else: __init__ is not called
        for k in self.repo.mro_classes(inst.c):
            f = k.method("__init__")
            if f is not None:
                self.call_func(f, [inst] + list(args), kw, k)
                break
        return inst

    def default_value(self, f: FuncInfo, name: str, expr: ast.AST):
        """A parameter default is evaluated once, when the `def` runs, and that one object is handed to every call that omits
        the argument (so a mutable default is shared by all of them, as in Python)."""
        key = (f.qualname, id(f.node), name)
        if key not in self._defaults:
            self._defaults[key] = OEvaluator(self, {}, f.module).ev(expr)
        return self._defaults[key]

    def call_func(self, f: FuncInfo, args: list, kw: dict, owner: Optional[ClassInfo]):
        memo_key = None
        if any((dotted(d.func if isinstance(d, ast.Call) else d) or "").split(".")[-1] in ("lru_cache", "cache") for d in f.node.decorator_list):
            # functools.lru_cache / cache: one result object per distinct argument tuple for the life of the process
            try:
                memo_key = (f.qualname, tuple(args), tuple(sorted(kw.items())))
                hash(memo_key)
            except TypeError:
                raise PyRaise("TypeError")
            if memo_key in self._memo_results:
                return self._memo_results[memo_key]
        r = self._call_func(f, args, kw, owner)
        if memo_key is not None:
            self._memo_results[memo_key] = r
        return r

    def _call_func(self, f: FuncInfo, args: list, kw: dict, owner: Optional[ClassInfo], original: bool = False):
        ov = None if original else self.func_overrides.get(f.qualname)
        if ov is not None:
            return ov(*args, **kw)
        self.depth += 1
        try:
            if self.depth > MAX_DEPTH:
                raise Unsupported("call depth")
            env = bind_args(f, args, kw, self, owner)
            ev = OEvaluator(self, env, f.module, cls_scope=None, func_owner=owner)
            if _is_generator(f.node):
                # a generator function is run eagerly and its values handed out through a one-shot iterator: exact whenever
                # the consumer drains it before anything else observes state the generator writes (list(...), a for loop
                # that does not touch that state) - which is how the analyses are consumed
                ev.yields = []
                ev.run_body(f.node.body)
                return PyIter(ev.yields, f"generator {f.name}")
            return ev.run_body(f.node.body)
        finally:
            self.depth -= 1

    def module_global(self, m: Module, name: str, seen=None):
        if name in m.classes:
            return self.ref(m.classes[name])
        if name in m.functions:
            return FuncRef(self, m.functions[name])
        if (m.name, name) in self._module_values:
            return self._module_values[(m.name, name)]
        if (m.name, name) in self.module_specials:
            mkey = (m.name, name)
            if mkey not in self._module_values:
                self._module_values[mkey] = self.module_specials[mkey]()
            return self._module_values[mkey]
        if name in m.assigns and len(m.assigns[name]) == 1:
            mkey = (m.name, name)
            if mkey in self._module_values:
                return self._module_values[mkey]  # a module-level name is bound once, at import, to one object
            val = self._module_assign_value(m, name)
            self._module_values[mkey] = val
            return val
        return self._module_global_rest(m, name, seen)

    def _module_assign_value(self, m: Module, name: str):
        if True:
            v = m.assigns[name][0]
            if isinstance(v, (ast.Constant, ast.Tuple, ast.List, ast.Dict, ast.BinOp, ast.UnaryOp, ast.Set)):
                return OEvaluator(self, {}, m).ev(v)
            if isinstance(v, ast.Call) and isinstance(v.func, ast.Name) and v.func.id in ("frozenset", "set", "tuple", "list", "dict") and len(v.args) <= 1 and not v.keywords:
                return OEvaluator(self, {}, m).ev(v)  # a container built once at import from constants
            if isinstance(v, (ast.Attribute, ast.Name)):
                return OEvaluator(self, {}, m).ev(v)  # an alias bound at import: X = pickle.load / alias = function
            if self.eval_module_calls and isinstance(v, (ast.Call, ast.DictComp, ast.ListComp, ast.SetComp, ast.IfExp, ast.BoolOp, ast.Lambda)):
                return OEvaluator(self, {}, m).ev(v)  # whatever else the module computes once, at import
            raise Unsupported(f"module-level name {name} = {ast.unparse(v)[:40]}")

    def _module_global_rest(self, m: Module, name: str, seen=None):
        if name in m.imports:
            q = m.imports[name]
            rq = self.repo.resolve_qual(q)
            lk = self.repo.lookup(rq)
            if isinstance(lk, ClassInfo):
                return self.ref(lk)
            if isinstance(lk, FuncInfo):
                return FuncRef(self, lk)
            if q in self.externals:
                return self.externals[q]
            if q.startswith("io.") and q.count(".") == 1 and isinstance(getattr(__import__("io"), q[3:], None), type):
                return _PyType(getattr(__import__("io"), q[3:]))  # a class of the io hierarchy, for isinstance tests
            if q in SPEC_CALLABLES:
                return SPEC_CALLABLES[q]
            if q in SPEC_CONSTANTS:
                return SPEC_CONSTANTS[q]
            if isinstance(lk, Module):
                return RepoModuleRef(self, lk)
            if (q.rsplit(".", 1)[0], q.rsplit(".", 1)[-1]) in self.module_state:
                return self.module_state[(q.rsplit(".", 1)[0], q.rsplit(".", 1)[-1])]
            if q in ("struct", "pickletools", "ast", "sys", "io", "re", "abc", "enum", "typing", "marshal", "pickle", "_pickle", "builtins", "json", "collections") or q in PURE_STDLIB:
                return ModuleRef(q, self)
            if "." in q and q.rsplit(".", 1)[0] in PURE_STDLIB:
                return _pure_attr(*q.rsplit(".", 1))
            if q.startswith("typing.") or q in ("abc.ABC", "abc.abstractmethod", "enum.Enum"):
                return Record("typing", {"name": q})
            sc = _stdlib_class(q)
            if sc is not None:
                return sc
            raise Unsupported(f"imported name {name} -> {q}")
        return _MISSING


_POISON = object()


def _rec_eq(a, b) -> bool:
    if isinstance(a, Record) and isinstance(b, Record):
        return a is b or (a.cls == b.cls and a.fields.keys() == b.fields.keys() and all(_rec_eq(a.fields[k], b.fields[k]) for k in a.fields))
    if isinstance(a, Record) or isinstance(b, Record):
        return False
    return a == b


def _is_generator(fn: ast.AST) -> bool:
    todo = list(fn.body)
    while todo:
        n = todo.pop()
        if isinstance(n, (ast.Yield, ast.YieldFrom)):
            return True
        if isinstance(n, (ast.FunctionDef, ast.AsyncFunctionDef, ast.Lambda, ast.ClassDef)):
            continue
        todo.extend(ast.iter_child_nodes(n))
    return False


class _NodeVisitorMethod:
    """ast.NodeVisitor.visit / generic_visit (Lib/ast.py), for instances of repository classes that derive from it: dispatch
    on the node's class name to the instance's own visit_<Class>, otherwise visit every child node."""

    sa_callable = True

    def __init__(self, oe, receiver, name):
        self.oe, self.receiver, self.name = oe, receiver, name

    def __call__(self, node):
        if not isinstance(node, ast.AST):
            raise Unsupported("NodeVisitor applied to something that is not an ast node")
        if self.name == "visit":
            try:
                m = self.oe.class_getattr(self.receiver.c, "visit_" + type(node).__name__, self.receiver)
            except PyRaise:
                m = self.oe.class_getattr(self.receiver.c, "generic_visit", self.receiver)
            return m(node)
        visit = self.oe.class_getattr(self.receiver.c, "visit", self.receiver)
        if "ast.NodeTransformer" in self.oe.repo.mro(self.receiver.c):
            # ast.NodeTransformer.generic_visit (Lib/ast.py): every child is replaced, IN PLACE, by what visiting it returns
            # (None removes it, a list is spliced in) - and the node itself is returned
            for fld, old in ast.iter_fields(node):
                if isinstance(old, list):
                    new_values = []
                    for value in old:
                        if isinstance(value, ast.AST):
                            value = visit(value)
                            if value is None:
                                continue
                            if not isinstance(value, ast.AST):
                                new_values.extend(value)
                                continue
                        new_values.append(value)
                    old[:] = new_values
                elif isinstance(old, ast.AST):
                    new_node = visit(old)
                    if new_node is None:
                        delattr(node, fld)
                    else:
                        setattr(node, fld, new_node)
            return node
        for _fld, value in ast.iter_fields(node):
            if isinstance(value, list):
                for item in value:
                    if isinstance(item, ast.AST):
                        visit(item)
            elif isinstance(value, ast.AST):
                visit(value)
        return None


class _ClsRecorder:
    """`cls` inside an interpreted __init_subclass__: reads go to the class, stores are recorded for that class."""

    def __init__(self, oe: ObjEval, c: ClassInfo, out: Dict[str, Any]):
        self.oe, self.c, self.out = oe, c, out

    def sa_attr(self, name):
        if name in self.out:
            if self.out[name] is _POISON:
                raise Unsupported(f"cls.{name} unknown")
            return self.out[name]
        return self.oe.class_getattr(self.c, name, self.oe.ref(self.c))

    def sa_setattr(self, name, v):
        self.out[name] = v

    def poison_stores(self, st: ast.AST):
        for n in ast.walk(st):
            if isinstance(n, ast.Attribute) and isinstance(n.ctx, ast.Store) and dotted(n.value) == "cls":
                self.out[n.attr] = _POISON
            if isinstance(n, ast.Call) and dotted(n.func) == "setattr" and n.args and dotted(n.args[0]) == "cls" and len(n.args) > 1 and isinstance(n.args[1], ast.Constant):
                self.out.setdefault(n.args[1].value, _POISON)


def bind_args(f: FuncInfo, args: list, kw: dict, oe: ObjEval, owner) -> dict:
    a = f.node.args
    names = [x.arg for x in a.posonlyargs + a.args]
    env: Dict[str, Any] = {}
    pos = list(args)
    for n in names:
        if pos:
            env[n] = pos.pop(0)
    if a.vararg:
        env[a.vararg.arg] = tuple(pos)
        pos = []
    if pos:
        raise PyRaise("TypeError")
    kw = dict(kw)
    defaults = dict(zip(names[len(names) - len(a.defaults):], a.defaults))
    for n in names:
        if n not in env:
            if n in kw:
                env[n] = kw.pop(n)
            elif n in defaults:
                env[n] = oe.default_value(f, n, defaults[n])
            else:
                raise PyRaise("TypeError")
    for k, d in zip(a.kwonlyargs, a.kw_defaults):
        if k.arg in kw:
            env[k.arg] = kw.pop(k.arg)
        elif d is not None:
            env[k.arg] = oe.default_value(f, k.arg, d)
        else:
            raise PyRaise("TypeError")
    if a.kwarg:
        env[a.kwarg.arg] = kw
    elif kw:
        raise PyRaise("TypeError")
    return env


class OEvaluator(Evaluator):
    def __init__(self, oe: ObjEval, env: dict, module: Module, cls_scope: Optional[ClassInfo] = None, func_owner: Optional[ClassInfo] = None, lenient_stmts: bool = False, poison=None):
        super().__init__(env)
        self.oe, self.module, self.cls_scope, self.func_owner = oe, module, cls_scope, func_owner
        self.lenient_stmts, self.poison = lenient_stmts, poison

    # ---- names
    def free_name(self, name: str):
        ov = self.oe.externals.get("builtins." + name)
        if ov is not None and name not in self.module.assigns and name not in self.module.functions and name not in self.module.classes and name not in self.module.imports:
            return ov  # a builtin the check's abstract world supplies (open, print, ...)
        if self.cls_scope is not None and name in self.cls_scope.attrs and not self.lenient_stmts:
            return self.oe.fold_class_attr(self.cls_scope, name)
        if self.cls_scope is not None and not self.lenient_stmts and self.cls_scope.method(name) is not None and self.func_owner is None:
            return BoundMethod(self.oe, self.cls_scope.method(name), None, self.cls_scope)  # a method named in the class body
        v = self.oe.module_global(self.module, name)
        if v is not _MISSING:
            return v
        if name in _BUILTIN_SPECS:
            return _BUILTIN_SPECS[name]
        if name in _PYTYPES:
            return _PyType(_PYTYPES[name])
        if name in _EXC_NAMES:
            return _ExcType(name)
        raise Unsupported(f"free name {name}")

    def ev(self, e: ast.AST) -> Any:
        if isinstance(e, _Lit):
            return e.v
        self.oe.steps += 1
        if self.oe.steps > self.oe.max_steps:
            raise Unsupported("too many interpretation steps")
        if isinstance(e, ast.Name) and e.id not in self.env and e.id not in ("True", "False", "None", "NotImplemented"):
            return self.free_name(e.id)
        if isinstance(e, ast.Attribute):
            v = self.ev(e.value)
            return self.getattr(v, e.attr)
        if isinstance(e, ast.Lambda):
            return _Lambda(self, e)
        if isinstance(e, ast.Subscript):
            base = self.ev(e.value)
            if isinstance(base, Instance):
                return self.oe.class_getattr(base.c, "__getitem__", base)(self._index(e.slice))
            if isinstance(base, ClassRef):
                return base.sa_getitem(self._index(e.slice))
            e = ast.copy_location(ast.Subscript(value=_Lit(base), slice=e.slice, ctx=e.ctx), e)
        if isinstance(e, ast.Compare) and len(e.ops) == 1 and isinstance(e.ops[0], (ast.In, ast.NotIn)):
            l = self.ev(e.left)  # operands left to right, each once
            r = self.ev(e.comparators[0])
            if isinstance(r, Instance):
                try:
                    res = bool(self.oe.class_getattr(r.c, "__contains__", r)(l))
                except PyRaise:
                    from .minieval import _as_iterable

                    res = any(x is l or x == l for x in _as_iterable(r))
                return res if isinstance(e.ops[0], ast.In) else not res
            e = ast.copy_location(ast.Compare(left=_Lit(l), ops=e.ops, comparators=[_Lit(r)]), e)
        if isinstance(e, ast.Call):
            r = self.call(e)
            if r is not _MISSING:
                return r
        if isinstance(e, ast.Compare) and len(e.ops) == 1 and isinstance(e.ops[0], (ast.Eq, ast.NotEq, ast.Is, ast.IsNot)):
            l, r = self.ev(e.left), self.ev(e.comparators[0])
            if isinstance(e.ops[0], (ast.Eq, ast.NotEq)) and (isinstance(l, EnumMember) or isinstance(r, EnumMember)):
                return self.compare(e.ops[0], l, r)
            if isinstance(e.ops[0], (ast.Eq, ast.NotEq)) and (isinstance(l, Instance) or isinstance(r, Instance)):
                # a class of the repository that defines __eq__ (or __ne__) answers for its instances; reflected for the right operand
                for a, b in ((l, r), (r, l)):
                    if not isinstance(a, Instance):
                        continue
                    for dunder in (("__ne__", "__eq__") if isinstance(e.ops[0], ast.NotEq) else ("__eq__",)):
                        k = next((k for k in self.oe.repo.mro_classes(a.c) if k.method(dunder) is not None), None)
                        if k is None:
                            continue
                        res = self.oe.call_func(k.method(dunder), [a, b], {}, k)
                        if res is NotImplemented or (isinstance(res, Record) and res.cls == "NotImplemented"):
                            continue
                        t = self.truth(res)
                        return (not t) if (isinstance(e.ops[0], ast.NotEq) and dunder == "__eq__") else t
            if any(isinstance(x, (ClassRef, Instance, _PyType, BoundMethod)) for x in (l, r)):
                same = l is r or (isinstance(l, _PyType) and l == r)
                return same if isinstance(e.ops[0], (ast.Eq, ast.Is)) else not same
            if isinstance(l, Record) and isinstance(r, Record) and isinstance(e.ops[0], (ast.Eq, ast.NotEq)):
                same = _rec_eq(l, r)
                return same if isinstance(e.ops[0], ast.Eq) else not same
            # the operands are evaluated (once): hand their values on, not the expressions
            e = ast.copy_location(ast.Compare(left=_Lit(l), ops=e.ops, comparators=[_Lit(r)]), e)
        if isinstance(e, ast.Set):
            return set(self.ev(x) for x in e.elts)
        if isinstance(e, ast.JoinedStr):
            # strict (the base evaluator is lenient because it only meets diagnostics there)
            parts = []
            for v in e.values:
                if isinstance(v, ast.Constant):
                    parts.append(str(v.value))
                    continue
                x = self.ev(v.value)
                if v.conversion == ord("r"):
                    x = repr(x)
                elif v.conversion == ord("s"):
                    x = str(x)
                elif v.conversion == ord("a"):
                    x = ascii(x)
                spec = self.ev(v.format_spec) if v.format_spec is not None else ""
                if isinstance(x, (Instance, EnumMember)) and not isinstance(x, str):
                    x = self.to_text(x)
                elif isinstance(x, (ClassRef, BoundMethod, Record)) and not isinstance(x, str):
                    x = repr(x)
                try:
                    parts.append(format(x, spec))
                except (ValueError, TypeError) as ex:
                    raise PyRaise(type(ex).__name__)
            return "".join(parts)
        return super().ev(e)

    def getattr(self, v, attr: str):
        if hasattr(v, "sa_attr") and not isinstance(v, Record):
            return v.sa_attr(attr)
        if isinstance(v, ast.AST):
            # a real syntax-tree node as data: plain field access (nothing of the repository runs)
            try:
                if attr.startswith("__") and attr not in ("__class__", "__dict__", "__doc__", "__module__"):
                    if not hasattr(v, attr):
                        raise AttributeError(attr)
                    raise Unsupported(f"attribute .{attr} of an ast node")
                return getattr(v, attr)
            except AttributeError:
                raise PyRaise("AttributeError")
        if isinstance(v, Record):
            if attr in v.fields:
                return v.fields[attr]
            if ("()" + attr) in v.fields:
                return Native(v.fields["()" + attr], f"{v.cls}.{attr}")  # a recorded method, as a value
            if __import__("os").environ.get("SA_DEBUG_RAISE"):
                print(f"[attr] {v.cls}.{attr} missing", file=__import__("sys").stderr)
            if v.cls == "exception":
                raise Unsupported(f"attribute .{attr} of a caught exception")  # only its class name is modelled
            raise PyRaise("AttributeError")
        if isinstance(v, EnumMember):
            return v.sa_attr(attr)
        if isinstance(v, tuple) and len(v) == 2 and v[0] == "enum-member" and attr in ("value", "name"):
            return v[1][attr]
        if isinstance(v, struct.Struct):
            if attr in ("pack", "unpack"):
                return _Spec(getattr(v, attr), f"struct.Struct.{attr}")
            if attr in ("size", "format"):
                return getattr(v, attr)
            raise Unsupported(f"attribute .{attr} of a struct.Struct")
        if isinstance(v, (str, bytes, bytearray, int, list, dict, tuple, float, set, frozenset, __import__("io").BytesIO, __import__("io").StringIO, __import__("io").BufferedReader, __import__("re").Pattern, __import__("re").Match) + _MEMORY_STREAMS) and not isinstance(v, bool):
            return _PyMethod(v, attr)
        if v is None or isinstance(v, bool):
            if hasattr(v, attr):
                raise Unsupported(f"attribute .{attr} of {v!r}")
            raise PyRaise("AttributeError")  # 'NoneType' object has no attribute ...
        raise Unsupported(f"attribute .{attr} of a {type(v).__name__}")

    # ---- calls
    def call(self, e: ast.Call):
        fn = e.func
        if isinstance(fn, ast.Name) and fn.id not in self.env:
            if fn.id == "super" and not e.args:
                recv = self.env.get("self", self.env.get("cls"))
                if isinstance(recv, _ClsRecorder):
                    return _InitSubSuper(self, recv)
                if recv is None or self.func_owner is None:
                    raise Unsupported("super() without receiver")
                return SuperProxy(self.oe, recv, self.func_owner)
            if fn.id == "isinstance" and len(e.args) == 2:
                return self.isinstance(self.ev(e.args[0]), self.ev(e.args[1]))
            if fn.id == "issubclass" and len(e.args) == 2:
                a, b = self.ev(e.args[0]), self.ev(e.args[1])
                if isinstance(a, ClassRef) and isinstance(b, ClassRef):
                    return b.c in self.oe.repo.mro_classes(a.c)
                raise Unsupported("issubclass on non-classes")
            if fn.id == "hasattr" and len(e.args) == 2:
                o, a = self.ev(e.args[0]), self.ev(e.args[1])
                try:
                    self.getattr(o, a)
                    return True
                except PyRaise as pe:
                    if pe.name != "AttributeError":
                        raise  # hasattr only swallows AttributeError
                    return False
            if fn.id == "next" and len(e.args) in (1, 2) and not (isinstance(e.args[0], ast.Call) and isinstance(e.args[0].func, ast.Name) and e.args[0].func.id == "iter"):
                o = self.ev(e.args[0])
                dflt = self.ev(e.args[1]) if len(e.args) == 2 else _MISSING
                if isinstance(o, Instance):
                    try:
                        return o.sa_attr("__next__")()
                    except PyRaise as pe:
                        if pe.name == "StopIteration" and dflt is not _MISSING:
                            return dflt
                        raise
                e = ast.copy_location(ast.Call(func=e.func, args=[_Lit(o)] + ([_Lit(dflt)] if dflt is not _MISSING else []), keywords=[]), e)
            if fn.id == "reversed" and len(e.args) == 1:
                o = self.ev(e.args[0])
                if isinstance(o, Instance):
                    try:
                        return o.sa_attr("__reversed__")()
                    except PyRaise:
                        raise PyRaise("TypeError")
                if isinstance(o, (list, tuple, str, bytes, range)):
                    return PyIter(reversed(o), "reversed")
                if isinstance(o, dict):
                    return PyIter(reversed(list(o)), "reversed")
                raise PyRaise("TypeError")
            if fn.id == "callable" and len(e.args) == 1:
                o = self.ev(e.args[0])
                if isinstance(o, Instance):
                    return any(k.method("__call__") is not None for k in self.oe.repo.mro_classes(o.c))
                if isinstance(o, (Record, EnumMember)):
                    return False
                return bool(getattr(o, "sa_callable", False)) or isinstance(o, (ClassRef, BoundMethod, _PyType)) or (callable(o) and not isinstance(o, (Instance,)))
            if fn.id == "getattr" and len(e.args) in (2, 3):
                o, a = self.ev(e.args[0]), self.ev(e.args[1])
                dflt = self.ev(e.args[2]) if len(e.args) == 3 else _MISSING  # arguments are evaluated before the call, needed or not
                try:
                    return self.getattr(o, a)
                except PyRaise as pe:
                    if dflt is not _MISSING and pe.name == "AttributeError":
                        return dflt
                    raise
            if fn.id == "setattr" and len(e.args) == 3:
                o, a, v = self.ev(e.args[0]), self.ev(e.args[1]), self.ev(e.args[2])
                if hasattr(o, "sa_setattr"):
                    o.sa_setattr(a, v)
                    return None
                if isinstance(o, ast.AST) and isinstance(a, str) and not a.startswith("__"):
                    setattr(o, a, v)  # a field of a syntax-tree node the interpreted code built: plain data
                    return None
                raise Unsupported("setattr on a non-object")
            if fn.id in ("str", "repr") and len(e.args) == 1 and not e.keywords:
                o = self.ev(e.args[0])
                if isinstance(o, (Instance, EnumMember)):
                    return self.to_text(o, fn.id == "repr")
                e = ast.copy_location(ast.Call(func=e.func, args=[_Lit(o)], keywords=[]), e)
            if fn.id == "type" and len(e.args) == 1:
                o = self.ev(e.args[0])
                if isinstance(o, (Instance, EnumMember)):
                    return self.oe.ref(o.c)
                return _PyType(type(o))
            if fn.id == "len" and len(e.args) == 1:
                o = self.ev(e.args[0])
                if isinstance(o, (str, bytes, bytearray, list, tuple, dict, set, frozenset)):
                    return len(o)
                if isinstance(o, Instance):
                    try:
                        m = self.oe.class_getattr(o.c, "__len__", o)
                    except PyRaise:
                        raise PyRaise("TypeError")
                    return m()
                raise PyRaise("TypeError")
            if fn.id == "int" and len(e.args) == 1:
                o = self.ev(e.args[0])
                if isinstance(o, (int, float, str, bytes)):
                    try:
                        return int(o)
                    except (ValueError, OverflowError) as ex:
                        raise PyRaise(type(ex).__name__)
                raise PyRaise("TypeError")
            if fn.id == "next" and len(e.args) in (1, 2) and isinstance(e.args[0], ast.Call) and isinstance(e.args[0].func, ast.Name) and e.args[0].func.id == "iter" and len(e.args[0].args) == 1:
                seq = self.ev(e.args[0].args[0])
                if isinstance(seq, (list, tuple, str, bytes)):
                    if len(seq):
                        return seq[0] if not isinstance(seq, bytes) else seq[0]
                    if len(e.args) == 2:
                        return self.ev(e.args[1])
                    raise PyRaise("StopIteration")
                raise Unsupported("next(iter(...)) over a non-sequence")
            if fn.id == "sorted" and len(e.args) == 1:
                seq = self.ev(e.args[0])
                key = None
                rev = False
                for k in e.keywords:
                    if k.arg == "key":
                        key = self.ev(k.value)
                    elif k.arg == "reverse":
                        rev = bool(self.ev(k.value))
                items = list(seq)
                try:
                    return sorted(items, key=(lambda x: key(x)) if key is not None else None, reverse=rev)
                except TypeError:
                    raise PyRaise("TypeError")
        f = None
        if isinstance(fn, ast.Attribute):
            # `<receiver>.<name>(...)`: the receiver expression is evaluated ONCE, whatever path decides the call afterwards
            # (a receiver like `Pickled.load(file)` moves a stream every time it is evaluated)
            try:
                recv = self.ev(fn.value)
            except Unsupported:
                return _MISSING
            lit = ast.copy_location(ast.Attribute(value=_Lit(recv), attr=fn.attr, ctx=ast.Load()), fn)
            try:
                f = self.getattr(recv, fn.attr)
            except Unsupported:
                f = None
            if f is not None and not getattr(f, "sa_callable", False):
                if f is None or isinstance(f, (PyIter, list, tuple, dict, set, frozenset, str, bytes, bytearray, int, float)) and not isinstance(f, Record):
                    self.ev_args(e)  # arguments are evaluated before the call fails
                    raise PyRaise("TypeError")  # the attribute's value is not callable
            if not (f is not None and getattr(f, "sa_callable", False)):
                return super().ev(ast.copy_location(ast.Call(func=lit, args=e.args, keywords=e.keywords), e))
        else:
            try:
                if isinstance(fn, ast.Name) and fn.id not in self.env and ("builtins." + fn.id) in self.oe.externals:
                    f = self.free_name(fn.id)
                else:
                    f = self.ev(fn) if not (isinstance(fn, ast.Name) and fn.id in ("max", "min", "any", "all", "sum", "list", "tuple", "enumerate", "ord", "chr", "bool", "range", "zip", "dict", "set", "print", "id")) else None
            except Unsupported:
                f = None
        if f is not None and getattr(f, "sa_callable", False):
            args = self.ev_args(e)
            kw = {}
            for k in e.keywords:
                if k.arg is None:
                    d = self.ev(k.value)
                    if not isinstance(d, dict):
                        raise Unsupported("** of a non-dict")
                    kw.update(d)
                else:
                    kw[k.arg] = self.ev(k.value)
            return f(*args, **kw)
        return _MISSING

    _DUNDER = {ast.Lt: ("__lt__", "__gt__"), ast.Gt: ("__gt__", "__lt__"), ast.LtE: ("__le__", "__ge__"), ast.GtE: ("__ge__", "__le__"), ast.Eq: ("__eq__", "__eq__"), ast.NotEq: ("__ne__", "__ne__")}

    def compare(self, op, l, r):
        if type(op) in self._DUNDER and (isinstance(l, (EnumMember, Instance)) or isinstance(r, (EnumMember, Instance))):
            d, refl = self._DUNDER[type(op)]
            for recv, other, name in ((l, r, d), (r, l, refl)):
                if isinstance(recv, (EnumMember, Instance)):
                    try:
                        m = self.oe.class_getattr(recv.c, name, recv)
                    except PyRaise:
                        continue
                    res = m(other)
                    if res is not NotImplemented:
                        return res
            if isinstance(op, ast.Eq):
                return l is r
            if isinstance(op, ast.NotEq):
                return l is not r
            raise PyRaise("TypeError")
        return super().compare(op, l, r)

    def to_text(self, o, as_repr: bool = False) -> str:
        """str(o) / repr(o) for an object of the repository: its own __str__ / __repr__ where it has one."""
        for name in (("__repr__",) if as_repr else ("__str__", "__repr__")):
            try:
                m = self.oe.class_getattr(o.c, name, o)
            except PyRaise:
                continue
            r = m()
            if not isinstance(r, str):
                raise PyRaise("TypeError")
            return r
        if isinstance(o, EnumMember):
            return f"{o.k.name}.{o[1]['name']}" if not as_repr else f"<{o.k.name}.{o[1]['name']}: {o[1]['value']!r}>"
        return f"<{o.c.module.name}.{o.c.name} object>"

    def truth(self, v) -> bool:
        if isinstance(v, EnumMember):
            return True
        if isinstance(v, Instance):
            for dunder in ("__bool__", "__len__"):
                try:
                    m = self.oe.class_getattr(v.c, dunder, v)
                except PyRaise:
                    continue
                r = m()
                return bool(r) if dunder == "__bool__" else r != 0
            return True
        if isinstance(v, (ClassRef, BoundMethod, _PyType, ModuleRef)):
            return True
        return super().truth(v)

    def isinstance(self, v, t) -> bool:
        ts = t if isinstance(t, tuple) else (t,)
        for x in ts:
            if isinstance(x, _PyType):
                if isinstance(v, (Instance, ClassRef, Record, EnumMember)):
                    continue
                if isinstance(v, x.t):
                    return True
            elif isinstance(x, ClassRef):
                if isinstance(v, (Instance, EnumMember)) and x.c in self.oe.repo.mro_classes(v.c):
                    return True
            elif isinstance(x, Record) and x.cls == "typing":
                # typing.ByteString and friends
                if x.fields.get("name", "").endswith("ByteString") and isinstance(v, (bytes, bytearray)):
                    return True
            else:
                raise Unsupported(f"isinstance against {x!r}")
        return False

    # ---- statements
    def _block(self, body):
        for st in body:
            if isinstance(st, ast.Expr) and isinstance(st.value, ast.Constant):
                continue  # docstring
            try:
                self._stmt(st)
            except Unsupported:
                if not self.lenient_stmts:
                    raise
                if self.poison is not None:
                    self.poison.poison_stores(st)

    def _stmt(self, st):
        if isinstance(st, ast.Assign) and len(st.targets) > 1:
            v = self.ev(st.value)
            for t in st.targets:
                self._stmt(ast.Assign(targets=[t], value=_Lit(v), lineno=getattr(st, "lineno", 0)))
            return
        if isinstance(st, (ast.Assign, ast.AnnAssign)) and (isinstance(st, ast.AnnAssign) or len(st.targets) == 1):
            t = st.target if isinstance(st, ast.AnnAssign) else st.targets[0]
            if isinstance(st, ast.AnnAssign) and st.value is None:
                return
            if isinstance(t, ast.Attribute):
                obj = self.ev(t.value)
                v = self.ev(st.value)
                if hasattr(obj, "sa_setattr"):
                    obj.sa_setattr(t.attr, v)
                    return
                if isinstance(obj, Record):
                    obj.fields[t.attr] = v
                    return
                if isinstance(obj, ast.AST) and not t.attr.startswith("__"):
                    setattr(obj, t.attr, v)
                    return
                raise Unsupported("attribute store on a non-object")
            if isinstance(t, ast.Name):
                if t.id in self.__dict__.get("globals_declared", ()):
                    self.oe._module_values[(self.module.name, t.id)] = self.ev(st.value)  # `global x; x = ...`
                    return
                self.env[t.id] = self.ev(st.value)
                return
        if isinstance(st, ast.Assign) and len(st.targets) == 1 and isinstance(st.targets[0], (ast.Tuple, ast.List)) and not any(isinstance(t, ast.Starred) for t in st.targets[0].elts) and any(not isinstance(t, ast.Name) for t in st.targets[0].elts):
            # unpacking into attributes / items:  self.a, self.b = seq
            v = self.ev(st.value)
            if isinstance(v, (str, bytes)):
                v = list(v)
            if not isinstance(v, (list, tuple)):
                raise Unsupported("unpacking of a non-sequence")
            elts = st.targets[0].elts
            if len(v) != len(elts):
                raise PyRaise("ValueError")
            for t, x in zip(elts, v):
                self._stmt(ast.Assign(targets=[t], value=_Lit(x), lineno=getattr(st, "lineno", 0)))
            return
        if isinstance(st, ast.Assign) and len(st.targets) == 1 and isinstance(st.targets[0], (ast.Tuple, ast.List)) and any(isinstance(t, ast.Starred) for t in st.targets[0].elts):
            elts = st.targets[0].elts
            v = self.ev(st.value)
            if not isinstance(v, (list, tuple)):
                raise Unsupported("starred unpacking of a non-sequence")
            v = list(v)
            si = next(i for i, t in enumerate(elts) if isinstance(t, ast.Starred))
            before, after = elts[:si], elts[si + 1:]
            if len(v) < len(before) + len(after):
                raise PyRaise("ValueError")
            parts = v[: len(before)] + [v[len(before): len(v) - len(after)]] + (v[len(v) - len(after):] if after else [])
            for t, x in zip(list(before) + [elts[si].value] + list(after), parts):
                if not isinstance(t, ast.Name):
                    raise Unsupported("unpacking target")
                self.env[t.id] = x
            return
        if isinstance(st, ast.Assign) and len(st.targets) == 1 and isinstance(st.targets[0], ast.Subscript):
            base = self.ev(st.targets[0].value)
            if isinstance(base, Instance):
                self.oe.class_getattr(base.c, "__setitem__", base)(self._index(st.targets[0].slice), self.ev(st.value))
                return
        if isinstance(st, ast.Delete) and len(st.targets) == 1 and isinstance(st.targets[0], ast.Subscript):
            base = self.ev(st.targets[0].value)
            if isinstance(base, Instance):
                self.oe.class_getattr(base.c, "__delitem__", base)(self._index(st.targets[0].slice))
                return
        if isinstance(st, ast.Delete) and len(st.targets) == 1 and isinstance(st.targets[0], ast.Attribute):
            base = self.ev(st.targets[0].value)
            if isinstance(base, Instance):
                attr = st.targets[0].attr
                for k in self.oe.repo.mro_classes(base.c):
                    if k.method(attr, "deleter") is not None:
                        self.oe.call_func(k.method(attr, "deleter"), [base], {}, k)
                        return
                if attr not in base.fields:
                    raise PyRaise("AttributeError")
                del base.fields[attr]
                return
        if isinstance(st, ast.Raise):
            name = "Exception"
            if st.exc is None:
                if getattr(self, "_handling", None) is None:
                    raise PyRaise("RuntimeError")  # no active exception to re-raise
                raise PyRaise(self._handling)
            if st.exc is not None:
                name = ast.unparse(st.exc.func if isinstance(st.exc, ast.Call) else st.exc)
                if name not in _EXC_NAMES:
                    name = name.split(".")[-1]
                # the arguments of the exception are evaluated before it is raised: what they call, runs (a message helper that
                # opens, imports, records).  Pure formatting the evaluator cannot render is of no consequence and is skipped;
                # a call of a named function that cannot be evaluated leaves the world undecided.
                if isinstance(st.exc, ast.Call):
                    for a in list(st.exc.args) + [k.value for k in st.exc.keywords]:
                        named_calls = [c for c in ast.walk(a) if isinstance(c, ast.Call) and isinstance(c.func, ast.Name) and c.func.id not in _PURE_FORMATTING]
                        dotted_calls = [c for c in ast.walk(a) if isinstance(c, ast.Call) and isinstance(c.func, ast.Attribute) and isinstance(base_name(c.func), str) and base_name(c.func) not in self.env and base_name(c.func) in self.module.imports]
                        if not named_calls and not dotted_calls:
                            continue
                        self.ev(a)
            if __import__("os").environ.get("SA_DEBUG_RAISE"):
                print(f"[raise] {self.module.name}:{getattr(st, 'lineno', '?')} {ast.unparse(st)[:120]}", file=__import__("sys").stderr)
            raise PyRaise(name)
        if isinstance(st, ast.Return):
            raise ReturnValue(self.ev(st.value) if st.value is not None else None)
        if isinstance(st, ast.Expr) and isinstance(st.value, ast.Call):
            callee = ast.unparse(st.value.func)
            if callee == "print" and "builtins.print" in self.oe.externals:
                self.ev(st.value)  # the world wants to see what is printed
                return
            if (callee == "print" or callee.startswith(("logger.", "logging.", "log.", "_log.", "LOGGER.", "warnings.", "sys.stderr.", "sys.stdout.write"))) and callee.split(".")[0] not in self.env:  # (a local variable that happens to be called `log` is data, not a logger)
                return  # diagnostics whose value is discarded do not influence the fragment's result
            self.ev(st.value)
            return
        if isinstance(st, ast.Pass):
            return
        if isinstance(st, (ast.Import, ast.ImportFrom)):
            # a function-level import binds local names to what the same import at module level would bind
            for a in st.names:
                if isinstance(st, ast.Import):
                    local = a.asname or a.name.split(".")[0]
                    q = a.name if a.asname else a.name.split(".")[0]
                else:
                    if st.level or a.name == "*":
                        raise Unsupported("relative / star import inside a function")
                    local = a.asname or a.name
                    q = f"{st.module}.{a.name}"
                shadow = Module.__new__(Module)
                shadow.__dict__.update(self.module.__dict__)
                shadow.imports = dict(self.module.imports)
                shadow.imports[local] = q
                v = self.oe._module_global_rest(shadow, local)
                if v is _MISSING:
                    raise Unsupported(f"import of {q} inside a function")
                self.env[local] = v
            return
        if isinstance(st, ast.Global):
            gl = self.__dict__.setdefault("globals_declared", set())
            gl.update(st.names)
            for nm in st.names:
                self.env.pop(nm, None)
            return
        if isinstance(st, ast.Expr) and isinstance(st.value, (ast.Yield, ast.YieldFrom)):
            ys = getattr(self, "yields", None)
            if ys is None:
                raise Unsupported("yield outside an interpreted generator function")
            if isinstance(st.value, ast.Yield):
                ys.append(self.ev(st.value.value) if st.value.value is not None else None)
            else:
                from .minieval import _as_iterable

                seq = _as_iterable(self.ev(st.value.value))
                if seq is None:
                    raise Unsupported("yield from a non-iterable")
                ys.extend(seq)
            return
        if isinstance(st, ast.AugAssign) and isinstance(st.target, ast.Name) and st.target.id in self.__dict__.get("globals_declared", ()):
            # `global x; x += v`: the module's binding is what changes
            cur = self.ev(st.target)
            val = self.ev(st.value)
            if isinstance(cur, list) and isinstance(st.op, ast.Add) and isinstance(val, (list, tuple)):
                cur.extend(val)
                new = cur
            elif isinstance(cur, (set, dict)) and isinstance(st.op, ast.BitOr) and isinstance(val, (set, frozenset, dict)) and isinstance(val, dict) == isinstance(cur, dict):
                cur.update(val)
                new = cur
            else:
                new = self.ev(ast.BinOp(left=_Lit(cur), op=st.op, right=_Lit(val)))
            self.oe._module_values[(self.module.name, st.target.id)] = new
            return
        if isinstance(st, ast.AugAssign) and isinstance(st.target, ast.Name) and isinstance(self.env.get(st.target.id), Instance):
            cur = self.env[st.target.id]
            dunder = {ast.Add: "__iadd__", ast.Sub: "__isub__", ast.BitOr: "__ior__", ast.BitAnd: "__iand__", ast.Mult: "__imul__"}.get(type(st.op))
            if dunder is None:
                raise Unsupported("augmented assignment to an object")
            try:
                m = cur.sa_attr(dunder)
            except PyRaise:
                raise Unsupported(f"augmented assignment to an object without {dunder}")
            self.env[st.target.id] = m(self.ev(st.value))
            return
        if isinstance(st, ast.AugAssign) and isinstance(st.target, ast.Attribute):
            obj = self.ev(st.target.value)
            cur = self.getattr(obj, st.target.attr)
            val = self.ev(st.value)
            if isinstance(cur, set) and isinstance(st.op, ast.BitOr) and isinstance(val, (set, frozenset)):
                cur |= val  # in place, like Python: the object every holder of the set sees
                new = cur
            elif isinstance(cur, list) and isinstance(st.op, ast.Add) and isinstance(val, (list, tuple)):
                cur.extend(val)
                new = cur
            else:
                new = self.ev(ast.BinOp(left=_Lit(cur), op=st.op, right=_Lit(val)))
            if hasattr(obj, "sa_setattr"):
                obj.sa_setattr(st.target.attr, new)
            elif isinstance(obj, Record):
                obj.fields[st.target.attr] = new
            elif isinstance(obj, ast.AST) and not st.target.attr.startswith("__"):
                setattr(obj, st.target.attr, new)
            else:
                raise Unsupported("augmented attribute store on a non-object")
            return
        if isinstance(st, ast.AugAssign) and isinstance(st.target, ast.Subscript):
            cont = self.ev(st.target.value)
            idx = self._index(st.target.slice)
            if isinstance(cont, Instance):
                cur = self.oe.class_getattr(cont.c, "__getitem__", cont)(idx)
            elif isinstance(cont, (list, dict, bytearray)):
                try:
                    cur = cont[idx]
                except (KeyError, IndexError, TypeError) as ex:
                    raise PyRaise(type(ex).__name__)
            else:
                raise Unsupported("augmented item store on a non-container")
            val = self.ev(st.value)
            if isinstance(cur, list) and isinstance(st.op, ast.Add) and isinstance(val, (list, tuple)):
                cur.extend(val)
                new = cur
            elif isinstance(cur, (set, dict)) and isinstance(st.op, ast.BitOr) and isinstance(val, (set, frozenset, dict)) and isinstance(val, dict) == isinstance(cur, dict):
                cur.update(val)
                new = cur
            else:
                new = self.ev(ast.BinOp(left=_Lit(cur), op=st.op, right=_Lit(val)))
            if isinstance(cont, Instance):
                self.oe.class_getattr(cont.c, "__setitem__", cont)(idx, new)
            else:
                try:
                    cont[idx] = new
                except (KeyError, IndexError, TypeError, ValueError) as ex:
                    raise PyRaise(type(ex).__name__)
            return
        super()._block([st])


_PURE_FORMATTING = {"str", "repr", "len", "int", "type", "hex", "oct", "bin", "format", "ascii", "bool", "tuple", "list", "sorted", "max", "min", "sum", "isinstance", "float", "bytes", "chr", "ord", "abs", "round", "set", "dict", "enumerate", "zip", "range", "reversed", "any", "all", "id"}


def base_name(e: ast.AST):
    """The root name of a dotted expression (`a` in a.b.c), or None."""
    while isinstance(e, ast.Attribute):
        e = e.value
    return e.id if isinstance(e, ast.Name) else None


class _Lit(ast.AST):
    """An already-evaluated value placed where an expression is expected."""

    _fields = ()

    def __init__(self, v):
        self.v = v


class _InitSubSuper:
    """super() inside an interpreted __init_subclass__: continue with the next implementation in the MRO."""

    def __init__(self, ev: OEvaluator, rec: _ClsRecorder):
        self.ev, self.rec = ev, rec

    def sa_attr(self, name):
        if name != "__init_subclass__":
            raise Unsupported(f"super().{name} in __init_subclass__")
        oe = self.ev.oe
        mro = oe.repo.mro_classes(self.rec.c)
        owner = self.ev.func_owner
        rest = mro[mro.index(owner) + 1:] if owner in mro else []
        for k in rest:
            f = k.method("__init_subclass__")
            if f is not None:
                class _Next:
                    sa_callable = True

                    def __call__(s, *a, **kw):
                        oe.run_initsub(f, k, self.rec)
                        return None

                return _Next()
        return _Noop()


class _PyType:
    sa_callable = True

    def __init__(self, t):
        self.t = t

    def __call__(self, *args, **kw):
        try:
            return self.t(*args, **kw)
        except (ValueError, TypeError, OverflowError, UnicodeError) as ex:
            raise PyRaise(type(ex).__name__)

    def sa_attr(self, name):
        if name == "__name__":
            return self.t.__name__
        if (self.t, name) in _PY_CLASSMETHODS:
            return _Spec(getattr(self.t, name), f"{self.t.__name__}.{name}")
        if name in _PY_METHODS.get(self.t, ()):
            return _Spec(getattr(self.t, name), f"{self.t.__name__}.{name}")  # the unbound method: str.strip, bytes.decode, ...
        raise Unsupported(f"attribute .{name} of type {self.t.__name__}")

    def __repr__(self):
        return f"<class '{self.t.__name__}'>"

    # a type is one object however often `type(x)` names it: equal, and usable as a dictionary key
    def __eq__(self, other):
        return isinstance(other, _PyType) and other.t is self.t

    def __hash__(self):
        return hash(self.t)


class _StdlibClass(_PyType):
    """A class of the standard library named by the repository (`from gzip import GzipFile`): good for isinstance / issubclass
    tests and for being compared; it cannot be called or inspected (nothing of it runs on the world's behalf)."""

    def __call__(self, *args, **kw):
        raise Unsupported(f"call of the standard-library class {self.t.__module__}.{self.t.__name__}")

    def sa_attr(self, name):
        if name in ("__name__", "__qualname__"):
            return self.t.__name__
        if name == "__module__":
            return self.t.__module__
        raise Unsupported(f"attribute .{name} of the standard-library class {self.t.__name__}")


def _stdlib_class(q: str):
    """The class a dotted standard-library name denotes, or None (the module is imported on the specification's side only)."""
    import importlib
    import sys as _sys

    mod, _, name = q.rpartition(".")
    if not mod or mod.split(".")[0] not in _sys.stdlib_module_names or mod.split(".")[0] in ("antigravity", "this", "idlelib", "turtle", "turtledemo", "tkinter"):
        return None
    try:
        v = getattr(importlib.import_module(mod), name, None)
    except Exception:
        return None
    return _StdlibClass(v) if isinstance(v, type) else None


_EXT_DEFINES: Dict[tuple, bool] = {}


def _external_defines(base: str, name: str) -> bool:
    """Does the external class `base` (dotted) define attribute `name`?  Standard-library classes are looked at (on the
    specification's side); for anything else the answer is "it may"."""
    key = (base, name)
    if key not in _EXT_DEFINES:
        import importlib
        import sys as _sys

        mod, _, cls = base.rpartition(".")
        ans = True
        if mod == "builtins" or (mod.split(".")[0] in _sys.stdlib_module_names and mod.split(".")[0] not in ("tkinter", "idlelib", "turtle")):
            try:
                k = getattr(importlib.import_module(mod), cls)
                ans = hasattr(k, name) and not (hasattr(object, name) and getattr(k, name, None) is getattr(object, name, None))
            except Exception:
                ans = True
        _EXT_DEFINES[key] = ans
    return _EXT_DEFINES[key]


def _sequence_mixin(oe, recv, name: str, mutable: bool):
    """collections.abc.Sequence / MutableSequence mixin methods, as Lib/_collections_abc.py defines them in terms of the
    abstract methods (__getitem__, __len__, and for the mutable ones __setitem__, __delitem__, insert) - which are the
    class's own, interpreted."""
    get = lambda n: recv.sa_attr(n)

    def items():
        out, i = [], 0
        gi = get("__getitem__")
        while True:
            try:
                out.append(gi(i))
            except PyRaise as pe:
                if pe.name == "IndexError":
                    return out
                raise
            i += 1

    def same(a, b):
        return a is b or OEvaluator(oe, {}, recv.c.module).compare(ast.Eq(), a, b) is True

    def index(value, start=0, stop=None):
        n = get("__len__")()
        if start is not None and start < 0:
            start = max(n + start, 0)
        if stop is not None and stop < 0:
            stop += n
        i = start
        gi = get("__getitem__")
        while stop is None or i < stop:
            try:
                v = gi(i)
            except PyRaise as pe:
                if pe.name == "IndexError":
                    break
                raise
            if same(v, value):
                return i
            i += 1
        raise PyRaise("ValueError")

    def pop(index=-1):
        v = get("__getitem__")(index)
        get("__delitem__")(index)
        return v

    def append(v):
        get("insert")(get("__len__")(), v)

    def extend(values):
        from .minieval import _as_iterable

        vs = items() if values is recv else _as_iterable(values)
        if vs is None:
            raise PyRaise("TypeError")
        for v in list(vs):
            append(v)

    def clear():
        try:
            while True:
                pop()
        except PyRaise as pe:
            if pe.name != "IndexError":
                raise

    def reverse():
        n = get("__len__")()
        gi, si = get("__getitem__"), get("__setitem__")
        for i in range(n // 2):
            a, b = gi(i), gi(n - i - 1)
            si(i, b)
            si(n - i - 1, a)

    def iadd(values):
        extend(values)
        return recv

    table = {
        "__iter__": lambda: PyIter(items(), "Sequence.__iter__"),
        "__contains__": lambda value: any(same(v, value) for v in items()),
        "__reversed__": lambda: PyIter([get("__getitem__")(i) for i in reversed(range(get("__len__")()))], "Sequence.__reversed__"),
        "index": index,
        "count": lambda value: sum(1 for v in items() if same(v, value)),
    }
    if mutable:
        table.update({"append": append, "extend": extend, "pop": pop, "clear": clear, "reverse": reverse, "__iadd__": iadd, "remove": lambda value: get("__delitem__")(index(value))})
    fn = table.get(name)
    return None if fn is None else Native(fn, f"{'Mutable' if mutable else ''}Sequence.{name}")


class _ExcType:
    sa_callable = True

    def __init__(self, name):
        self.name = name

    def __call__(self, *a, **k):
        return Record("exception", {"name": self.name})


_PY_CLASSMETHODS = {(int, "from_bytes"), (dict, "fromkeys"), (bytes, "fromhex"), (str, "maketrans")}
_PY_METHODS = {
    str: {"islower", "isupper", "istitle", "isspace", "isalnum", "isdecimal", "isnumeric", "title", "capitalize", "casefold", "swapcase", "removeprefix", "removesuffix", "expandtabs", "center", "ljust", "rjust", "encode", "split", "rsplit", "startswith", "endswith", "strip", "lstrip", "rstrip", "join", "format", "lower", "upper", "replace", "count", "isascii", "isdigit", "isalpha", "find", "rfind", "partition", "rpartition", "splitlines", "zfill", "isidentifier", "isprintable"},
    bytes: {"decode", "startswith", "endswith", "hex", "join", "replace", "find", "rstrip", "strip", "lstrip", "split", "count"},
    int: {"to_bytes", "bit_length"},
    float: {"is_integer", "hex"},
    list: {"append", "insert", "extend", "index", "count", "copy", "pop", "sort", "reverse"},
    tuple: {"index", "count"},
    dict: {"get", "copy", "setdefault", "update", "pop"},
    __import__("re").Pattern: {"match", "fullmatch", "search", "sub", "subn", "findall", "split", "finditer"},
    __import__("re").Match: {"group", "groups", "groupdict", "start", "end", "span"},
    bytearray: {"extend", "append", "decode", "startswith", "endswith", "hex", "find", "count", "copy", "clear", "pop", "insert", "join", "replace"},
    __import__("io").StringIO: {"write", "read", "getvalue", "close", "seek", "tell", "readline", "flush"},
    __import__("io").BufferedReader: {"read", "seek", "tell", "seekable", "readable", "readline", "peek", "close", "read1", "readinto"},
    __import__("gzip").GzipFile: {"read", "seek", "tell", "seekable", "readable", "readline", "peek", "close", "read1"},
    __import__("zipfile").ZipExtFile: {"read", "seek", "tell", "seekable", "readable", "readline", "peek", "close", "read1"},
    __import__("io").BytesIO: {"read", "seek", "tell", "seekable", "readable", "readline", "getvalue", "write", "close", "peek", "getbuffer", "truncate"},
    set: {"add", "discard", "update", "union", "copy", "issubset", "issuperset", "intersection", "difference", "remove"},
    frozenset: {"union", "issubset", "issuperset", "intersection", "difference"},
}


class _DictItems(list):
    pass


class _PyMethod:
    sa_callable = True

    def __init__(self, v, name):
        self.v, self.name = v, name
        if isinstance(v, dict) and name in ("items", "keys", "values"):
            return
        ok = any(isinstance(v, t) and name in ms for t, ms in _PY_METHODS.items())
        if not ok:
            if not hasattr(v, name):
                raise PyRaise("AttributeError")
            raise Unsupported(f"method .{name} of a {type(v).__name__}")

    def __call__(self, *args, **kw):
        if isinstance(self.v, dict) and self.name in ("items", "keys", "values"):
            return _DictItems(getattr(self.v, self.name)())
        for a in list(args) + list(kw.values()):
            if isinstance(a, (ClassRef, Instance)) and not isinstance(self.v, (list, dict, set)):
                raise Unsupported("abstract object passed to a value method")
        try:
            return getattr(self.v, self.name)(*args, **kw)
        except (ValueError, TypeError, OverflowError, UnicodeError, KeyError, IndexError) as ex:
            raise PyRaise(type(ex).__name__)


class _Lambda:
    sa_callable = True

    def __init__(self, ev: OEvaluator, node: ast.Lambda):
        self.ev, self.node = ev, node

    def __call__(self, *args, **kw):
        from .minieval import Closure

        return Closure(self.ev, self.node).sa_call(list(args), kw)
