"""Per-opcode effect summaries (E5 output) and the flow queries C03/C05/C09/C13 are built on."""

from __future__ import annotations

import pickletools
from dataclasses import dataclass, field
from typing import Dict, List, Optional, Set, Tuple

from .model import FuncInfo, OpcodeClass, Repo, opcode_registry
from .vm import VM, PathSummary
from .vmvals import AttrOf, Const, Fresh, Item, MarkV, Seq, SliceV, State, Unknown, Val


@dataclass
class Declared:
    name: str
    before: List[str]
    after: List[str]
    has_mark: bool
    below: List[str]  # operands below the mark (survive unless popped)
    above: List[str]  # everything from the mark upwards (consumed)

    @property
    def operands(self) -> int:
        """Number of individually addressed stack operands (below the mark, or all when no mark)."""
        return len(self.below) if self.has_mark else len(self.before)

    @property
    def net(self) -> int:
        return len(self.after) - self.operands


def declared(info: pickletools.OpcodeInfo) -> Declared:
    before = [x.name for x in info.stack_before]
    after = [x.name for x in info.stack_after]
    if "mark" in before:
        i = before.index("mark")
        return Declared(info.name, before, after, True, before[:i], before[i:])
    return Declared(info.name, before, after, False, [], [])


@dataclass
class OpSummary:
    oc: OpcodeClass
    run: FuncInfo
    wrapped: bool
    paths: List[PathSummary]
    decl: Declared

    @property
    def name(self) -> str:
        return self.oc.opname

    @property
    def normal(self) -> List[PathSummary]:
        return [p for p in self.paths if p.outcome == "normal" and not p.state.assumed_empty]

    @property
    def refuses(self) -> bool:
        return not self.normal

    def where(self) -> str:
        return f"{self.run.file}:{self.run.line}"


_CACHE: Dict[int, List[OpSummary]] = {}


def all_summaries(repo: Repo) -> List[OpSummary]:
    if id(repo) in _CACHE:
        return _CACHE[id(repo)]
    ops, _ = opcode_registry(repo)
    vm = VM(repo)
    out = []
    for oc in ops:
        paths, run, wrapped = vm.summarise(oc)
        out.append(OpSummary(oc, run, wrapped, paths, declared(oc.info)))
    _CACHE[id(repo)] = out
    return out


# ------------------------------------------------------------------------------ flow queries
def reach(v: Val, st: State, seen: Optional[Set[int]] = None) -> Set[Val]:
    """All abstract values reachable from v through node fields, sequence contents, attribute bases
    and the operands an opaque value was computed from."""
    if seen is None:
        seen = set()
    out: Set[Val] = set()
    todo = [v]
    while todo:
        x = todo.pop()
        if x.uid in seen:
            continue
        seen.add(x.uid)
        out.add(x)
        todo.extend(x.children())
        if isinstance(x, Seq):
            todo.extend(st.heap.get(x.uid, []))
    return out


def roots_of(v: Val, st: State) -> Set[str]:
    out: Set[str] = set()
    for x in reach(v, st):
        out |= set(x.roots())
    return out


def kept_values(p: PathSummary) -> Set[Val]:
    """Values that survive the handler: still on the stack, sunk into the module body, written to the
    memo, or mutated into something that survives."""
    st = p.state
    kept: Set[Val] = set()
    seeds: List[Val] = [v for v in st.local_stack] + [v for v, _ in st.sinks] + [v for _, v, _ in st.memo_writes]
    for s in seeds:
        kept |= reach(s, st)
    # items that were only peeked remain on the stack
    for lab in st.peeked:
        it = st.base_items.get(lab)
        if it is not None and it not in st.popped_vals:
            kept.add(it)
    changed = True
    while changed:
        changed = False
        for m in st.mutations:
            if m.arg is None:
                continue
            if m.target in kept and not reach(m.arg, st) <= kept:
                kept |= reach(m.arg, st)
                changed = True
    return kept


def kept_roots(p: PathSummary) -> Set[str]:
    out: Set[str] = set()
    for v in kept_values(p):
        out |= set(v.roots())
    return out


def dropped_roots(p: PathSummary) -> Set[str]:
    """Provenance atoms of popped operands (and the slice) that flow nowhere."""
    st = p.state
    consumed: Set[str] = set()
    for v in st.popped_vals:
        if isinstance(v, Item):
            consumed.add(v.label)
    if st.mark_consumed:
        consumed.add("slice")
    return {c for c in consumed if c not in kept_roots(p)}


def fresh_nodes(p: PathSummary, cls: Optional[str] = None) -> List[Fresh]:
    """Every FRESH node that survives (reachable from the stack, the sinks or the memo)."""
    out = [v for v in kept_values(p) if isinstance(v, Fresh) and (cls is None or v.cls == cls)]
    return sorted(out, key=lambda f: (f.line, f.uid))


def sunk_values(p: PathSummary) -> Set[Val]:
    st = p.state
    out: Set[Val] = set()
    for v, _ in st.sinks:
        out |= reach(v, st)
    return out


def name_binding(v: Val, p: PathSummary) -> Optional[Val]:
    """If v is `ast.Name(<n>, Load)` where <n> is the very name bound by a sunk `Assign([Name(<n>)], X)`,
    return X (i.e. v is NAMEOF(X))."""
    if not (isinstance(v, Fresh) and v.cls == "ast.Name"):
        return None
    ident = v.fields.get("id")
    if ident is None:
        return None
    st = p.state
    for s, _ in st.sinks:
        if isinstance(s, Fresh) and s.cls == "ast.Assign":
            tg = s.fields.get("targets")
            val = s.fields.get("value")
            names = st.heap.get(tg.uid, []) if isinstance(tg, Seq) else []
            for n in names:
                if isinstance(n, Fresh) and n.cls == "ast.Name" and n.fields.get("id") is ident:
                    return val
    return None
