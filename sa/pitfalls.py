"""Structural rules for two Python pitfalls that silently change what a handler computes.  They are run by the properties
whose subject is the decompiled program (C03, C05, C09) *before* the abstract interpretation of the handlers, so that they
are reported even when a handler is written in a way the interpreter does not model.

* one-shot-iterator-reused   a name bound to a one-shot iterator (zip / map / filter / reversed / iter / enumerate / a
                             generator expression) is consumed at two sites of which the second is reachable from the
                             first: the second consumer sees nothing.
* negative-slice-may-be-zero `x[-n:]` / `x[:-n]` with an `n` that is not provably non-zero: for n == 0 the first is the whole
                             sequence and the second is empty.
"""

from __future__ import annotations

import ast
from typing import Iterable, List, Optional, Set, Tuple

from .cfg import CFG, own_exprs
from .model import FuncInfo, Repo, dotted
from .report import Report
from .util import body_walk, src

ONE_SHOT = {"zip", "map", "filter", "reversed", "iter", "enumerate", "itertools.chain", "itertools.islice", "itertools.zip_longest"}
CONSUMERS = {"list", "tuple", "set", "frozenset", "sorted", "sum", "any", "all", "max", "min", "dict", "next", "enumerate", "zip", "map", "filter", "reversed"}


def _consumption_sites(expr_root: ast.AST, name: str) -> List[ast.AST]:
    """Sub-expressions of `expr_root` that iterate `name` (each occurrence counts once)."""
    out = []
    for n in ast.walk(expr_root):
        if isinstance(n, ast.comprehension) and isinstance(n.iter, ast.Name) and n.iter.id == name:
            out.append(n)
        elif isinstance(n, ast.Call):
            fn = dotted(n.func) or ""
            if fn in CONSUMERS or fn.split(".")[-1] in ("extend", "update", "join", "fromkeys"):
                for a in n.args:
                    if isinstance(a, ast.Name) and a.id == name:
                        out.append(n)
                    if isinstance(a, ast.Starred) and isinstance(a.value, ast.Name) and a.value.id == name:
                        out.append(n)
        elif isinstance(n, ast.Starred) and isinstance(n.value, ast.Name) and n.value.id == name and not isinstance(getattr(n, "ctx", None), ast.Store):
            pass  # counted through the enclosing call above; a bare *x in a display:
    for n in ast.walk(expr_root):
        if isinstance(n, (ast.List, ast.Tuple, ast.Set)):
            for e in n.elts:
                if isinstance(e, ast.Starred) and isinstance(e.value, ast.Name) and e.value.id == name:
                    out.append(n)
    return out


def one_shot_reuse(f: FuncInfo) -> List[Tuple[str, ast.AST, ast.AST]]:
    """(name, first consumer, second consumer) for one-shot iterators consumed twice along a path."""
    binds = {}
    for n in body_walk(f.node):
        if isinstance(n, ast.Assign) and len(n.targets) == 1 and isinstance(n.targets[0], ast.Name):
            v = n.value
            if isinstance(v, ast.GeneratorExp) or (isinstance(v, ast.Call) and (dotted(v.func) or "") in ONE_SHOT):
                binds.setdefault(n.targets[0].id, []).append(n)
    if not binds:
        return []
    # a name re-bound to something else elsewhere is left alone (flow-sensitive typing is not attempted)
    for n in body_walk(f.node):
        if isinstance(n, (ast.Assign, ast.AugAssign, ast.AnnAssign, ast.For)):
            for t in ast.walk(n.target if not isinstance(n, ast.Assign) else ast.Tuple(elts=n.targets, ctx=ast.Store())):
                if isinstance(t, ast.Name) and t.id in binds and not any(n is b for b in binds[t.id]):
                    binds.pop(t.id, None)
    if not binds:
        return []
    g = CFG(f.node)
    out = []
    for name in binds:
        sites: List[Tuple[int, ast.AST]] = []  # (cfg node id, consumer)
        for nd in g.nodes:
            if nd.ast is None or nd.kind == "branch":
                continue
            if nd.kind == "for" and isinstance(nd.ast.iter, ast.Name) and nd.ast.iter.id == name:
                sites.append((nd.id, nd.ast))
            for part in own_exprs(nd.ast):
                if nd.kind == "for" and part is nd.ast.iter:
                    continue
                for c in _consumption_sites(part, name):
                    sites.append((nd.id, c))
        if len(sites) < 2:
            continue
        reach_cache = {}

        def reaches(a: int, b: int) -> bool:
            if a not in reach_cache:
                seen, todo = set(), [m for m, _ in g.succ.get(a, [])]
                while todo:
                    x = todo.pop()
                    if x in seen:
                        continue
                    seen.add(x)
                    todo.extend(m for m, _ in g.succ.get(x, []))
                reach_cache[a] = seen
            return b in reach_cache[a]

        done = False
        for i, (na, ca) in enumerate(sites):
            for nb, cb in sites[i + 1:]:
                if ca is cb:
                    continue
                if na == nb or reaches(na, nb) or reaches(nb, na):
                    out.append((name, ca, cb))
                    done = True
                    break
            if done:
                break
    return out


def negative_slices(f: FuncInfo) -> List[Tuple[ast.Subscript, str]]:
    """Slices whose bound is the negation of a value that may be zero."""
    out = []
    g = None
    for n in body_walk(f.node):
        if not (isinstance(n, ast.Subscript) and isinstance(n.slice, ast.Slice)):
            continue
        for which, b in (("lower", n.slice.lower), ("upper", n.slice.upper)):
            if isinstance(b, ast.UnaryOp) and isinstance(b.op, ast.USub) and not isinstance(b.operand, ast.Constant):
                e = b.operand
                txt = src(e)
                # provably non-zero: dominated by a truthiness / positivity test of the same expression
                g = g or CFG(f.node)
                node = g.node_of(n)
                guarded = False
                if node is not None:
                    for d in g.dominators().get(node.id, ()):
                        bn = g.nodes[d]
                        if bn.kind != "branch" or bn.ast is None:
                            continue
                        t = src(bn.ast)
                        if bn.value is True and t in (txt, f"{txt} > 0", f"{txt} >= 1", f"{txt} != 0", f"0 < {txt}"):
                            guarded = True
                        if bn.value is False and t in (f"not {txt}", f"{txt} == 0", f"{txt} <= 0", f"{txt} < 1"):
                            guarded = True
                if isinstance(e, ast.Call) and dotted(e.func) == "len":
                    pass  # len(...) may well be 0
                if not guarded:
                    out.append((n, f"{which}:-{txt}"))
    return out


def check_pitfalls(repo: Repo, rep: Report, rule: str, funcs: Iterable[FuncInfo]):
    n = 0
    for f in funcs:
        n += 1
        for name, a, b in one_shot_reuse(f):
            rep.bad(rule, f.qualname, f"one-shot-iterator-reused:{name}", f"`{name}` is a one-shot iterator and is consumed at line {getattr(a, 'lineno', '?')} and again at line {getattr(b, 'lineno', getattr(a, 'lineno', '?'))}: the second consumer gets nothing, so what it builds (keys, values, arguments) is silently empty", f.file, getattr(a, "lineno", f.line))
        for sub, what in negative_slices(f):
            rep.bad(rule, f.qualname, f"negative-slice-may-be-zero:{what.split(':', 1)[1]}", f"`{src(sub)}`: for a count of 0 this is {'the whole sequence' if what.startswith('lower') else 'empty'}, not 'the last 0 items' (no test establishes that the count is non-zero): the handler then takes the marks and everything below them too", f.file, sub.lineno)
    rep.ok(rule, "fickling.fickle (handlers and helpers)", f"{n} functions scanned for one-shot iterators consumed twice and negative slices with a possibly-zero bound", "", nontrivial=False)


def handler_functions(repo: Repo) -> List[FuncInfo]:
    """Everything that takes part in producing the decompiled program: methods of opcode classes, Interpreter, Stack,
    ModuleBody, and the wrapper closures installed on opcode classes."""
    out = []
    for f in repo.functions.values():
        if f.module.name != "fickling.fickle" or f.kind in ("module",):
            continue
        owner = f
        while owner.parent is not None:
            owner = owner.parent
        c = owner.cls
        if c is None:
            continue
        if c.name in ("Interpreter", "Stack", "ModuleBody", "ASTProperties") or repo.is_subclass(c, "fickling.fickle.Opcode"):
            out.append(f)
    return out
