"""C01 -- analysis is inert: inspecting a pickle never executes any part of it.

Absence-of-effects claim decided by reachability (C01.reach): from every analysis entry point (parse,
stacked parse, decompile, unparse, trace, safety check, likely-safe query, the CLI's decompile / trace /
check-safety arms) the class-hierarchy call graph (over-approximating) is explored and every external
callable, builtin, attribute read and dynamic call site in the reached functions is classified against
the effect tables in sa/effects.py.  Forbidden -> violation with the call path; unaudited -> ANALYSIS-ERROR.
"""

from __future__ import annotations

import ast
from pathlib import Path
from typing import Dict, List, Optional, Set, Tuple

from ..callgraph import CallGraph, CallSite
from ..effects import classify_external, classify_method, open_mode
from ..model import ClassInfo, FuncInfo, Repo, dotted, load_repo, opcode_registry
from ..report import VERIF, AnalysisError, Report
from ..util import cli_args_name, body_walk, cmp_normal, src

# Named exemptions: one symbol each, with the reason.
EXEMPT_OPEN = {
    ("fickling.analysis.check_safety", "a"): "the JSON report file the *caller* asked for (json_output_path); its path and existence do not depend on the input's content",
    ("fickling.analysis.is_likely_safe", "rb"): "opens the input itself, read-only",
    ("fickling.cli.main", "rb"): "opens the input itself, read-only",
}
EXEMPT_CALLS = {
    ("fickling.analysis.check_safety", "json.dump"): "writes the verdict to the report file the caller asked for",
}
# dynamic dispatch sites audited by hand: callee text -> how to resolve it
DYNAMIC_TABLE = {
    ("fickling.fickle.Opcode.__new__", "OPCODES_BY_NAME[info.name]"): "opcode-ctors",
    ("fickling.fickle.ConstantOpcode.new", "subclass"): "constant-ctors",
    ("fickling.fickle.StackSliceOpcode.__init_subclass__.<locals>.run_wrapper", "orig_run"): "slice-runs",
}


def dyn_kind(site: CallSite):
    """Resolve an audited dynamic-dispatch site structurally (not by the spelling of local variable names)."""
    if not site.dynamic:
        return None
    k = DYNAMIC_TABLE.get((site.func.qualname, site.dynamic))
    if k is not None:
        return k
    callee = site.node.func if isinstance(site.node, ast.Call) else None
    q = site.func.qualname
    if q == "fickling.fickle.Opcode.__new__" and isinstance(callee, ast.Subscript) and dotted(callee.value) == "OPCODES_BY_NAME":
        return "opcode-ctors"
    if q == "fickling.fickle.ConstantOpcode.new" and isinstance(callee, ast.Name):
        # the loop variable ranging over ConstantOpcode.ConstantOpcodePriorities
        for n in ast.walk(site.func.node):
            if isinstance(n, ast.For) and any(isinstance(t, ast.Name) and t.id == callee.id for t in ast.walk(n.target)) and "ConstantOpcodePriorities" in ast.unparse(n.iter):
                return "constant-ctors"
    return None


def entry_points(repo: Repo) -> List[Tuple[FuncInfo, Optional[List[ast.AST]], str]]:
    eps: List[Tuple[FuncInfo, Optional[List[ast.AST]], str]] = []

    def add(q, kind=None, why=""):
        lk = repo.lookup(q)
        if kind is not None and "." in q:
            owner, name = q.rsplit(".", 1)
            c = repo.classes.get(owner)
            lk = c.method(name, kind) if c else None
        if not isinstance(lk, FuncInfo):
            raise AnalysisError(f"C01 entry point {q} not found in the source")
        eps.append((lk, None, why or q))

    P = "fickling.fickle.Pickled"
    for q in (f"{P}.load", f"{P}.make_stream", "fickling.fickle.StackedPickle.load", f"{P}.unsafe_imports", f"{P}.non_standard_imports", f"{P}.dumps", f"{P}.__init__", "fickling.fickle.StackedPickle.__init__"):
        add(q)
    for prop in ("ast", "properties", "has_import", "has_call", "has_non_setstate_call", "opcodes", "nb_opcodes"):
        add(f"{P}.{prop}", "property")
    I = "fickling.fickle.Interpreter"
    for mname in ("__init__", "run", "step", "to_ast", "interpret", "unused_assignments", "unused_variables", "__str__", "new_variable", "stop"):
        add(f"{I}.{mname}")
    ops, _ = opcode_registry(repo)
    for oc in ops:
        for mname in ("__new__", "__init__", "run"):
            fm = repo.find_method(oc.cls, mname)
            if fm is not None:
                eps.append((fm, None, f"{oc.cls.qualname}.{mname}"))
    # the installed wrapper
    ssc = repo.cls("fickling.fickle.StackSliceOpcode")
    for g in repo.nested_of(ssc.method("__init_subclass__")):
        eps.append((g, None, g.qualname))
    for c in ("fickling.fickle.ASTProperties", "fickling.analysis.AnalysisContext", "fickling.analysis.AnalysisResults", "fickling.analysis.Analyzer", "fickling.analysis.AnalyzerMeta", "fickling.analysis.AnalysisResult", "fickling.analysis.Severity", "fickling.tracing.Trace", "fickling.fickle.Stack", "fickling.fickle.ModuleBody"):
        ci = repo.cls(c)
        for fs in ci.methods.values():
            for f in fs:
                eps.append((f, None, f.qualname))
    ab = repo.cls("fickling.analysis.Analysis")
    n_an = 0
    for c in repo.subclasses(ab):
        for name, fs in c.methods.items():
            for f in fs:
                if name != "__init_subclass__":  # runs at class creation (import time), not during an analysis
                    eps.append((f, None, f.qualname))
        n_an += 1
    if n_an < 9:
        raise AnalysisError(f"only {n_an - 1} Analysis subclasses found")
    add("fickling.analysis.check_safety")
    add("fickling.analysis.is_likely_safe")
    # every special method of every class on the analysis path is implicitly callable
    for c in repo.classes.values():
        if c.module.name in ("fickling.fickle", "fickling.analysis", "fickling.tracing"):
            for name, fs in c.methods.items():
                if name.startswith("__") and name.endswith("__") and name not in ("__init_subclass__",):
                    for f in fs:
                        eps.append((f, None, f.qualname + " (special method)"))
    # CLI: shared prologue + decompile / trace / check-safety arms
    main = repo.func("fickling.cli.main")
    eps.append((main, cli_restricted_roots(main), "fickling.cli.main [decompile / --trace / --check-safety arms]"))
    return eps


def cli_restricted_roots(main: FuncInfo) -> List[ast.AST]:
    """Statements of cli.main minus the --inject arm and the --create arm."""
    body = list(main.node.body)
    an = cli_args_name(main.node)
    out: List[ast.AST] = []
    found_create = found_inject = False
    for st in body:
        if isinstance(st, ast.If):
            c = cmp_normal(st.test)
            if c and dotted(c[0]) == f"{an}.create" and c[1] in ("is", "=="):
                found_create = True
                out.append(st.test)
                for s2 in st.body:
                    if isinstance(s2, ast.If):
                        c2 = cmp_normal(s2.test)
                        if c2 and dotted(c2[0]) == f"{an}.inject" and c2[1] in ("is not", "!="):
                            found_inject = True
                            out.append(s2.test)
                            out.extend(s2.orelse)  # elif check_safety ... else decompile
                            continue
                    out.append(s2)
                continue  # the else (create) arm is excluded
        out.append(st)
    if not (found_create and found_inject):
        raise AnalysisError("cli.main: `if args.create is None` / `if args.inject is not None` structure not recognised")
    return out


def analysis_reach(repo: Repo, cg: CallGraph, eps):
    """(reached, parent, sites) of the call graph explored from the analysis entry points (shared with C02/C13)."""
    ops, _ = opcode_registry(repo)

    def extra(s: CallSite):
        out = set()
        if s.dynamic:
            kind = dyn_kind(s)
            if kind == "opcode-ctors":
                for oc in ops:
                    out |= cg.class_ctor_targets(oc.cls)
            elif kind == "constant-ctors":
                for c in repo.subclasses(repo.cls("fickling.fickle.ConstantOpcode")):
                    out |= cg.class_ctor_targets(c)
            elif kind == "slice-runs":
                for c in repo.subclasses(repo.cls("fickling.fickle.StackSliceOpcode")):
                    m = c.method("run")
                    if m:
                        out.add(m)
        return out

    return cg.reachable([(f, r) for f, r, _ in eps], extra_edges=extra)


def run(rep: Report, tier: str):
    repo = load_repo()
    cg = CallGraph(repo)
    rep.explanation = (
        "Who-may-call analysis: class-hierarchy call graph (over-approximating: MRO + all overrides, untyped receivers go to "
        "every method of that name, property loads are calls, all special methods rooted) explored from every analysis entry "
        "point; every external callable / builtin / attribute read / dynamic dispatch in a reached function is classified by "
        "the frozen effect tables. No forbidden operation reachable => nothing named by the input can be imported, resolved, "
        "called, spawned, connected to or written, for every input."
    )
    rep.rule("C01.reach", "no forbidden operation (import/resolve/call/spawn/connect/write) is reachable from an analysis entry point", 150)
    rep.rule("C01.fixture", "the positive fixture (a deliberately non-inert analysis and opcode) is flagged by the same engine", 2)
    eps = entry_points(repo)
    reached, parent, sites = analysis_reach(repo, cg, eps)
    n_ext = 0
    findings = 0
    unaudited: List[str] = []
    distinct_ext: Set[str] = set()
    judge_sites(repo, cg, rep, reached, parent, sites, unaudited, distinct_ext)
    rep.units = {
        "functions_in_package": len([f for f in repo.functions.values() if f.kind != "module"]),
        "entry_points": len({f.qualname for f, _, _ in eps}),
        "reached_functions": len(reached),
        "call_sites_examined": len(sites),
        "distinct_external_callables": len(distinct_ext),
    }
    rep.extra["externals_seen"] = sorted(distinct_ext)[:400]
    if unaudited:
        raise AnalysisError("unaudited external operation(s) reachable from an analysis entry point (extend sa/effects.py after reading them): " + "; ".join(sorted(set(unaudited))[:12]))
    if len(reached) < 150:
        raise AnalysisError(f"only {len(reached)} functions reached (about 200 on the pinned tree): the call graph lost its anchors")
    # information: forbidden calls that exist but are outside R
    for f in repo.functions.values():
        if f.qualname in reached or not f.module.name.startswith("fickling.fickle"):
            continue
        for n in body_walk(f.node):
            if isinstance(n, ast.Call) and dotted(n.func) in ("compile", "eval", "exec", "marshal.dumps"):
                rep.info(f"forbidden-class call `{src(n.func)}` exists in {f.qualname} (line {n.lineno}) but that function is not reachable from any analysis entry point")
    # ---- positive fixture
    fixture(rep)


def judge_sites(repo, cg, rep, reached, parent, sites, unaudited, distinct_ext, fixture_mode=False):
    rule = "C01.fixture" if fixture_mode else "C01.reach"
    for s in sites:
        f = s.func
        where = f"{f.file}:{s.line}"
        verdicts: List[Tuple[str, str]] = []
        for q in s.externals:
            distinct_ext.add(q)
            v = classify_external(q)
            if q == "builtins.open" and isinstance(s.node, ast.Call):
                mode, lit = open_mode(s.node)
                if not lit:
                    v = "forbidden"
                    q = "builtins.open(<non-literal mode>)"
                elif any(ch in mode for ch in "wax+"):
                    if (f.qualname, mode) in EXEMPT_OPEN:
                        v = "inert"
                    else:
                        v = "forbidden"
                        q = f"builtins.open(mode={mode!r})"
                else:
                    v = "inert"
            if q in ("builtins.getattr", "builtins.setattr", "builtins.delattr") and isinstance(s.node, ast.Call) and len(s.node.args) >= 2:
                tgt_types = cg.expr_types(f, s.node.args[0], cg.local_env(f), getattr(cg, "_elem_cache", {}))
                on_module = any(t.startswith(("extref:", "mod:")) for t in tgt_types)
                nonconst = not isinstance(s.node.args[1], ast.Constant)
                if on_module and (nonconst or q != "builtins.getattr"):
                    v = "forbidden"
                    q = f"{q.split('.')[1]}(<module>, {'<computed name>' if nonconst else src(s.node.args[1])})"
            if q.startswith("codecs.") and isinstance(s.node, ast.Call):
                # codec lookup imports encodings.<name>: inert only for a literal codec name
                enc = s.node.args[1] if len(s.node.args) > 1 else next((k.value for k in s.node.keywords if k.arg == "encoding"), None)
                name0 = s.node.args[0] if s.node.args else None
                spread = any(isinstance(a, ast.Starred) for a in s.node.args) or any(k.arg is None for k in s.node.keywords)
                lit = not spread and ((enc is None and q.split(".")[1] in ("encode", "decode")) or isinstance(enc, ast.Constant) or (q.split(".")[1] in ("lookup", "getencoder", "getdecoder", "getreader", "getwriter") and isinstance(name0, ast.Constant)))
                v = "inert" if lit else "forbidden"
                if not lit:
                    q = f"{q}(<codec name computed from data>)"
            if (f.qualname, q) in EXEMPT_CALLS:
                v = "inert"
            verdicts.append((v, q))
        for qm in s.ext_methods:
            name = qm.rsplit(".", 1)[1]
            distinct_ext.add(qm)
            v = classify_method(name)
            if name in ("encode", "decode") and isinstance(s.node, ast.Call) and s.node.args and not isinstance(s.node.args[0], ast.Constant):
                v = "forbidden"
                qm = f"{qm}(<codec name computed from data>)"
            if qm.rsplit(".", 1)[0] in ("io.BytesIO", "io.StringIO", "BytesIO", "StringIO", "bytearray", "NoneType") and name in ("write", "writelines", "truncate", "seek", "read", "getvalue", "extend"):
                v = "inert"  # an in-memory buffer created by the analysis itself
            if v == "forbidden" and qm.split(".")[0] in ("str", "list", "dict", "set", "tuple", "bytes", "int", "value", "List", "Dict", "Set", "Tuple", "Optional", "Iterable", "Iterator", "Sequence", "FrozenSet", "NoneType", "bool", "float"):
                v = "inert"  # e.g. dict.get / list.remove on a builtin container: the method name collides, the receiver type rules it out
            verdicts.append((v, qm))
        for name in s.untyped_methods:
            v = classify_method(name)
            if name in ("encode", "decode") and isinstance(s.node, ast.Call) and s.node.args and not isinstance(s.node.args[0], ast.Constant):
                v = "forbidden"
            if v == "unaudited" and s.targets:
                v = "inert"  # resolved (by name) to fickling methods, which are explored themselves
            if v == "forbidden" and s.targets and name in ("run", "load", "start", "write", "call"):
                # name collides with a fickling method that is explored; an untyped external receiver remains possible
                recv = src(s.node.func.value) if isinstance(s.node, ast.Call) and isinstance(s.node.func, ast.Attribute) else "?"
                if name == "run" or (name == "load" and recv.split(".")[-1] in ("Pickled", "StackedPickle")):
                    v = "inert"
            verdicts.append((v, f"<untyped>.{name}"))
        if s.dynamic and not fixture_mode:
            if dyn_kind(s) is not None:
                verdicts.append(("inert", f"dynamic:{s.dynamic}"))
            else:
                verdicts.append(("unaudited", f"dynamic call of `{s.dynamic}`"))
        for v, q in verdicts:
            if v == "forbidden":
                path = cg.path_to(parent, f.qualname)
                rep.bad(rule, f.qualname, f"forbidden:{q}", f"`{src(s.node)}` ({q}) is reachable from an analysis entry point: inspecting a pickle can import / resolve / call / spawn / write", f.file, s.line, path=path)
            elif v == "unaudited":
                unaudited.append(f"{q} at {where} in {f.qualname}")
    if not fixture_mode:
        for qn, f in reached.items():
            rep.ok(rule, qn, "reached; every external operation in it is audited-inert", f"{f.file}:{f.line}")


def fixture(rep: Report):
    fx = VERIF / "fixtures" / "c01_bad.py"
    if not fx.exists():
        raise AnalysisError("positive fixture fixtures/c01_bad.py missing")
    from ..model import Repo as R

    class FixtureRepo(R):
        pass

    repo2 = R(load_repo().root, extra_files=[fx])
    cg2 = CallGraph(repo2)
    fmod = repo2.modules["c01_bad"]
    roots = [(f, None) for f in repo2.functions.values() if f.module is fmod and f.kind != "module"]
    reached, parent, sites = cg2.reachable(roots)
    tmp = Report("C01", rep.tier)
    un: List[str] = []
    judge_sites(repo2, cg2, tmp, reached, parent, [s for s in sites if s.func.module is fmod], un, set(), fixture_mode=True)
    keys = sorted(f.detail for f in tmp.findings)
    want = ["forbidden:builtins.eval", "forbidden:importlib.util.find_spec"]
    if all(any(w in k for k in keys) for w in want):
        for w in want:
            rep.ok("C01.fixture", "fixtures/c01_bad.py", f"engine flags {w}", str(fx))
    else:
        raise AnalysisError(f"positive fixture not flagged as expected: got {keys}, want {want} (the reachability engine is broken)")
