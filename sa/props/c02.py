"""C02 -- the checked load is fail-closed and loads exactly the bytes it analysed.

Decided on `fickling.loader.load` (CFG + dominators) and on the three arming sites:

* C02.dominate           every call of a real unpickler and every value-returning `return` is dominated by
                         (i) Pickled.load(<stream param>), (ii) check_safety(pickled=<that object>) and (iii) the
                         true edge of `<that result>.severity <= <threshold param>`; the false edge only raises
                         UnsafeFileError(_, <that result>.to_dict()).
* C02.same-bytes         the unpickler is fed `<the analysed object>.dumps()`; the caller's stream is used for
                         nothing but the one parse (and the error's file field) -- no second read, seek or load.
* C02.no-lenient-handler no exception handler in the checked loader can reach an unpickler call or a value return.
* C02.arm                every arming path binds a checked loader: run_hook stores loader.load (or a wrapper all of
                         whose returns are loader.load(<stream>, ...) and which hands the stream to nothing else);
                         always_check_safety and the context manager's __enter__ reach run_hook; fickling.load is it.
"""

from __future__ import annotations

import ast
from typing import List, Optional, Set

from ..cfg import CFG, Node
from ..model import FuncInfo, Repo, dotted, load_repo
from ..report import AnalysisError, Report
from ..util import hoist_calls, body_walk, cmp_oriented, kwarg, src, walk_no_nested

LOADER = "fickling.loader.load"
UNPICKLERS = {
    "pickle.load", "pickle.loads", "pickle.Unpickler", "pickle._Unpickler", "pickle._load", "pickle._loads",
    "_pickle.load", "_pickle.loads", "_pickle.Unpickler", "cPickle.load", "cPickle.loads",
    "dill.load", "dill.loads", "cloudpickle.load", "cloudpickle.loads", "joblib.load", "torch.load", "numpy.load", "marshal.loads", "marshal.load", "shelve.open",
}


def resolve_call(repo: Repo, fn: FuncInfo, c: ast.Call, local: Set[str]) -> Optional[str]:
    q = repo.resolve_expr(fn.module, c.func, local)
    return q


def unpickler_calls(repo: Repo, fn: FuncInfo) -> List[ast.Call]:
    local = set(fn.params())
    # names aliasing originals inside the module: X = pickle.load at module level
    out = []
    for n in body_walk(fn.node):
        if isinstance(n, ast.Call):
            q = resolve_call(repo, fn, n, local) or ""
            if q in UNPICKLERS:
                out.append(n)
            elif isinstance(n.func, ast.Attribute) and n.func.attr in ("load", "loads") and isinstance(n.func.value, ast.Call):
                qq = resolve_call(repo, fn, n.func.value, local) or ""
                if qq in UNPICKLERS:
                    out.append(n)
            else:
                # module-level alias of an unpickler (e.g. `_orig = pickle.load`)
                d = dotted(n.func)
                if isinstance(n.func, ast.Name) and n.func.id in local:
                    # a parameter whose default is a real unpickler (`def load(f, unpickle=pickle.loads)`): the default is
                    # evaluated once, when the function is defined, and is what every ordinary call uses
                    a = fn.node.args
                    names = [x.arg for x in a.posonlyargs + a.args]
                    dmap = dict(zip(names[len(names) - len(a.defaults):], a.defaults))
                    dmap.update({k.arg: d for k, d in zip(a.kwonlyargs, a.kw_defaults) if d is not None})
                    dv = dmap.get(n.func.id)
                    if dv is not None and (repo.resolve_expr(fn.module, dv) or "") in UNPICKLERS:
                        out.append(n)
                        continue
                if isinstance(n.func, ast.Name):
                    # function-local alias: `real = pickle.loads; real(...)`
                    loc = [st.value for st in body_walk(fn.node) if isinstance(st, ast.Assign) and any(isinstance(t, ast.Name) and t.id == n.func.id for t in st.targets)]
                    if loc and all((repo.resolve_expr(fn.module, v, local) or "") in UNPICKLERS for v in loc):
                        out.append(n)
                        continue
                if d and d in fn.module.assigns and len(fn.module.assigns[d]) >= 1:
                    for v in fn.module.assigns[d]:
                        if (repo.resolve_expr(fn.module, v) or "") in UNPICKLERS:
                            out.append(n)
    return out


def check_loader(repo: Repo, rep: Report):
    f = repo.func(LOADER)
    params = f.params()
    if not params:
        raise AnalysisError("loader.load has no parameters")
    stream = params[0]
    # the parse and the analysis are followed by the name they are bound to: give them one where the source nests the calls
    _f0 = f
    f = hoist_calls(f, lambda c: (repo.resolve_expr(_f0.module, c.func, set(params)) or "") in ("fickling.fickle.Pickled.load", "fickling.fickle.StackedPickle.load", "fickling.analysis.check_safety"))
    g = CFG(f.node)
    dom = g.dominators()
    file = f.file
    # ---- (i) the parse
    parse_calls = [n for n in body_walk(f.node) if isinstance(n, ast.Call) and (repo.resolve_expr(f.module, n.func, set(params)) or "") in ("fickling.fickle.Pickled.load", "fickling.fickle.StackedPickle.load")]
    # names the caller's stream flows into through wrapping calls (make_stream, BufferedReader, ...)
    aliases = {stream}
    changed = True
    while changed:
        changed = False
        for n in body_walk(f.node):
            if isinstance(n, ast.Assign) and isinstance(n.value, ast.Call) and n.value not in parse_calls:
                if any(isinstance(a, ast.Name) and a.id in aliases for a in list(n.value.args) + [k.value for k in n.value.keywords]):
                    for t in n.targets:
                        if isinstance(t, ast.Name) and t.id not in aliases:
                            aliases.add(t.id)
                            changed = True
            if isinstance(n, ast.Assign) and isinstance(n.value, ast.Name) and n.value.id in aliases:
                for t in n.targets:
                    if isinstance(t, ast.Name) and t.id not in aliases:
                        aliases.add(t.id)
                        changed = True
    parse_calls = [c for c in parse_calls if c.args and isinstance(c.args[0], ast.Name) and c.args[0].id in aliases]
    if len(parse_calls) != 1:
        if not parse_calls:
            raise AnalysisError(f"loader.load: no Pickled.load(<{stream}>) call found (anchor vanished)")
        rep.bad("C02.same-bytes", f.qualname, "parsed-more-than-once", f"the caller's stream is parsed {len(parse_calls)} times in loader.load: the object analysed need not be the object loaded", f.file, f.line)
        return
    pnode = g.node_of(parse_calls[0])
    if not (isinstance(pnode.ast, ast.Assign) and len(pnode.ast.targets) == 1 and isinstance(pnode.ast.targets[0], ast.Name) and pnode.ast.value is parse_calls[0]):
        raise AnalysisError("loader.load: the parsed object is not bound to a single name")
    pk = pnode.ast.targets[0].id
    # ---- (ii) the analysis
    cs_calls = [n for n in body_walk(f.node) if isinstance(n, ast.Call) and (repo.resolve_expr(f.module, n.func, set(params)) or "") == "fickling.analysis.check_safety"]
    cs_calls = [c for c in cs_calls if (lambda a: isinstance(a, ast.Name) and a.id == pk)(kwarg(c, "pickled", 0))]
    if len(cs_calls) != 1:
        rep.bad("C02.dominate", f.qualname, "no-analysis-of-parsed-object", f"loader.load does not call check_safety on the object parsed from `{stream}` exactly once (found {len(cs_calls)} such call(s))", file, f.line)
        return
    cnode = g.node_of(cs_calls[0])
    if not (isinstance(cnode.ast, ast.Assign) and isinstance(cnode.ast.targets[0], ast.Name) and cnode.ast.value is cs_calls[0]):
        raise AnalysisError("loader.load: the check_safety result is not bound to a single name")
    res = cnode.ast.targets[0].id
    # single assignment of pk / res / threshold
    for name in (pk, res):
        stores = [n for n in body_walk(f.node) if isinstance(n, (ast.Assign, ast.AugAssign, ast.AnnAssign, ast.For, ast.NamedExpr)) and any(isinstance(x, ast.Name) and x.id == name and isinstance(x.ctx, ast.Store) for x in ast.walk(n))]
        if len(stores) != 1:
            rep.bad("C02.dominate", f.qualname, f"rebinding:{name}", f"`{name}` is assigned {len(stores)} times in loader.load: the analysed object / verdict may differ from the one loaded", file, f.line)
    # ---- (iii) the verdict branch
    verdict = []
    for t in g.find(lambda n: n.kind == "test"):
        c = cmp_oriented(t.ast, lambda e: isinstance(e, ast.Attribute) and e.attr == "severity" and dotted(e.value) == res)
        if c:
            verdict.append((t, c))
    if len(verdict) != 1:
        rep.bad("C02.dominate", f.qualname, f"verdict-branches:{len(verdict)}", f"loader.load has {len(verdict)} branch(es) on `{res}.severity` (exactly one `<= threshold` test is required)", file, f.line)
        return
    t, (l, op, r) = verdict[0]
    thr_ok = isinstance(r, ast.Name) and r.id in params and r.id != stream
    rebinds_thr = thr_ok and any(isinstance(n, (ast.Assign, ast.AugAssign)) and any(isinstance(x, ast.Name) and x.id == r.id and isinstance(x.ctx, ast.Store) for x in ast.walk(n)) for n in body_walk(f.node))
    if op == "<=" and thr_ok and not rebinds_thr:
        rep.ok("C02.dominate", f.qualname, f"verdict test `{res}.severity <= {r.id}` (normal form of `{src(t.ast)}`)", f"{file}:{t.line}")
        allow_val = True
    elif op == ">" and thr_ok and not rebinds_thr:
        rep.ok("C02.dominate", f.qualname, f"verdict test `{res}.severity > {r.id}` guards the refusal", f"{file}:{t.line}")
        allow_val = False
    else:
        rep.bad("C02.dominate", f.qualname, f"verdict-predicate:{op}", f"the load is guarded by `{src(t.ast)}` (normal form `{res}.severity {op} {src(r)}`); required `severity <= <threshold parameter>`", file, t.line)
        return
    allow_branch = next(n for n in g.nodes if n.kind == "branch" and n.test == t.id and n.value is allow_val)
    deny_branch = next(n for n in g.nodes if n.kind == "branch" and n.test == t.id and n.value is (not allow_val))
    # ---- unpickler calls and value returns dominated by parse, analysis, allow-branch
    ups = unpickler_calls(repo, f)
    if not ups:
        raise AnalysisError("loader.load: no call of a real unpickler found (anchor vanished)")
    sinks: List[tuple] = [(g.node_of(c), f"unpickler call `{src(c)}`") for c in ups]
    for rn in g.stmt_nodes(ast.Return):
        v = rn.ast.value
        if v is not None and not isinstance(v, ast.Constant):
            sinks.append((rn, f"`{src(rn.ast)}`"))
    for node, what in sinks:
        missing = []
        if pnode.id not in dom[node.id] and node.id != pnode.id:
            missing.append(f"Pickled.load({stream})")
        if cnode.id not in dom[node.id]:
            missing.append(f"check_safety(pickled={pk})")
        if allow_branch.id not in dom[node.id]:
            missing.append(f"the `{res}.severity <= {r.id}` edge")
        if missing:
            rep.bad("C02.dominate", f.qualname, "undominated:" + ("unpickler" if "unpickler" in what else "return"), f"{what} at line {node.line} is reachable without passing {', '.join(missing)}: a load can happen that the verdict did not allow", file, node.line)
        else:
            rep.ok("C02.dominate", f.qualname, f"{what} dominated by parse, analysis and the allowing verdict edge", f"{file}:{node.line}")
    # ---- refusal: from the deny edge only UnsafeFileError(_, res.to_dict()) is reachable
    seen = set()
    todo = [deny_branch.id]
    ends = []
    while todo:
        x = todo.pop()
        if x in seen:
            continue
        seen.add(x)
        if x in (g.exit, g.raise_exit):
            ends.append(x)
        todo.extend(m for m, _ in g.succ[x])
    raises = [g.nodes[x] for x in seen if g.nodes[x].kind == "stmt" and isinstance(g.nodes[x].ast, ast.Raise)]
    good_raise = [
        n for n in raises
        if isinstance(n.ast.exc, ast.Call) and (repo.resolve_expr(f.module, n.ast.exc.func) or "").endswith("UnsafeFileError") and len(n.ast.exc.args) >= 2
        and isinstance(n.ast.exc.args[1], ast.Call) and isinstance(n.ast.exc.args[1].func, ast.Attribute) and n.ast.exc.args[1].func.attr == "to_dict" and dotted(n.ast.exc.args[1].func.value) == res
    ]
    if g.exit in ends:
        rep.bad("C02.dominate", f.qualname, "refusal-falls-through", f"when `{res}.severity` exceeds the threshold, loader.load can still finish normally (no raise on every path)", file, t.line)
    elif not good_raise or len(good_raise) != len(raises):
        rep.bad("C02.dominate", f.qualname, "refusal-error", f"the refusal path does not (only) raise UnsafeFileError(_, {res}.to_dict()) carrying the verdict", file, t.line)
    else:
        rep.ok("C02.dominate", f.qualname, f"refusal path raises UnsafeFileError(_, {res}.to_dict())", f"{file}:{good_raise[0].line}")
    # ---- same bytes
    for c in ups:
        arg = c.args[0] if c.args else None
        if isinstance(c.func, ast.Attribute) and isinstance(c.func.value, ast.Call):
            inner = c.func.value
            arg = inner.args[0] if inner.args else None
        for _ in range(3):
            # follow a single-assignment local, unwrap BytesIO(...)
            if isinstance(arg, ast.Name):
                binds = [n.value for n in body_walk(f.node) if isinstance(n, ast.Assign) and any(isinstance(t, ast.Name) and t.id == arg.id for t in n.targets)]
                if len(binds) == 1:
                    arg = binds[0]
            if isinstance(arg, ast.Call) and (dotted(arg.func) or "").endswith("BytesIO") and arg.args:
                arg = arg.args[0]
        if isinstance(arg, ast.Call) and isinstance(arg.func, ast.Attribute) and arg.func.attr == "dumps" and dotted(arg.func.value) == pk and not arg.args:
            rep.ok("C02.same-bytes", f.qualname, f"unpickles `{pk}.dumps()`: the re-serialisation of the analysed object", f"{file}:{c.lineno}")
        else:
            rep.bad("C02.same-bytes", f.qualname, "loads-other-bytes", f"the real unpickler is fed `{src(arg) if arg is not None else '?'}`, not `{pk}.dumps()`: the bytes executed need not be the bytes analysed", file, c.lineno)
    uses = [n for n in body_walk(f.node) if isinstance(n, ast.Name) and n.id in aliases and isinstance(n.ctx, ast.Load)]
    parents = {}
    for n in body_walk(f.node):
        for ch in ast.iter_child_nodes(n):
            parents[ch] = n
    bad_uses = []
    for u in uses:
        p = parents.get(u)
        if isinstance(p, ast.Call) and p is parse_calls[0] and u in p.args:
            continue
        if isinstance(p, ast.Call) and (repo.resolve_expr(f.module, p.func) or "").endswith("UnsafeFileError") and p.args and p.args[0] is u:
            continue
        if isinstance(p, ast.Call) and isinstance(parents.get(p), ast.Assign) and any(isinstance(t, ast.Name) and t.id in aliases for t in parents[p].targets):
            continue  # the wrapping call that created an alias
        if isinstance(p, ast.Assign):
            continue
        if isinstance(p, ast.Attribute) and p.attr in ("tell", "seekable", "name", "mode", "closed", "readable"):
            continue  # does not consume or move the stream
        bad_uses.append((u, p))
    if bad_uses:
        u, p = bad_uses[0]
        rep.bad("C02.same-bytes", f.qualname, "stream-reused", f"the caller's stream `{stream}` is used again at line {u.lineno} (`{src(p) if p is not None else stream}`): a second read/seek/load re-opens the analyse-then-load race", file, u.lineno)
    else:
        rep.ok("C02.same-bytes", f.qualname, f"`{stream}` flows only into the one Pickled.load and the error's file field ({len(uses)} uses)", f"{file}:{f.line}")
    # ---- lenient handlers
    handlers = g.find(lambda n: n.kind == "handler")
    sink_ids = {n.id for n, _ in sinks}
    lenient = False
    for h in handlers:
        seen = set()
        todo = [h.id]
        while todo:
            x = todo.pop()
            if x in seen:
                continue
            seen.add(x)
            todo.extend(m for m, _ in g.succ[x])
        if seen & sink_ids or (g.exit in seen):
            lenient = True
            rep.bad("C02.no-lenient-handler", f.qualname, f"handler:{src(h.ast.type) if h.ast.type is not None else 'bare'}", f"the `except {src(h.ast.type) if h.ast.type is not None else ''}` handler at line {h.line} can continue to a load / normal return: an input on which analysis fails would be loaded anyway", file, h.line)
    if not lenient:
        rep.ok("C02.no-lenient-handler", f.qualname, f"{len(handlers)} exception handler(s); none reaches the unpickler or a normal return", f"{file}:{f.line}")


def check_parse_handlers(repo: Repo, rep: Report):
    """'including when analysis itself fails ... nothing named in the pickle has been resolved or called': the parse the checked
    loader relies on must fail as a whole.  In Pickled.load no exception handler may complete normally or return - a handler that
    lets a stream which stopped being decodable part-way come back as the opcodes decoded so far hands a prefix of the input to
    the analysis and then to the real unpickler, which executes that prefix before it fails."""
    f = repo.functions.get("fickling.fickle.Pickled.load")
    if f is None:
        raise AnalysisError("Pickled.load not found (anchor vanished)")
    g = CFG(f.node)
    handlers = g.find(lambda n: n.kind == "handler")
    bad = False
    for h in handlers:
        seen, todo = set(), [h.id]
        while todo:
            x = todo.pop()
            if x in seen:
                continue
            seen.add(x)
            todo.extend(m for m, _ in g.succ[x])
        if g.exit in seen:
            bad = True
            t = src(h.ast.type) if h.ast.type is not None else "bare"
            rep.bad("C02.no-lenient-handler", f.qualname, f"decode-error-swallowed:{t}", f"the `except {t}` handler at line {h.line} of Pickled.load can complete without raising: a stream that stops being decodable part-way is parsed 'successfully' into the opcodes before the damage, analysed as that prefix and handed to the real unpickler, which resolves and calls what the prefix names before it fails", f.file, h.line)
    if not bad:
        rep.ok("C02.no-lenient-handler", f.qualname, f"{len(handlers)} exception handler(s) in the parser; every path through them raises", f"{f.file}:{f.line}")


def is_checked_loader(repo: Repo, mod, e: ast.AST, scope: Optional[FuncInfo], depth: int = 0) -> Optional[str]:
    """None if `e` denotes the checked loader (or a faithful wrapper); otherwise the reason it does not."""
    if depth > 3:
        return "wrapper nesting too deep"
    q = repo.resolve_expr(mod, e, set(scope.params()) if scope else ())
    if q == LOADER:
        return None
    target: Optional[FuncInfo] = None
    if isinstance(e, ast.Lambda):
        target = next((f for f in repo.functions.values() if f.node is e), None)
    elif isinstance(e, ast.Name) and scope is not None:
        target = next((f for f in repo.nested_of(scope) if f.name == e.id), None)
        if target is None:
            # local alias: x = <expr>
            for n in body_walk(scope.node):
                if isinstance(n, ast.Assign) and any(isinstance(t, ast.Name) and t.id == e.id for t in n.targets):
                    return is_checked_loader(repo, mod, n.value, scope, depth + 1)
    if target is None and q:
        lk = repo.lookup(q)
        if isinstance(lk, FuncInfo):
            target = lk
    if target is None:
        return f"`{src(e)}` resolves to {q or 'an unknown value'}, not to fickling.loader.load"
    ps = target.params()
    if not ps:
        return f"wrapper {target.qualname} takes no stream parameter"
    s = ps[0]
    body = target.node.body if isinstance(target.node.body, list) else [ast.Return(value=target.node.body)]
    rets = [n for st in body for n in walk_no_nested(st) if isinstance(n, ast.Return)]
    if not rets:
        return f"wrapper {target.qualname} returns nothing"
    for r in rets:
        v = r.value
        if not isinstance(v, ast.Call):
            return f"wrapper {target.qualname} returns `{src(v) if v is not None else None}` instead of the checked loader's result"
        why = is_checked_loader(repo, target.module, v.func, target, depth + 1)
        if why is not None:
            return f"wrapper {target.qualname}: {why}"
        if not (v.args and isinstance(v.args[0], ast.Name) and v.args[0].id == s):
            return f"wrapper {target.qualname} does not pass its stream to the checked loader"
        # options the caller gives the unpickler (encoding, errors, fix_imports, buffers) must reach it: a wrapper that
        # accepts them and drops them returns something else than the stock unpickler does for the same bytes
        a = target.node.args
        if a.vararg is not None and not any(isinstance(x, ast.Starred) and isinstance(x.value, ast.Name) and x.value.id == a.vararg.arg for x in v.args):
            return f"wrapper {target.qualname} accepts *{a.vararg.arg} but does not forward it to the checked loader: unpickler options given by the caller are silently dropped"
        if a.kwarg is not None and not any(k.arg is None and isinstance(k.value, ast.Name) and k.value.id == a.kwarg.arg for k in v.keywords):
            return f"wrapper {target.qualname} accepts **{a.kwarg.arg} but does not forward it to the checked loader: unpickler options given by the caller (encoding=, errors=, fix_imports=) are silently dropped, so the returned object differs from the stock unpickler's"
    # the stream goes nowhere else
    for st in body:
        for n in walk_no_nested(st):
            if isinstance(n, ast.Call) and not any(n is r.value for r in rets):
                if any(isinstance(a, ast.Name) and a.id == s for a in list(n.args) + [k.value for k in n.keywords]):
                    return f"wrapper {target.qualname} also hands the stream to `{src(n.func)}` (an unchecked path)"
    return None


def check_arming(repo: Repo, rep: Report):
    hook = repo.module("fickling.hook")
    rh = repo.func("fickling.hook.run_hook")
    stores = [n for n in body_walk(rh.node) if isinstance(n, ast.Assign) and any(dotted(t) in ("pickle.load", "_pickle.load") for t in n.targets)]
    if not stores:
        rep.bad("C02.arm", rh.qualname, "does-not-bind", "run_hook no longer rebinds pickle.load", rh.file, rh.line)
    for n in stores:
        why = is_checked_loader(repo, hook, n.value, rh)
        if why is None:
            rep.ok("C02.arm", rh.qualname, f"`{src(n)}` binds the checked loader", f"{rh.file}:{n.lineno}")
        else:
            rep.bad("C02.arm", rh.qualname, "binds-unchecked", f"`{src(n)}`: {why}", rh.file, n.lineno)
    g = CFG(rh.node)
    for n in stores:
        node = g.node_of(n.value)
        if node is None or node.id not in g.post_dominators().get(g.entry, set()):
            rep.bad("C02.arm", rh.qualname, "binds-conditionally", f"`{src(n)}` is not executed on every path through run_hook", rh.file, n.lineno)
    acs = repo.func("fickling.hook.always_check_safety")
    calls = [n for n in body_walk(acs.node) if isinstance(n, ast.Call) and (repo.resolve_expr(hook, n.func) or "") == "fickling.hook.run_hook"]
    g = CFG(acs.node)
    if calls and g.node_of(calls[0]).id in g.post_dominators().get(g.entry, set()):
        rep.ok("C02.arm", acs.qualname, "always_check_safety() -> run_hook() unconditionally", f"{acs.file}:{acs.line}")
    else:
        rep.bad("C02.arm", acs.qualname, "does-not-arm", "always_check_safety does not unconditionally call run_hook", acs.file, acs.line)
    ctx = repo.cls("fickling.context.FicklingContextManager")
    ent = ctx.method("__enter__")
    if ent is None:
        raise AnalysisError("FicklingContextManager.__enter__ not found")
    g = CFG(ent.node)
    arm = [n for n in body_walk(ent.node) if isinstance(n, ast.Call) and (repo.resolve_expr(ent.module, n.func) or "") in ("fickling.hook.run_hook", "fickling.hook.always_check_safety")]
    direct = [n for n in body_walk(ent.node) if isinstance(n, ast.Assign) and any(dotted(t) == "pickle.load" for t in n.targets)]
    ok = False
    if arm and g.node_of(arm[0]).id in g.post_dominators().get(g.entry, set()):
        ok = True
        rep.ok("C02.arm", ent.qualname, "__enter__ -> hook.run_hook() unconditionally", f"{ent.file}:{arm[0].lineno}")
    for n in direct:
        why = is_checked_loader(repo, ent.module, n.value, ent)
        if why is None and g.node_of(n.value).id in g.post_dominators().get(g.entry, set()):
            ok = True
            rep.ok("C02.arm", ent.qualname, f"`{src(n)}` binds a checked loader", f"{ent.file}:{n.lineno}")
        elif why is not None:
            ok = False
            rep.bad("C02.arm", ent.qualname, "binds-unchecked", f"`{src(n)}`: {why}", ent.file, n.lineno)
    if not ok and not any(f.construct == ent.qualname for f in rep.findings):
        rep.bad("C02.arm", ent.qualname, "does-not-arm", "entering the safety context does not arm the checked loader on every path", ent.file, ent.line)
    init = repo.module("fickling")
    if repo.resolve_qual("fickling.load") == LOADER:
        rep.ok("C02.arm", "fickling.load", "fickling.load is fickling.loader.load", "fickling/__init__.py:1")
    else:
        rep.bad("C02.arm", "fickling.load", "not-the-checked-loader", f"fickling.load resolves to {repo.resolve_qual('fickling.load')}", "fickling/__init__.py", 1)
    # the import hook's replacement module binds the checked loader too (informational face)
    ih = repo.modules.get("fickling.import_hook")
    if ih is not None:
        fl = repo.classes.get("fickling.import_hook.FickleLoader")
        em = fl.method("exec_module") if fl else None
        if em is not None:
            st = [n for n in body_walk(em.node) if isinstance(n, ast.Assign) and any(dotted(t) == "module.load" for t in n.targets)]
            for n in st:
                why = is_checked_loader(repo, ih, n.value, em)
                if why is None:
                    rep.ok("C02.arm", em.qualname, "import hook binds module.load = loader.load", f"{em.file}:{n.lineno}", nontrivial=False)
                else:
                    rep.bad("C02.arm", em.qualname, "binds-unchecked", f"`{src(n)}`: {why}", em.file, n.lineno)


def run(rep: Report, tier: str):
    repo = load_repo()
    rep.explanation = (
        "Control-flow graph of fickling.loader.load with dominators: every unpickler call and value return is dominated by "
        "the parse of the caller's stream, the safety analysis of that very object and the allowing edge of the "
        "`severity <= threshold` test; def-use of the stream parameter; reachability from exception handlers; resolution "
        "of what each arming site binds. `<=` being the documented order is C10.order's obligation."
    )
    rep.rule("C02.dominate", "unpickler calls / value returns dominated by parse, analysis and the allowing verdict edge; refusal raises UnsafeFileError with the verdict", 4)
    rep.rule("C02.same-bytes", "unpickles <analysed object>.dumps(); the stream is read exactly once", 2)
    rep.rule("C02.no-lenient-handler", "no handler reaches a load or a normal return", 1)
    rep.rule("C02.arm", "every arming path binds the checked loader", 4)
    rep.assume("Severity.__le__ is the documented order (discharged by C10.order)")
    rep.assume("Pickled.dumps() is the byte-exact re-serialisation of what was parsed (C06.concat) and check_safety analyses the object it is given (C10/C04)")
    check_loader(repo, rep)
    check_parse_handlers(repo, rep)
    check_arming(repo, rep)
    # "in every non-returning case nothing named in the pickle has been resolved or called": before the real
    # load only the parser and the analyses run -- C01's who-may-call analysis, re-keyed
    from . import c01 as _c01

    tmp = Report("C01", tier)
    _c01.run(tmp, tier)
    rep.rule("C02.analysis-inert", "parse and safety analysis (everything that runs before the verdict) cannot import / resolve / call anything (C01.reach)", 100)
    for f in tmp.findings:
        rep.bad("C02.analysis-inert", f.construct, f.detail, "reached before the verdict is known: " + f.message, f.file, f.line, path=f.path)
    for i in tmp.instances:
        if i.ok and i.rule == "C01.reach":
            rep.ok("C02.analysis-inert", i.construct, i.what, i.where)

    # value level, interpreted last: the checked load end to end over byte streams x thresholds x ways of arming x kinds of stream
    from ..loadworlds import explore as _load_explore

    rep.rule("C02.load-worlds", "returns only within the threshold and then exactly what the stock unpickler gives for the analysed bytes; otherwise raises with nothing resolved or called", 1)
    found, n_worlds = _load_explore(repo, tier)
    ldf = repo.func(LOADER)
    for key, (c, msg) in sorted(found.items()):
        rep.bad("C02.load-worlds", ldf.qualname, key, f"{msg} [{c} world(s)]", ldf.file, ldf.line)
    rep.ok("C02.load-worlds", ldf.qualname, f"{n_worlds} worlds (10 byte streams of every verdict class incl. three on which parsing or analysis raises x six thresholds x checked loader / global hook / safety context x in-memory, file-like and content-changing streams) interpreted end to end; the pickle module's real entry points are CPython's unpickler on inert logging stand-ins", "", nontrivial=True)

