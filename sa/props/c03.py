"""C03 -- no hidden execution: everything the VM would import or call is in the decompile.

* C03.emit          each call-making opcode builds, on every normal path, an `ast.Call` whose callee and
                    arguments come from the VM operands, and that call reaches the module body; each
                    import-making opcode appends an `ImportFrom(module, [name])` built from its operands
                    unless the module is one of the three builtins aliases (and under no other condition).
* C03.no-lost-call  no opcode leaves a call expression living only on the symbolic stack while some opcode
                    can discard stack values (B = {} or D = {}).
* C03.refuse        an opcode fickling does not model is refused: unregistered -> NotImplementedError at
                    parse; registered without `run` -> NotImplementedError at run; no registered opcode with
                    a declared effect is handled by an effect-free `run`.
* C03.body-chain    statements appended to the module body are never filtered on their way into the Module,
                    and every decompilation uses a fresh interpreter (a half-run one is never resumed).
"""

from __future__ import annotations

import ast
import pickletools
from typing import Dict, List, Optional, Set

from ..cfg import CFG
from ..model import Repo, dotted, load_repo
from ..opsummary import OpSummary, all_summaries, dropped_roots, fresh_nodes, kept_values, name_binding, reach, roots_of, sunk_values
from ..report import AnalysisError, Report
from ..util import body_walk, src, store_targets
from ..vmvals import Cond, Const, Fresh, Item, Seq, SliceV, Unknown, Val

BUILTIN_ALIASES = {"__builtin__", "__builtins__", "builtins"}

# which VM operand each field of the emitted call must derive from (read off Lib/pickle.py's load_*)
CALL_SPEC: Dict[str, Dict[str, str]] = {
    "REDUCE": {"func": "T1", "args": "T0"},
    "NEWOBJ": {"func": "T1", "args": "T0"},
    "NEWOBJ_EX": {"func": "T2", "args": "T1"},
    "OBJ": {"func": "slice", "args": "slice"},
    "INST": {"func": "arg", "args": "slice"},
    "BINPERSID": {"func": "attr:persistent_load", "args": "T0"},
    "BUILD": {"func": "attr:__setstate__:T1", "args": "T0"},
}
IMPORT_SPEC: Dict[str, Dict[str, str]] = {
    "GLOBAL": {"module": "arg", "name": "arg"},
    "INST": {"module": "arg", "name": "arg"},
    "STACK_GLOBAL": {"module": "T1", "name": "T0"},
}


def _field_roots(call: Fresh, fld: str, st) -> Set[str]:
    v = call.fields.get(fld)
    return roots_of(v, st) if v is not None else set()


def _is_builtin_exemption(c: Cond, module_roots: Set[str], st) -> bool:
    n = c.node
    if not (isinstance(n, ast.Compare) and len(n.ops) == 1 and isinstance(n.ops[0], ast.In)):
        return False
    comp = n.comparators[0]
    if not isinstance(comp, (ast.Tuple, ast.List, ast.Set)):
        return False
    names = [e.value for e in comp.elts if isinstance(e, ast.Constant)]
    if len(names) != len(comp.elts) or not set(names) <= BUILTIN_ALIASES:
        return False
    # the tested value is the module operand
    left = c.kids[0] if c.kids else None
    return left is not None and bool(roots_of(left, st) & module_roots or module_roots <= roots_of(left, st))


def check_emit(repo: Repo, rep: Report, sums: List[OpSummary]):
    by = {s.name: s for s in sums}
    for name, spec in CALL_SPEC.items():
        s = by.get(name)
        if s is None:
            rep.ok("C03.emit", f"pickletools.{name}", "call-making opcode not registered: refused at parse time", "", nontrivial=False)
            continue
        q = s.oc.cls.qualname + ".run"
        if s.refuses:
            rep.ok("C03.emit", q, f"{name}: refuses (no normal path)", s.where(), nontrivial=False)
            continue
        for p in s.normal:
            st = p.state
            tag = "; ".join(st.conds) or "unconditional"
            calls = fresh_nodes(p, "ast.Call")
            good = None
            why = []
            for c in calls:
                fr = _field_roots(c, "func", st)
                ar = _field_roots(c, "args", st)
                fspec = spec["func"]
                if fspec.startswith("attr:"):
                    parts = fspec.split(":")
                    f = c.fields.get("func")
                    okf = isinstance(f, Fresh) and f.cls == "ast.Attribute" and isinstance(f.fields.get("attr"), Const) and f.fields["attr"].value == parts[1]
                    if okf and len(parts) == 3:
                        base = f.fields.get("value")
                        bound = name_binding(base, p)
                        br = roots_of(bound, st) if bound is not None else roots_of(base, st)
                        okf = parts[2] in br
                else:
                    okf = fspec in fr
                    # the callee must be the VM operand itself, not something derived from it (an attribute of it,
                    # a wrapper): the VM calls exactly that object.  NEWOBJ/NEWOBJ_EX may spell the VM's
                    # cls.__new__(cls, ...) literally.
                    fv = c.fields.get("func")
                    if okf and name in ("REDUCE", "OBJ", "NEWOBJ", "NEWOBJ_EX"):
                        is_operand = (isinstance(fv, Item) and fv.label == fspec) or (isinstance(fv, SliceV) and fv.part == "first" and fspec == "slice")
                        is_new = name in ("NEWOBJ", "NEWOBJ_EX") and isinstance(fv, Fresh) and fv.cls == "ast.Attribute" and isinstance(fv.fields.get("attr"), Const) and fv.fields["attr"].value == "__new__" and isinstance(fv.fields.get("value"), Item) and fv.fields["value"].label == fspec
                        if not (is_operand or is_new):
                            okf = False
                            why.append(f"call@{c.line}: callee is `{fv.short() if fv is not None else None}`, derived from the operand but not the operand itself")
                            continue
                oka = spec["args"] in ar
                if okf and oka:
                    good = c
                    break
                why.append(f"call@{c.line}: func<-{sorted(fr)} args<-{sorted(ar)}")
            if good is None:
                rep.bad(
                    "C03.emit",
                    q,
                    f"no-call:{name}",
                    f"{name} [{tag}]: no emitted ast.Call with callee from {spec['func']} and arguments from {spec['args']} ({'; '.join(why) or 'no ast.Call built'}); the VM performs that call",
                    s.run.file,
                    p.line or s.run.line,
                )
            else:
                rep.ok("C03.emit", q, f"{name} [{tag}]: Call@{good.line} func<-{spec['func']} args<-{spec['args']}", f"{s.run.file}:{good.line}")
    for name, spec in IMPORT_SPEC.items():
        s = by.get(name)
        if s is None:
            rep.ok("C03.emit", f"pickletools.{name}", "import-making opcode not registered: refused at parse time", "", nontrivial=False)
            continue
        q = s.oc.cls.qualname + ".run"
        if s.refuses:
            rep.ok("C03.emit", q, f"{name}: refuses", s.where(), nontrivial=False)
            continue
        for p in s.normal:
            st = p.state
            tag = "; ".join(st.conds) or "unconditional"
            imports = [v for v, _ in st.sinks if isinstance(v, Fresh) and v.cls in ("ast.ImportFrom", "ast.Import")]
            mod_root = spec["module"]
            ok_imp = None
            for imp in imports:
                mr = _field_roots(imp, "module", st)
                nr = _field_roots(imp, "names", st)
                if mod_root in mr and spec["name"] in nr and imp.cls == "ast.ImportFrom":
                    ok_imp = imp
            if ok_imp is not None:
                rep.ok("C03.emit", q, f"{name} [{tag}]: ImportFrom(module<-{mod_root}, names<-{spec['name']}) appended to the module body", f"{s.run.file}:{ok_imp.line}")
                continue
            # no import emitted: only allowed under the builtins-alias test on the module operand
            exempt = [c for c, val in st.cond_vals if val and _is_builtin_exemption(c, {mod_root}, st)]
            if exempt:
                rep.ok("C03.emit", q, f"{name} [{tag}]: import omitted only for the builtins aliases", s.where())
            else:
                rep.bad(
                    "C03.emit",
                    q,
                    f"import-omitted:{name}",
                    f"{name}: on the path [{tag}] no ImportFrom built from the module/name operands is appended to the module body, and the path is not restricted to module in {sorted(BUILTIN_ALIASES)}; the VM imports the module",
                    s.run.file,
                    s.run.line,
                )
        # the pushed value must name the imported attribute
    # every ast.Call built anywhere by a call-making opcode must be bound when created (REDUCE/INST discipline)


def check_no_lost_call(repo: Repo, rep: Report, sums: List[OpSummary]):
    B = []  # (summary, path, call)
    D = []  # (summary, path, roots)
    for s in sums:
        for p in s.normal:
            st = p.state
            sunk = sunk_values(p)
            on_stack: Set[Val] = set()
            for v in st.local_stack:
                on_stack |= reach(v, st)
            for v in on_stack:
                if isinstance(v, Fresh) and v.cls == "ast.Call" and v not in sunk:
                    B.append((s, p, v))
            dr = dropped_roots(p)
            if dr:
                D.append((s, p, dr))
    droppers = sorted({f"{s.name}" for s, _, _ in D} | {"STOP(values left below the result)"})
    rep.info(f"droppers D (opcodes that can discard a stack value without emitting it): {droppers}")
    seen = set()
    for s, p, c in B:
        q = s.oc.cls.qualname + ".run"
        key = (q,)
        if key in seen:
            continue
        seen.add(key)
        sites = sorted({x.line for ss, _, x in B if ss is s})
        rep.bad(
            "C03.no-lost-call",
            q,
            "bare-call-push",
            f"{s.name} pushes a bare ast.Call (built at line(s) {sites}) on the symbolic stack without binding it in the module body; "
            f"{', '.join(droppers)} can then discard it, so the call vanishes from the decompiled program although the VM performed it",
            s.run.file,
            sites[0],
            what=f"{s.name}: bare ast.Call pushed",
        )
    for s in sums:
        for p in s.normal:
            for meth, line in p.state.body_other:
                if meth in ("__len__", "__iter__", "__getitem__", "index", "count"):
                    continue
                rep.bad("C03.no-lost-call", s.oc.cls.qualname + ".run", f"handler-edits-body:{meth}", f"{s.name} calls module_body.{meth}(...) (line {line}): an opcode handler edits or removes statements that earlier opcodes already emitted, so an emitted call/import (or the binding a later GET/DUP refers to) can disappear from the decompiled program", s.run.file, line)
    callmakers = [s for s in sums if s.name in CALL_SPEC and not s.refuses]
    for s in callmakers:
        if not any(ss is s for ss, _, _ in B):
            rep.ok("C03.no-lost-call", s.oc.cls.qualname + ".run", f"{s.name}: every ast.Call is bound in the module body at creation", s.where())
    others = [s for s in sums if s.name not in CALL_SPEC]
    rep.ok("C03.no-lost-call", "fickling.fickle.*", f"{len(others)} non-call opcodes checked: none pushes an unbound ast.Call" if not any(ss.name not in CALL_SPEC for ss, _, _ in B) else "see findings", "")


def check_refuse(repo: Repo, rep: Report, sums: List[OpSummary]):
    by = {s.name: s for s in sums}
    for info in pickletools.opcodes:
        s = by.get(info.name)
        if s is None:
            rep.ok("C03.refuse", f"pickletools.{info.name}", "not registered -> Opcode.__new__ raises NotImplementedError", "", nontrivial=False)
            continue
        q = s.oc.cls.qualname + ".run"
        if s.refuses:
            rep.ok("C03.refuse", q, f"{info.name}: registered, run refuses ({s.run.qualname})", s.where())
            continue
        effect_free = all(
            not p.state.pushes and not p.state.popped_vals and not p.state.sinks and not p.state.memo_writes and not p.state.mark_consumed and not p.state.mutations
            for p in s.normal
        )
        d = s.decl
        if effect_free and (d.before or d.after or info.name in CALL_SPEC or info.name in IMPORT_SPEC) and info.name not in ("PUT", "BINPUT", "LONG_BINPUT", "MEMOIZE"):
            rep.bad("C03.refuse", q, f"silently-skipped:{info.name}", f"{info.name} is registered but its run ({s.run.qualname}) has no effect at all although the VM's effect is {d.before} -> {d.after}: the operation is decompiled as if it were left out", s.run.file, s.run.line)
        else:
            rep.ok("C03.refuse", q, f"{info.name}: modelled", s.where(), nontrivial=False)
    # the two refusal mechanisms themselves
    op = repo.cls("fickling.fickle.Opcode")
    new = op.method("__new__")
    run = op.method("run")
    if new is None or run is None:
        raise AnalysisError("Opcode.__new__ / Opcode.run not found")
    g = CFG(new.node)
    raises = [n for n in g.stmt_nodes(ast.Raise) if isinstance(n.ast.exc, ast.Call) and dotted(n.ast.exc.func) == "NotImplementedError"]
    ok_new = False
    for r in raises:
        for dn in g.dominators()[r.id]:
            b = g.nodes[dn]
            if b.kind == "branch" and b.value is False and isinstance(b.ast, ast.Compare) and isinstance(b.ast.ops[0], ast.In) and dotted(b.ast.comparators[0]) == "OPCODES_BY_NAME":
                ok_new = True
            if b.kind == "branch" and b.value is True and isinstance(b.ast, ast.Compare) and isinstance(b.ast.ops[0], ast.NotIn) and dotted(b.ast.comparators[0]) == "OPCODES_BY_NAME":
                ok_new = True
    if ok_new:
        rep.ok("C03.refuse", new.qualname, "unknown opcode name -> raise NotImplementedError", f"{new.file}:{new.line}")
    else:
        rep.bad("C03.refuse", new.qualname, "unknown-opcode-not-refused", "Opcode.__new__ no longer raises NotImplementedError for an opcode name missing from OPCODES_BY_NAME", new.file, new.line)
    g = CFG(run.node)
    if g.exit in g.reachable() and any(True for _ in g.pred[g.exit]):
        rep.bad("C03.refuse", run.qualname, "base-run-returns", "Opcode.run (the fallback for opcodes without a model) can return normally instead of raising", run.file, run.line)
    else:
        rep.ok("C03.refuse", run.qualname, "base Opcode.run always raises NotImplementedError", f"{run.file}:{run.line}")
    # parse constructs opcodes through Opcode(info=...), i.e. through the refusing __new__
    load = repo.func("fickling.fickle.Pickled.load")
    ctor = [n for n in body_walk(load.node) if isinstance(n, ast.Call) and dotted(n.func) == "Opcode" and any(k.arg == "info" for k in n.keywords)]
    if ctor:
        rep.ok("C03.refuse", load.qualname, "opcodes are constructed via Opcode(info=...) (the dispatching/refusing constructor)", f"{load.file}:{ctor[0].lineno}")
    else:
        rep.bad("C03.refuse", load.qualname, "parse-bypasses-dispatch", "Pickled.load no longer builds opcodes through Opcode(info=...)", load.file, load.line)


def check_body_chain(repo: Repo, rep: Report, RULE: str = "C03.body-chain"):
    mb = repo.cls("fickling.fickle.ModuleBody")
    app = mb.method("append")
    if app is None:
        raise AnalysisError("ModuleBody.append not found")
    g = CFG(app.node)
    calls = [n for n in body_walk(app.node) if isinstance(n, ast.Call) and isinstance(n.func, ast.Attribute) and n.func.attr == "append" and dotted(n.func.value) == "self._list"]
    ok = False
    if len(calls) == 1 and len(calls[0].args) == 1 and isinstance(calls[0].args[0], ast.Name) and calls[0].args[0].id in app.params():
        node = g.node_of(calls[0])
        if node is not None and node.id in g.post_dominators().get(g.entry, set()):
            ok = True
    if ok:
        rep.ok(RULE, app.qualname, "self._list.append(stmt) on every normal path (no filtering / de-duplication)", f"{app.file}:{app.line}")
    else:
        rep.bad(RULE, app.qualname, "append-conditional", "ModuleBody.append does not append its statement on every normal path: an emitted import/call statement can be dropped", app.file, app.line)
    it = mb.method("__iter__")
    rets = [n.value for n in body_walk(it.node) if isinstance(n, ast.Return)] if it else []
    if len(rets) == 1 and isinstance(rets[0], ast.Call) and dotted(rets[0].func) == "iter" and dotted(rets[0].args[0]) == "self._list":
        rep.ok(RULE, it.qualname, "iterates the whole list", f"{it.file}:{it.line}")
    else:
        rep.bad(RULE, (it.qualname if it else mb.qualname + ".__iter__"), "iter-filtered", f"ModuleBody.__iter__ returns {[src(r) for r in rets]}, not iter(self._list)", mb.module.relpath, mb.node.lineno)
    other_writers = []
    for name, fs in mb.methods.items():
        for f in fs:
            if name in ("__init__", "append"):
                continue
            for n in body_walk(f.node):
                if isinstance(n, (ast.Assign, ast.AugAssign, ast.Delete)):
                    for t in store_targets(n):
                        if "self._list" in (dotted(t) or "", dotted(getattr(t, "value", None)) or ""):
                            other_writers.append((f, n))
                if isinstance(n, ast.Call) and isinstance(n.func, ast.Attribute) and dotted(n.func.value) == "self._list" and n.func.attr in ("pop", "remove", "clear", "insert", "__delitem__", "__setitem__", "sort", "reverse"):
                    other_writers.append((f, n))
    for f, n in other_writers:
        rep.bad(RULE, f.qualname, "body-rewritten", f"`{src(n)}` removes or rewrites statements already appended to the module body", f.file, n.lineno)
    # Interpreter.step builds the Module from the whole body
    step = repo.cls("fickling.fickle.Interpreter").method("step")
    mods = [n for n in body_walk(step.node) if isinstance(n, ast.Call) and dotted(n.func) == "ast.Module"]
    if len(mods) == 1 and mods[0].args and isinstance(mods[0].args[0], ast.Call) and dotted(mods[0].args[0].func) == "list" and dotted(mods[0].args[0].args[0]) == "self.module_body":
        rep.ok(RULE, step.qualname, "ast.Module(list(self.module_body)): every appended statement is in the program", f"{step.file}:{mods[0].lineno}")
    elif len(mods) == 1 and mods[0].args and any(dotted(x) == "self.module_body" for x in ast.walk(mods[0].args[0])) and not any(isinstance(x, (ast.comprehension, ast.Subscript)) for x in ast.walk(mods[0].args[0])):
        rep.ok(RULE, step.qualname, f"ast.Module({src(mods[0].args[0])})", f"{step.file}:{mods[0].lineno}")
    else:
        rep.bad(RULE, step.qualname, "module-filtered", "the final ast.Module is not built from the whole module body", step.file, step.line)
    # a fresh interpreter per decompilation: no Interpreter object stored in a long-lived attribute
    stored = []
    for f in repo.functions.values():
        if f.module.name not in ("fickling.fickle", "fickling.analysis", "fickling.tracing", "fickling.cli", "fickling.loader"):
            continue
        interp_names = set()
        for n in body_walk(f.node):
            if isinstance(n, ast.Assign) and isinstance(n.value, ast.Call) and (dotted(n.value.func) or "").split(".")[-1] == "Interpreter":
                for t in n.targets:
                    if isinstance(t, ast.Name):
                        interp_names.add(t.id)
                    elif isinstance(t, ast.Attribute) or isinstance(t, ast.Subscript):
                        stored.append((f, n))
        for n in body_walk(f.node):
            if isinstance(n, ast.Assign) and isinstance(n.value, ast.Name) and n.value.id in interp_names:
                for t in n.targets:
                    if isinstance(t, (ast.Attribute, ast.Subscript)) and not (f.cls is not None and f.cls.name == "Trace"):
                        stored.append((f, n))
    for f, n in stored:
        rep.bad(RULE, f.qualname, "interpreter-cached", f"`{src(n)}` keeps an Interpreter beyond the call: a run that raised on a refused opcode can later be resumed past it and decompile 'successfully' with the operation left out", f.file, n.lineno)
    astp = repo.cls("fickling.fickle.Pickled").method("ast", "property")
    interp = repo.func("fickling.fickle.Interpreter.interpret")
    fresh = any(isinstance(n, ast.Call) and dotted(n.func) == "Interpreter" for n in body_walk(interp.node))
    uses = any(isinstance(n, ast.Call) and dotted(n.func) in ("Interpreter.interpret", "Interpreter") for n in body_walk(astp.node))
    if fresh and uses and not stored:
        rep.ok(RULE, astp.qualname, "decompilation constructs a fresh Interpreter each time it computes", f"{astp.file}:{astp.line}")
    elif not stored:
        rep.bad(RULE, astp.qualname, "not-fresh-interpreter", "Pickled.ast does not compute through a freshly constructed Interpreter", astp.file, astp.line)


def run(rep: Report, tier: str):
    repo = load_repo()
    rep.explanation = (
        "Abstract interpretation of all opcode handlers (E5): for each call-/import-making opcode the "
        "provenance of every field of every emitted ast.Call / ImportFrom is tracked from the VM operands "
        "to the module body on every path; taint x droppers analysis for calls that live only on the symbolic "
        "stack; refusal mechanisms and the module-body chain checked structurally. No pickle is parsed or run."
    )
    rep.rule("C03.emit", "call-making opcodes emit Call(func<-callee, args<-arguments); import-making opcodes append ImportFrom unless module is a builtins alias", 12)
    rep.rule("C03.no-lost-call", "no ast.Call is pushed on the stack unbound while droppers exist", 7)
    rep.rule("C03.refuse", "unmodelled opcodes are refused, never skipped", 60)
    rep.rule("C03.body-chain", "appended statements reach the Module unfiltered; fresh interpreter per decompilation", 4)
    rep.assume("Lib/pickle.py semantics of the call-/import-making opcodes (which operand is the callee / the arguments), frozen in CALL_SPEC / IMPORT_SPEC")
    rep.assume("same callee/arguments is decided as provenance of the Call's fields from the VM operands, not value equality (NEWOBJ is emitted as cls(*args) where the VM does cls.__new__(cls, *args))")
    with rep.part("opcode summaries"):  # a handler outside the abstract interpreter's model leaves these undecided, not the worlds below
        sums = all_summaries(repo)
        rep.units = {"opcode_classes": len(sums), "paths": sum(len(s.paths) for s in sums)}
        check_emit(repo, rep, sums)
        check_no_lost_call(repo, rep, sums)
        check_refuse(repo, rep, sums)
    with rep.part("module body chain"):
        check_body_chain(repo, rep)

    # interpreted last: the rules above stand on their own if the decompiler cannot be interpreted over an input
    from ..vmworlds import C03_KEYS, report as _vm_report

    rep.rule("C03.trace-worlds", "every call the reference machine makes and every global it resolves is in the decompiled program", 1)
    _vm_report(repo, rep, "C03.trace-worlds", tier, C03_KEYS)

