"""C04 -- detection floor: dangerous imports and calls are never rated LIKELY_SAFE.

The floor is implemented by four analyses; the check decides that each floor rule exists with at least the
stated severity, is registered, sees every relevant node, and cannot be silenced by another analysis through
the shared de-duplication set.

* C04.table               the denylists contain the documented entries, the yields they guard carry at least the
                          stated severity, module matching covers every dotted prefix, the standard-library
                          predicate and the likely-safe exemption are exactly the documented ones.
* C04.registered          the four analyses are Analysis subclasses (hence registered) and the default analyzer
                          runs the whole registry.
* C04.complete-view       every call / import statement of the decompiled module is seen (no call hides nested in
                          another expression: either visit_Call recurses or C03's B set is empty).
* C04.dedupe-interference no analysis that runs earlier marks a node as "already reported" without itself
                          reporting it at least as severely as the later, guarded floor rule would.
"""

from __future__ import annotations

import ast
from typing import Dict, List, Optional, Set, Tuple

from ..cfg import CFG
from ..model import ClassInfo, FuncInfo, Repo, dotted, load_repo
from ..opsummary import all_summaries, reach, sunk_values
from ..report import AnalysisError, Report
from ..util import canon_func, body_walk, cmp_normal, kwarg, src, walk_no_nested
from ..vmvals import Fresh

SEVS = ["LIKELY_SAFE", "POSSIBLY_UNSAFE", "SUSPICIOUS", "LIKELY_UNSAFE", "LIKELY_OVERTLY_MALICIOUS", "OVERTLY_MALICIOUS"]
RANK = {n: i for i, n in enumerate(SEVS)}
DOC_DANGEROUS = ["os", "posix", "nt", "subprocess", "sys", "socket", "shutil", "urllib", "torch.hub", "dill", "code"]
DOC_BAD_CALLS = ["eval", "exec", "compile", "open"]
A = "fickling.analysis"
BUILTIN_EXCLUSIONS = {
    "not hasattr(builtins, node.func.id)",
    "node.func.id not in dir(builtins)",
    "node.func.id not in BUILTIN_NAMES",
    "node.func.id not in builtins.__dict__",
    "not is_builtin_name(node.func.id)",
}


def sev_of(call: ast.Call) -> Optional[str]:
    s = kwarg(call, "severity", 0)
    d = dotted(s) if s is not None else None
    if d and d.startswith("Severity.") and d.split(".")[1] in RANK:
        return d.split(".")[1]
    return None


def yields_in(f: FuncInfo) -> List[Tuple[ast.AST, ast.Call]]:
    out = []
    for n in body_walk(f.node):
        if isinstance(n, ast.Yield) and isinstance(n.value, ast.Call) and (dotted(n.value.func) or "").endswith("AnalysisResult"):
            out.append((n, n.value))
    return out


def analysis_order(repo: Repo) -> List[ClassInfo]:
    """Analysis.ALL order: class-definition order within a module; analysis.py before ml.py (ml imports it)."""
    ab = repo.cls(f"{A}.Analysis")
    subs = repo.subclasses(ab, strict=True)
    mod_rank = {A: 0}
    return sorted(subs, key=lambda c: (mod_rank.get(c.module.name, 1), c.module.name, c.node.lineno))


def check_table(repo: Repo, rep: Report):
    an = repo.module(A)
    file = an.relpath
    # ---- dangerous modules
    ui = repo.cls(f"{A}.UnsafeImportsML")
    tab = ui.attrs.get("UNSAFE_MODULES")
    if not isinstance(tab, ast.Dict):
        raise AnalysisError("UnsafeImportsML.UNSAFE_MODULES dict literal not found")
    keys = {k.value for k in tab.keys if isinstance(k, ast.Constant)}
    for m in DOC_DANGEROUS:
        if m in keys:
            rep.ok("C04.table", f"{ui.qualname}.UNSAFE_MODULES", f"'{m}' listed", f"{file}:{tab.lineno}")
        else:
            rep.bad("C04.table", f"{ui.qualname}.UNSAFE_MODULES", f"missing-module:{m}", f"the documented dangerous module '{m}' is no longer in UNSAFE_MODULES: a global from it is not rated LIKELY_OVERTLY_MALICIOUS", file, tab.lineno)
    f = canon_func(ui.method("analyze"), "node", {1: "context"})
    g = CFG(f.node)
    # the yield guarded by `module_name in self.UNSAFE_MODULES`
    ok_mod = False
    for y, c in yields_in(f):
        node = g.node_of(y)
        doms = [g.nodes[d] for d in g.dominators()[node.id] if g.nodes[d].kind == "branch" and g.nodes[d].value is True]
        memb = [b for b in doms if isinstance(b.ast, ast.Compare) and isinstance(b.ast.ops[0], ast.In) and dotted(b.ast.comparators[0]) in ("self.UNSAFE_MODULES", "UnsafeImportsML.UNSAFE_MODULES")]
        if memb:
            others = [b for b in doms if b not in memb]
            s = sev_of(c)
            var = dotted(memb[0].ast.left)
            if s is None or RANK[s] < RANK["LIKELY_OVERTLY_MALICIOUS"]:
                rep.bad("C04.table", f.qualname, f"severity:UNSAFE_MODULES:{s}", f"a global from a documented dangerous module is reported at {s}; the floor is LIKELY_OVERTLY_MALICIOUS", file, c.lineno)
            elif others:
                rep.bad("C04.table", f.qualname, "extra-condition:UNSAFE_MODULES", f"the dangerous-module finding is additionally guarded by `{src(others[0].ast)}`", file, c.lineno)
            else:
                ok_mod = True
                # prefix coverage: var ranges over every dotted prefix of node.module
                if _covers_all_prefixes(f, var):
                    rep.ok("C04.table", f.qualname, f"`{var} in UNSAFE_MODULES` -> {s}, {var} ranging over every dotted prefix of node.module", f"{file}:{c.lineno}")
                else:
                    rep.bad("C04.table", f.qualname, "prefix-coverage", f"`{var}` does not range over every dotted prefix of node.module (submodules of a dangerous module escape the denylist)", file, c.lineno)
    if not ok_mod and not any(x.construct == f.qualname for x in rep.findings):
        rep.bad("C04.table", f.qualname, "no-module-rule", "UnsafeImportsML no longer yields a finding under `<prefix> in self.UNSAFE_MODULES`", file, f.line)
    # the loop covers all imports
    loops = [n for n in f.node.body if isinstance(n, ast.For)]
    if loops and src(loops[0].iter) in ("context.pickled.properties.imports",):
        rep.ok("C04.table", f.qualname, "iterates every import of the decompiled program", f"{file}:{loops[0].lineno}")
    else:
        rep.bad("C04.table", f.qualname, "imports-view", f"UnsafeImportsML iterates `{src(loops[0].iter) if loops else None}`, not all of properties.imports", file, f.line)
    # ---- bad calls
    bc = repo.cls(f"{A}.BadCalls")
    lst = bc.attrs.get("BAD_CALLS")
    names = {e.value for e in lst.elts if isinstance(e, ast.Constant)} if isinstance(lst, (ast.List, ast.Tuple, ast.Set)) else set()
    obe = repo.cls(f"{A}.OvertlyBadEvals")
    obe_f = canon_func(obe.method("analyze"), "node", {1: "context"})
    bc_f = canon_func(bc.method("analyze"), "node", {1: "context"})
    obe_names = set()
    for n in body_walk(obe_f.node):
        if isinstance(n, ast.Call) and isinstance(n.func, ast.Attribute) and n.func.attr == "startswith" and n.args and isinstance(n.args[0], ast.Constant) and str(n.args[0].value).endswith("("):
            obe_names.add(str(n.args[0].value)[:-1])
    for nm in DOC_BAD_CALLS:
        if nm in names or nm in obe_names:
            rep.ok("C04.table", f"{A}.BadCalls/OvertlyBadEvals", f"call to `{nm}(` matched", f"{file}:{bc.node.lineno}")
        else:
            rep.bad("C04.table", f"{bc.qualname}.BAD_CALLS", f"missing-call:{nm}", f"a call to `{nm}` is no longer matched by BadCalls.BAD_CALLS or OvertlyBadEvals: it is not rated OVERTLY_MALICIOUS", file, bc.node.lineno)
    ok_any = False
    for cls, fn in ((bc, bc_f), (obe, obe_f)):
        for y, c in yields_in(fn):
            s = sev_of(c)
            gg = CFG(fn.node)
            node = gg.node_of(y)
            doms = [gg.nodes[d] for d in gg.dominators()[node.id] if gg.nodes[d].kind == "branch" and gg.nodes[d].value is True]
            if any("startswith" in src(b.ast) for b in doms):
                if s == "OVERTLY_MALICIOUS":
                    ok_any = True
                    rep.ok("C04.table", fn.qualname, "eval/exec/compile/open call -> OVERTLY_MALICIOUS", f"{file}:{c.lineno}")
                else:
                    rep.bad("C04.table", fn.qualname, f"severity:bad-call:{s}", f"a matched dangerous call is reported at {s}; the floor is OVERTLY_MALICIOUS", file, c.lineno)
    # at least one of them applies the match to *every* call (no exemption / early continue before it):
    # the likely-safe exemption is flow-insensitive, so a decoy `from codecs import open` must not be able
    # to exempt a later call of the real builtin `open`
    unconditional = []
    for cls, fn in ((bc, bc_f), (obe, obe_f)):
        lp = next((n for n in fn.node.body if isinstance(n, ast.For)), None)
        if lp is None:
            continue
        escapes = [x for st in lp.body for x in walk_no_nested(st) if isinstance(x, (ast.Continue, ast.Break, ast.Return))]
        # a `continue` guarded by a test that excludes builtin names cannot skip eval/exec/compile/open
        gfn = CFG(fn.node)
        harmless = []
        for x in escapes:
            nd = next((n for n in gfn.nodes if n.ast is x), None)
            if nd is None or not isinstance(x, ast.Continue):
                continue
            for d in gfn.dominators().get(nd.id, ()):
                b = gfn.nodes[d]
                if b.kind == "branch" and b.value is True:
                    parts = b.ast.values if isinstance(b.ast, ast.BoolOp) and isinstance(b.ast.op, ast.And) else [b.ast]
                    if any(src(p_) in BUILTIN_EXCLUSIONS for p_ in parts):
                        harmless.append(x)
        escapes = [x for x in escapes if x not in harmless]
        has_overt = any(sev_of(c) == "OVERTLY_MALICIOUS" for _, c in yields_in(fn))
        if has_overt and not escapes and src(lp.iter) in ("context.pickled.properties.calls", "context.pickled.properties.non_setstate_calls"):
            unconditional.append(cls.name)
    if unconditional:
        rep.ok("C04.table", f"{A}.{unconditional[0]}", "the eval/exec/compile/open match is applied to every call (no exemption can skip it)", f"{file}:{bc.node.lineno}")
    else:
        rep.bad("C04.table", f"{A}.BadCalls", "bad-call-floor-exemptible", "every analysis that reports eval/exec/compile/open as OVERTLY_MALICIOUS first skips calls under some exemption (e.g. a callee name that was also imported from the standard library): a decoy import lowers the verdict of a real `open(...)`/`compile(...)` call", file, bc.node.lineno)
    if not ok_any:
        rep.bad("C04.table", bc.qualname, "no-bad-call-rule", "no analysis yields OVERTLY_MALICIOUS under a `startswith('<name>(')` match any more", file, bc.node.lineno)
    # ---- non-standard imports
    ns = canon_func(repo.cls(f"{A}.NonStandardImports").method("analyze"), "node", {1: "context"})
    ys = yields_in(ns)
    loops = [n for n in ns.node.body if isinstance(n, ast.For)]
    if not (loops and src(loops[0].iter) == "context.pickled.non_standard_imports()"):
        rep.bad("C04.table", ns.qualname, "view", f"NonStandardImports iterates `{src(loops[0].iter) if loops else None}`", file, ns.line)
    elif not ys or any(RANK.get(sev_of(c) or "LIKELY_SAFE", 0) < RANK["LIKELY_UNSAFE"] for _, c in ys):
        rep.bad("C04.table", ns.qualname, f"severity:non-standard:{[sev_of(c) for _, c in ys]}", "a global from outside the standard library is reported below LIKELY_UNSAFE", file, ns.line)
    else:
        rep.ok("C04.table", ns.qualname, "every non-standard import -> >= LIKELY_UNSAFE", f"{file}:{ns.line}")
    nsi = canon_func(repo.func("fickling.fickle.Pickled.non_standard_imports"), "node")
    tests = [n for n in body_walk(nsi.node) if isinstance(n, ast.If)]
    loops = [n for n in nsi.node.body if isinstance(n, ast.For)]
    if len(tests) == 1 and src(tests[0].test) == "not is_std_module(node.module)" and loops and src(loops[0].iter) == "self.properties.imports" and any(isinstance(x, ast.Yield) for x in ast.walk(tests[0])):
        rep.ok("C04.table", nsi.qualname, "yields every import with `not is_std_module(node.module)`", f"{nsi.file}:{nsi.line}")
    else:
        rep.bad("C04.table", nsi.qualname, "filter", f"non_standard_imports no longer is `for node in self.properties.imports: if not is_std_module(node.module): yield node` (tests: {[src(t.test) for t in tests]})", nsi.file, nsi.line)
    std = canon_func(repo.func("fickling.fickle.is_std_module"), None, {0: "module_name"})
    rets = [n.value for n in body_walk(std.node) if isinstance(n, ast.Return)]
    want = {"in_stdlib(module_name)", "module_name in BUILTIN_MODULE_NAMES"}
    got = set()
    if len(rets) == 1 and isinstance(rets[0], ast.BoolOp) and isinstance(rets[0].op, ast.Or):
        got = {src(v) for v in rets[0].values}
    rewrites = [n for n in body_walk(std.node) if isinstance(n, (ast.Assign, ast.AugAssign, ast.AnnAssign)) and any(isinstance(x, ast.Name) and x.id in std.params() and isinstance(x.ctx, ast.Store) for x in ast.walk(n))]
    if rewrites:
        rep.bad("C04.table", std.qualname, "std-predicate-rewrites-name", f"`{src(rewrites[0])}` rewrites the module name before it is tested: a module is classified under a different name than the one the pickle resolves (names mapped onto a standard-library name lose the non-standard-import floor and become 'likely safe' callees)", std.file, rewrites[0].lineno)
    elif got == want:
        rep.ok("C04.table", std.qualname, "is_std_module == in_stdlib(m) or m in sys.builtin_module_names", f"{std.file}:{std.line}")
    else:
        rep.bad("C04.table", std.qualname, "std-predicate", f"is_std_module returns `{[src(r) for r in rets]}`: modules outside that exact predicate would be treated as standard (no LIKELY_UNSAFE floor, and their names become 'likely safe' callees)", std.file, std.line)
    bmn = repo.module("fickling.fickle").assigns.get("BUILTIN_MODULE_NAMES", [None])[0]
    if bmn is not None and src(bmn) == "frozenset(sys.builtin_module_names)":
        rep.ok("C04.table", "fickling.fickle.BUILTIN_MODULE_NAMES", "frozenset(sys.builtin_module_names)", "fickling/fickle.py:56")
    else:
        rep.bad("C04.table", "fickling.fickle.BUILTIN_MODULE_NAMES", "builtin-names", f"BUILTIN_MODULE_NAMES is `{src(bmn) if bmn is not None else None}`", "fickling/fickle.py", 56)
    # ---- OvertlyBadEvals fall-through and exemption
    gg = CFG(obe_f.node)
    conts = gg.stmt_nodes(ast.Continue)
    excl_builtins = False
    for cn in conts:
        doms = [gg.nodes[d] for d in gg.dominators()[cn.id] if gg.nodes[d].kind == "branch"]
        okc = False
        for b in doms:
            t = b.ast
            parts = t.values if isinstance(t, ast.BoolOp) and isinstance(t.op, ast.And) else [t]
            txt = [src(p) for p in parts]
            core = [p for p in txt if "likely_safe_imports" in p]
            rest = [p for p in txt if "likely_safe_imports" not in p]
            narrowing = [r for r in rest if r in BUILTIN_EXCLUSIONS]
            if b.value is True and core == ["node.func.id in context.pickled.properties.likely_safe_imports"] and all(r in ("hasattr(node.func, 'id')", "isinstance(node.func, ast.Name)") or r in BUILTIN_EXCLUSIONS for r in rest):
                okc = True
                excl_builtins = excl_builtins or bool(narrowing)
        if okc:
            rep.ok("C04.table", obe_f.qualname, "only exemption: callee name imported from the standard library (likely_safe_imports)", f"{file}:{cn.line}")
        else:
            rep.bad("C04.table", obe_f.qualname, "exemption-broadened", f"OvertlyBadEvals skips a call under a condition other than `node.func.id in likely_safe_imports`: {[src(b.ast) for b in doms]}", file, cn.line)
    # The exemption is keyed on the bare callee name. Globals from the builtins aliases are decompiled without
    # an import statement and as a bare Name(attr) (E5 summaries), so a benign standard-library import of the same
    # name (e.g. importlib.__import__, codecs.open) would exempt a later call of the *builtin*: the exemption must
    # exclude names that are builtins, or the decompiler must make builtins distinguishable.
    sums = {s.name: s for s in all_summaries(repo)}
    bare = False
    for opn in ("GLOBAL", "STACK_GLOBAL"):
        sm = sums.get(opn)
        if sm is None:
            continue
        for pth in sm.normal:
            has_import = any(isinstance(v, Fresh) and v.cls == "ast.ImportFrom" for v, _ in pth.state.sinks)
            top = pth.state.local_stack[-1] if pth.state.local_stack else None
            if not has_import and isinstance(top, Fresh) and top.cls == "ast.Name":
                bare = True
    if conts:
        if bare and not excl_builtins:
            rep.bad(
                "C04.table",
                obe_f.qualname,
                "exemption-shadows-builtin",
                "the likely-safe exemption tests only the bare callee name, and builtins are decompiled as bare names without an import: resolving (and discarding) a standard-library global with the same name as a builtin - importlib.__import__, codecs.open, ... - exempts the later call of the builtin, e.g. `cimportlib\\n__import__\\n0` in front of `__import__('os')`+BUILD lowers the verdict from LIKELY_UNSAFE to LIKELY_SAFE",
                file,
                conts[0].line,
            )
        else:
            rep.ok("C04.table", obe_f.qualname, "the bare-name exemption cannot be satisfied by a name that is also a builtin" if bare else "builtins are distinguishable from imported names in the decompiled program", f"{file}:{conts[0].line}")
    lows = [(y, c) for y, c in yields_in(obe_f) if sev_of(c) != "OVERTLY_MALICIOUS"]
    if lows and all(RANK[sev_of(c) or "LIKELY_SAFE"] >= RANK["LIKELY_UNSAFE"] for _, c in lows):
        rep.ok("C04.table", obe_f.qualname, f"every other call -> {sorted({sev_of(c) for _, c in lows})}", f"{file}:{lows[0][1].lineno}")
    else:
        rep.bad("C04.table", obe_f.qualname, f"severity:other-call:{[sev_of(c) for _, c in lows]}", "calls to other builtins / non-stdlib / computed callees are not reported at LIKELY_UNSAFE or above", file, obe_f.line)
    loops = [n for n in obe_f.node.body if isinstance(n, ast.For)]
    if not (loops and src(loops[0].iter) == "context.pickled.properties.non_setstate_calls"):
        rep.bad("C04.table", obe_f.qualname, "calls-view", f"OvertlyBadEvals iterates `{src(loops[0].iter) if loops else None}`", file, obe_f.line)
    # likely_safe_imports only grows under ImportFrom + is_std_module
    ap = repo.cls("fickling.fickle.ASTProperties")
    grows = []
    for fs in ap.methods.values():
        for fn in fs:
            fn = canon_func(fn, None, {1: "node"}) if fn.name.startswith(("_process", "visit_")) else fn
            gg2 = None
            for n in body_walk(fn.node):
                tgt = None
                if isinstance(n, ast.AugAssign) and dotted(n.target) == "self.likely_safe_imports":
                    tgt = n
                if isinstance(n, ast.Call) and isinstance(n.func, ast.Attribute) and dotted(n.func.value) == "self.likely_safe_imports" and n.func.attr in ("add", "update"):
                    tgt = n
                if isinstance(n, ast.Assign) and any(dotted(t) == "self.likely_safe_imports" for t in n.targets) and fn.name != "__init__":
                    tgt = n
                if tgt is not None:
                    gg2 = gg2 or CFG(fn.node)
                    node = gg2.node_of(tgt if isinstance(tgt, ast.Call) else (tgt.value))
                    conds = [src(gg2.nodes[d].ast) for d in gg2.dominators()[node.id] if gg2.nodes[d].kind == "branch" and gg2.nodes[d].value is True]
                    grows.append((fn, tgt, conds))
    for fn, tgt, conds in grows:
        if any("is_std_module(node.module)" in c and "isinstance(node, ast.ImportFrom)" in c for c in conds):
            rep.ok("C04.table", fn.qualname, "likely_safe_imports grows only under `isinstance(node, ImportFrom) and is_std_module(node.module)`", f"{fn.file}:{tgt.lineno}")
        else:
            rep.bad("C04.table", fn.qualname, "likely-safe-broadened", f"`{src(tgt)}` extends likely_safe_imports under {conds or 'no condition'}: names not imported from the standard library become exempt callees", fn.file, tgt.lineno)
    if not grows:
        raise AnalysisError("ASTProperties: no site extends likely_safe_imports (anchor vanished)")


def _covers_all_prefixes(f: FuncInfo, var: str) -> bool:
    """`var` iterates a list built as [m.rsplit('.', i)[0] for i in range(0, m.count('.') + 1)] (or an equivalent)."""
    for n in body_walk(f.node):
        if isinstance(n, ast.For) and isinstance(n.target, ast.Name) and n.target.id == var:
            it = n.iter
            name = it.id if isinstance(it, ast.Name) else None
            comp = it if isinstance(it, ast.ListComp) else None
            if name:
                for m in body_walk(f.node):
                    if isinstance(m, ast.Assign) and any(isinstance(t, ast.Name) and t.id == name for t in m.targets) and isinstance(m.value, ast.ListComp):
                        comp = m.value
            if comp is not None and len(comp.generators) == 1:
                gen = comp.generators[0]
                txt_elt, txt_it = src(comp.elt, 200), src(gen.iter, 200)
                if "rsplit('.', " in txt_elt and txt_elt.endswith("[0]") and "node.module" in txt_elt and "count('.') + 1" in txt_it and txt_it.startswith("range(") and not gen.ifs:
                    return True
                if "split('.')" in txt_it and ("join" in txt_elt):
                    return True
    # m == k or m.startswith(k + '.') style
    for n in body_walk(f.node):
        if isinstance(n, ast.BoolOp) and "startswith" in src(n) and "+ '.'" in src(n):
            return True
    return False


def check_registered(repo: Repo, rep: Report):
    ab = repo.cls(f"{A}.Analysis")
    for name in ("NonStandardImports", "UnsafeImportsML", "BadCalls", "OvertlyBadEvals", "UnsafeImports"):
        c = repo.classes.get(f"{A}.{name}")
        if c is None or not repo.is_subclass(c, ab.qualname):
            rep.bad("C04.registered", f"{A}.{name}", "not-an-analysis", f"{name} is not (any more) a subclass of Analysis: it is never registered in Analysis.ALL", "fickling/analysis.py", 1)
        elif c.method("analyze") is None:
            rep.bad("C04.registered", c.qualname, "no-analyze", f"{name} has no analyze()", c.module.relpath, c.node.lineno)
        else:
            rep.ok("C04.registered", c.qualname, "subclass of Analysis with its own analyze()", f"{c.module.relpath}:{c.node.lineno}")
    isc = ab.method("__init_subclass__")
    g = CFG(isc.node)
    app = [n for n in body_walk(isc.node) if isinstance(n, ast.Call) and dotted(n.func) == "Analysis.ALL.append"]
    if app and g.always_passes(app[0]) and isinstance(app[0].args[0], ast.Call) and dotted(app[0].args[0].func) == "cls":
        rep.ok("C04.registered", isc.qualname, "Analysis.ALL.append(cls()) unconditionally", f"{isc.file}:{isc.line}")
    else:
        rep.bad("C04.registered", isc.qualname, "conditional-registration", "subclasses are not appended to Analysis.ALL unconditionally", isc.file, isc.line)
    meta = repo.cls(f"{A}.AnalyzerMeta").method("default_instance", "property")
    ok = any(isinstance(n, ast.Call) and dotted(n.func) == "Analyzer" and len(n.args) == 1 and dotted(n.args[0]) == "Analysis.ALL" for n in body_walk(meta.node))
    cs = repo.func(f"{A}.check_safety")
    dflt = any(isinstance(n, ast.Assign) and dotted(n.value) == "Analyzer.default_instance" for n in body_walk(cs.node))
    az = repo.cls(f"{A}.Analyzer")
    init_ok = any(isinstance(n, (ast.Assign, ast.AnnAssign)) and dotted(n.targets[0] if isinstance(n, ast.Assign) else n.target) == "self.analyses" and src(n.value) == "tuple(analyses)" for n in body_walk(az.method("__init__").node))
    if ok and dflt and init_ok:
        rep.ok("C04.registered", meta.qualname, "default analyzer = Analyzer(Analysis.ALL), kept whole; check_safety defaults to it", f"{meta.file}:{meta.line}")
    else:
        rep.bad("C04.registered", meta.qualname, "default-analyzer-filtered", f"the default analyzer is not the whole registry (Analyzer(Analysis.ALL)={ok}, check_safety default={dflt}, analyses kept whole={init_ok})", meta.file, meta.line)


def check_complete_view(repo: Repo, rep: Report):
    ap = repo.cls("fickling.fickle.ASTProperties")
    vc = ap.method("visit_Call")
    recurses = vc is not None and any(isinstance(n, ast.Call) and dotted(n.func) in ("self.generic_visit", "ast.NodeVisitor.generic_visit") for n in body_walk(vc.node))
    sums = all_summaries(repo)
    nested = []
    for s in sums:
        for p in s.normal:
            sunk = sunk_values(p)
            on_stack = set()
            for v in p.state.local_stack:
                on_stack |= reach(v, p.state)
            for v in on_stack:
                if isinstance(v, Fresh) and v.cls == "ast.Call" and v not in sunk:
                    nested.append((s, v))
    if recurses:
        rep.ok("C04.complete-view", vc.qualname, "visit_Call recurses: nested calls are collected too", f"{vc.file}:{vc.line}")
    elif not nested:
        rep.ok("C04.complete-view", "fickling.fickle.ASTProperties.visit_Call", "visit_Call does not recurse, and no opcode leaves an unbound call expression on the stack (C03.B is empty): every call is the value of its own statement", f"{vc.file}:{vc.line}" if vc else "")
    else:
        s, v = nested[0]
        rep.bad("C04.complete-view", "fickling.fickle.ASTProperties.visit_Call", "nested-calls-invisible", f"visit_Call does not recurse while {sorted({x.name for x, _ in nested})} push unbound call expressions that can end up nested inside another call's arguments: those calls are never analysed", vc.file if vc else "fickling/fickle.py", vc.line if vc else 1)
    # visit_Call records every call in `calls` (and non-__setstate__ ones in non_setstate_calls)
    if vc is not None:
        g = CFG(vc.node)
        app = [n for n in body_walk(vc.node) if isinstance(n, ast.Call) and dotted(n.func) == "self.calls.append"]
        if app and g.always_passes(app[0]):
            rep.ok("C04.complete-view", vc.qualname, "self.calls.append(node) unconditionally", f"{vc.file}:{vc.line}")
        else:
            rep.bad("C04.complete-view", vc.qualname, "calls-filtered", "visit_Call does not record every call node", vc.file, vc.line)
        ns = [n for n in body_walk(vc.node) if isinstance(n, ast.Call) and dotted(n.func) == "self.non_setstate_calls.append"]
        conds = []
        if ns:
            node = g.node_of(ns[0])
            conds = [src(g.nodes[d].ast) for d in g.dominators()[node.id] if g.nodes[d].kind == "branch"]
        if ns and len(conds) == 1 and "__setstate__" in conds[0] and "node.func.attr" in conds[0]:
            rep.ok("C04.complete-view", vc.qualname, "non_setstate_calls excludes only `<x>.__setstate__(...)`", f"{vc.file}:{vc.line}")
        else:
            rep.bad("C04.complete-view", vc.qualname, "non-setstate-filter", f"non_setstate_calls is filtered by {conds}", vc.file, vc.line)
    for nm in ("visit_Import", "visit_ImportFrom"):
        fm = ap.method(nm)
        pi = ap.method("_process_import")
        if fm is not None:
            # recorded directly in the visitor (also what the model's helper inlining turns the helper call into)
            gd = CFG(fm.node)
            direct = [n for n in body_walk(fm.node) if isinstance(n, ast.Call) and dotted(n.func) == "self.imports.append"]
            if direct and gd.always_passes(direct[0]):
                rep.ok("C04.complete-view", fm.qualname, "every import node is recorded", f"{fm.file}:{fm.line}")
                continue
        if fm is None or pi is None:
            rep.bad("C04.complete-view", f"{ap.qualname}.{nm}", "missing", f"{nm} / _process_import missing", ap.module.relpath, ap.node.lineno)
            continue
        g2 = CFG(pi.node)
        app = [n for n in body_walk(pi.node) if isinstance(n, ast.Call) and dotted(n.func) == "self.imports.append"]
        calls = [n for n in body_walk(fm.node) if isinstance(n, ast.Call) and dotted(n.func) == "self._process_import"]
        if app and g2.always_passes(app[0]) and calls:
            rep.ok("C04.complete-view", fm.qualname, "every import node is recorded", f"{fm.file}:{fm.line}")
        else:
            rep.bad("C04.complete-view", fm.qualname, "imports-filtered", "not every import node is recorded in properties.imports", fm.file, fm.line)


VIEW = {
    "context.pickled.properties.imports": "imports",
    "context.pickled.non_standard_imports()": "imports",
    "context.pickled.unsafe_imports()": "imports",
    "context.pickled.properties.calls": "calls",
    "context.pickled.properties.non_setstate_calls": "calls",
}


def marks(repo: Repo, call: ast.Call) -> bool:
    """Does this shorten_code call add its text to reported_shortened_code?"""
    sc = repo.cls(f"{A}.AnalysisContext").method("shorten_code")
    if sc is None:
        raise AnalysisError("AnalysisContext.shorten_code not found")
    adds = [n for n in body_walk(sc.node) if isinstance(n, ast.Call) and dotted(n.func) == "self.reported_shortened_code.add"]
    if not adds:
        return False
    g = CFG(sc.node)
    node = g.node_of(adds[0])
    conds = [g.nodes[d] for d in g.dominators()[node.id] if g.nodes[d].kind == "branch"]
    if not conds:
        return True
    params = sc.params()
    for b in conds:
        t = b.ast
        if isinstance(t, ast.Name) and t.id in params:
            # value passed at this call site
            idx = params.index(t.id) - 1
            arg = kwarg(call, t.id, idx)
            if arg is None:
                a = sc.node.args
                names = [x.arg for x in a.args]
                dflt = a.defaults[names.index(t.id) - (len(names) - len(a.defaults))] if t.id in names and names.index(t.id) >= len(names) - len(a.defaults) else None
                if dflt is None:
                    for k, d in zip(a.kwonlyargs, a.kw_defaults):
                        if k.arg == t.id:
                            dflt = d
                arg = dflt
            if isinstance(arg, ast.Constant):
                if bool(arg.value) != (b.value is True):
                    return False
                continue
        raise AnalysisError(f"shorten_code: marking is conditional on `{src(t)}`; idiom not recognised")
    return True


def check_dedupe(repo: Repo, rep: Report):
    order = analysis_order(repo)
    info = []
    for c in order:
        f = c.method("analyze")
        if f is None:
            continue
        f = canon_func(f, "node", {1: "context"})
        for lp in [n for n in f.node.body if isinstance(n, ast.For)]:
            view = VIEW.get(src(lp.iter))
            scs = [n for st in lp.body for n in walk_no_nested(st) if isinstance(n, ast.Call) and isinstance(n.func, ast.Attribute) and n.func.attr == "shorten_code"]
            if not scs:
                continue
            if view is None:
                if "unused_assignments" in src(lp.iter):
                    view = "values"
                else:
                    raise AnalysisError(f"{f.qualname}: shorten_code inside a loop over `{src(lp.iter)}` (view not classified)")
            sc = scs[0]
            # name bound to the already-reported flag
            flag = None
            for st in lp.body:
                if isinstance(st, ast.Assign) and st.value is sc and isinstance(st.targets[0], ast.Tuple) and len(st.targets[0].elts) == 2 and isinstance(st.targets[0].elts[1], ast.Name):
                    flag = st.targets[0].elts[1].id
            info.append(dict(cls=c, f=f, loop=lp, view=view, call=sc, flag=flag if flag and flag != "_" else None, marks=marks(repo, sc)))
    rep.info("analysis order: " + " < ".join(c.name for c in order))
    for B in info:
        fB = B["f"]
        if not B["flag"]:
            continue
        g = CFG(fB.node)
        guarded = []
        for y, c in yields_in(fB):
            node = g.node_of(y)
            for d in g.dominators()[node.id]:
                b = g.nodes[d]
                if b.kind == "branch":
                    t = b.ast
                    neg = False
                    while isinstance(t, ast.UnaryOp) and isinstance(t.op, ast.Not):
                        neg, t = not neg, t.operand
                    if isinstance(t, ast.Name) and t.id == B["flag"] and ((neg and b.value is True) or (not neg and b.value is False)):
                        guarded.append((y, c))
        if not guarded:
            continue
        S = max(RANK.get(sev_of(c) or "LIKELY_SAFE", 0) for _, c in guarded)
        for A_ in info:
            if order.index(A_["cls"]) >= order.index(B["cls"]) or not A_["marks"]:
                continue
            if A_["view"] != B["view"]:
                continue
            fA = A_["f"]
            gA = CFG(fA.node)
            mark_node = gA.node_of(A_["call"])
            good_yields = {gA.node_of(y).id for y, c in yields_in(fA) if RANK.get(sev_of(c) or "LIKELY_SAFE", 0) >= S}
            head = next(n for n in gA.nodes if n.kind == "for" and n.ast is A_["loop"])
            # is there a path from the mark back to the loop head (or out) that avoids every sufficient yield,
            # not counting paths on which A's own already-reported flag was True?
            def avoid(n):
                if n.id in good_yields:
                    return True
                if n.kind == "branch" and A_["flag"]:
                    t = n.ast
                    neg = False
                    while isinstance(t, ast.UnaryOp) and isinstance(t.op, ast.Not):
                        neg, t = not neg, t.operand
                    if isinstance(t, ast.Name) and t.id == A_["flag"] and ((not neg and n.value is True) or (neg and n.value is False)):
                        return True  # someone earlier reported it: the obligation is theirs
                return False
            path = gA.paths_avoiding(mark_node.id, lambda n: n.id == head.id or n.kind in ("exit",), avoid)
            floor = B["cls"].name in ("OvertlyBadEvals", "NonStandardImports")
            if path is not None:
                msg = (
                    f"{A_['cls'].name} runs before {B['cls'].name} and marks every {A_['view'][:-1]} it looks at as already reported (shorten_code at line {A_['call'].lineno}) "
                    f"but reports only some of them at >= {SEVS[S]}; {B['cls'].name}'s {SEVS[S]} finding is guarded by `not {B['flag']}` and is therefore never produced for the rest"
                )
                if floor:
                    rep.bad("C04.dedupe-interference", fA.qualname, f"silences:{B['cls'].name}", msg + ": the floor for other builtins / non-stdlib / computed callees is lost (e.g. __import__('os') is rated SUSPICIOUS, getattr(...)(...)+BUILD LIKELY_SAFE)", fA.file, A_["call"].lineno)
                else:
                    rep.info("(not part of C04's floor) " + msg)
            else:
                rep.ok("C04.dedupe-interference", fA.qualname, f"marks {A_['view']} but itself reports each at >= {SEVS[S]} before {B['cls'].name}'s guarded rule", f"{fA.file}:{A_['call'].lineno}")
        rep.ok("C04.dedupe-interference", fB.qualname, f"guarded {SEVS[S]} rule over {B['view']} examined against {sum(1 for a in info if order.index(a['cls']) < order.index(B['cls']))} earlier marker(s)", f"{fB.file}:{fB.line}")
    # the context's set starts empty for every run
    init = repo.cls(f"{A}.AnalysisContext").method("__init__")
    ok = any(isinstance(n, (ast.Assign, ast.AnnAssign)) and dotted(n.targets[0] if isinstance(n, ast.Assign) else n.target) == "self.reported_shortened_code" and isinstance(n.value, ast.Call) and dotted(n.value.func) == "set" and not n.value.args for n in body_walk(init.node))
    if ok:
        rep.ok("C04.dedupe-interference", init.qualname, "reported_shortened_code = set() fresh per analysis run", f"{init.file}:{init.line}")
    else:
        rep.bad("C04.dedupe-interference", init.qualname, "shared-dedupe-set", "reported_shortened_code is not a fresh empty set per AnalysisContext: findings of one run/pickle suppress the floor findings of the next", init.file, init.line)


def run(rep: Report, tier: str):
    repo = load_repo()
    rep.explanation = (
        "Structural check of the four floor analyses: denylist contents vs the documented list, severities of the guarded "
        "yields (CFG dominance), prefix coverage idiom, the exact standard-library predicate and likely-safe exemption, "
        "registration, completeness of the calls/imports views (using C03's unbound-call set), and an interference analysis "
        "of the shared already-reported set across Analysis.ALL order. The verdict of a particular program (unparse text, "
        "name collisions) is value-level and not decided."
    )
    rep.rule("C04.table", "documented denylists, severities, prefix coverage, std-lib predicate, exemption", 20)
    rep.rule("C04.registered", "floor analyses registered; default analyzer runs the whole registry", 7)
    rep.rule("C04.complete-view", "every call/import of the decompiled module reaches the analyses", 4)
    rep.rule("C04.dedupe-interference", "no earlier analysis silences a guarded floor finding through the shared set", 3)
    check_table(repo, rep)
    check_registered(repo, rep)
    check_complete_view(repo, rep)
    from .c03 import check_body_chain

    check_body_chain(repo, rep, RULE="C04.complete-view")  # an emitted import/call statement must reach the analysed Module
    from .c09 import check_memo

    # the callee the analyses see is the one the VM calls only if memo traffic is mirrored exactly
    check_memo(repo, rep, all_summaries(repo), RULE="C04.complete-view")
    check_dedupe(repo, rep)
