"""C04 -- detection floor: dangerous imports and calls are never rated LIKELY_SAFE.

The floor is implemented by four analyses; the check decides that each floor rule exists with at least the
stated severity, is registered, sees every relevant node, and cannot be silenced by another analysis through
the shared de-duplication set.

* C04.table               the denylists contain the documented entries, the yields they guard carry at least the
                          stated severity, module matching covers every dotted prefix, the standard-library
                          predicate and the likely-safe exemption are exactly the documented ones.
* C04.registered          the four analyses are Analysis subclasses (hence registered) and the default analyzer
                          runs the whole registry.
* C04.complete-view       every call / import statement of the decompiled module is seen (no call hides nested in
                          another expression: either visit_Call recurses or C03's B set is empty).
* C04.dedupe-interference no analysis that runs earlier marks a node as "already reported" without itself
                          reporting it at least as severely as the later, guarded floor rule would.
"""

from __future__ import annotations

import ast
import os
from typing import Dict, List, Optional, Set, Tuple

from ..cfg import CFG
from ..model import ClassInfo, FuncInfo, Repo, dotted, load_repo
from ..opsummary import all_summaries, reach, sunk_values
from ..report import AnalysisError, Report
from ..util import canon_func, body_walk, cmp_normal, kwarg, src, walk_no_nested
from ..vmvals import Fresh

SEVS = ["LIKELY_SAFE", "POSSIBLY_UNSAFE", "SUSPICIOUS", "LIKELY_UNSAFE", "LIKELY_OVERTLY_MALICIOUS", "OVERTLY_MALICIOUS"]
RANK = {n: i for i, n in enumerate(SEVS)}
DOC_DANGEROUS = ["os", "posix", "nt", "subprocess", "sys", "socket", "shutil", "urllib", "torch.hub", "dill", "code"]
DOC_BAD_CALLS = ["eval", "exec", "compile", "open"]
A = "fickling.analysis"


def sev_of(call: ast.Call) -> Optional[str]:
    s = kwarg(call, "severity", 0)
    d = dotted(s) if s is not None else None
    if d and d.startswith("Severity.") and d.split(".")[1] in RANK:
        return d.split(".")[1]
    return None


def yields_in(f: FuncInfo) -> List[Tuple[ast.AST, ast.Call]]:
    out = []
    for n in body_walk(f.node):
        if isinstance(n, ast.Yield) and isinstance(n.value, ast.Call) and (dotted(n.value.func) or "").endswith("AnalysisResult"):
            out.append((n, n.value))
    return out


def analysis_order(repo: Repo) -> List[ClassInfo]:
    """Analysis.ALL order: class-definition order within a module; analysis.py before ml.py (ml imports it)."""
    ab = repo.cls(f"{A}.Analysis")
    subs = repo.subclasses(ab, strict=True)
    mod_rank = {A: 0}
    return sorted(subs, key=lambda c: (mod_rank.get(c.module.name, 1), c.module.name, c.node.lineno))


def check_table(repo: Repo, rep: Report):
    """The documented dangerous modules are listed, where the list is a literal.  Everything else about the floor - severities,
    prefix coverage, the standard-library predicate, the likely-safe exemption and its interaction with builtins - is decided by
    interpretation (C04.floor-worlds); the rules that used to match the *shape* of those tests were retired because they fired
    on behaviour-preserving rewrites (a comprehension turned into a loop, a condition split in two)."""
    an = repo.module(A)
    file = an.relpath
    ui = repo.classes.get(f"{A}.UnsafeImportsML")
    tab = ui.attrs.get("UNSAFE_MODULES") if ui is not None else None
    if not isinstance(tab, ast.Dict):
        rep.info("C04.table: UnsafeImportsML.UNSAFE_MODULES is not a dict literal any more; the dangerous-module floor is decided by C04.floor-worlds alone")
        return
    keys = {k.value for k in tab.keys if isinstance(k, ast.Constant)}
    for m in DOC_DANGEROUS:
        if m in keys:
            rep.ok("C04.table", f"{ui.qualname}.UNSAFE_MODULES", f"'{m}' listed", f"{file}:{tab.lineno}")
        else:
            rep.info(f"C04.table: '{m}' is not a key of UNSAFE_MODULES (decided by C04.floor-worlds)")


def check_registered(repo: Repo, rep: Report):
    ab = repo.cls(f"{A}.Analysis")
    for name in ("NonStandardImports", "UnsafeImportsML", "BadCalls", "OvertlyBadEvals", "UnsafeImports"):
        c = repo.classes.get(f"{A}.{name}")
        if c is None or not repo.is_subclass(c, ab.qualname):
            rep.bad("C04.registered", f"{A}.{name}", "not-an-analysis", f"{name} is not (any more) a subclass of Analysis: it is never registered in Analysis.ALL", "fickling/analysis.py", 1)
        elif c.method("analyze") is None:
            rep.bad("C04.registered", c.qualname, "no-analyze", f"{name} has no analyze()", c.module.relpath, c.node.lineno)
        else:
            rep.ok("C04.registered", c.qualname, "subclass of Analysis with its own analyze()", f"{c.module.relpath}:{c.node.lineno}")
    isc = ab.method("__init_subclass__")
    g = CFG(isc.node)
    app = [n for n in body_walk(isc.node) if isinstance(n, ast.Call) and dotted(n.func) == "Analysis.ALL.append"]
    if app and g.always_passes(app[0]) and isinstance(app[0].args[0], ast.Call) and dotted(app[0].args[0].func) == "cls":
        rep.ok("C04.registered", isc.qualname, "Analysis.ALL.append(cls()) unconditionally", f"{isc.file}:{isc.line}")
    else:
        rep.bad("C04.registered", isc.qualname, "conditional-registration", "subclasses are not appended to Analysis.ALL unconditionally", isc.file, isc.line)
    meta = repo.cls(f"{A}.AnalyzerMeta").method("default_instance", "property")
    ok = any(isinstance(n, ast.Call) and dotted(n.func) == "Analyzer" and len(n.args) == 1 and dotted(n.args[0]) == "Analysis.ALL" for n in body_walk(meta.node))
    cs = repo.func(f"{A}.check_safety")
    dflt = any(isinstance(n, ast.Assign) and dotted(n.value) == "Analyzer.default_instance" for n in body_walk(cs.node))
    az = repo.cls(f"{A}.Analyzer")
    init_ok = any(isinstance(n, (ast.Assign, ast.AnnAssign)) and dotted(n.targets[0] if isinstance(n, ast.Assign) else n.target) == "self.analyses" and src(n.value) == "tuple(analyses)" for n in body_walk(az.method("__init__").node))
    if ok and dflt and init_ok:
        rep.ok("C04.registered", meta.qualname, "default analyzer = Analyzer(Analysis.ALL), kept whole; check_safety defaults to it", f"{meta.file}:{meta.line}")
    else:
        rep.bad("C04.registered", meta.qualname, "default-analyzer-filtered", f"the default analyzer is not the whole registry (Analyzer(Analysis.ALL)={ok}, check_safety default={dflt}, analyses kept whole={init_ok})", meta.file, meta.line)


def check_complete_view(repo: Repo, rep: Report):
    ap = repo.cls("fickling.fickle.ASTProperties")
    vc = ap.method("visit_Call")
    recurses = vc is not None and any(isinstance(n, ast.Call) and dotted(n.func) in ("self.generic_visit", "ast.NodeVisitor.generic_visit") for n in body_walk(vc.node))
    sums = all_summaries(repo)
    nested = []
    for s in sums:
        for p in s.normal:
            sunk = sunk_values(p)
            on_stack = set()
            for v in p.state.local_stack:
                on_stack |= reach(v, p.state)
            for v in on_stack:
                if isinstance(v, Fresh) and v.cls == "ast.Call" and v not in sunk:
                    nested.append((s, v))
    if recurses:
        rep.ok("C04.complete-view", vc.qualname, "visit_Call recurses: nested calls are collected too", f"{vc.file}:{vc.line}")
    elif not nested:
        rep.ok("C04.complete-view", "fickling.fickle.ASTProperties.visit_Call", "visit_Call does not recurse, and no opcode leaves an unbound call expression on the stack (C03.B is empty): every call is the value of its own statement", f"{vc.file}:{vc.line}" if vc else "")
    else:
        s, v = nested[0]
        rep.bad("C04.complete-view", "fickling.fickle.ASTProperties.visit_Call", "nested-calls-invisible", f"visit_Call does not recurse while {sorted({x.name for x, _ in nested})} push unbound call expressions that can end up nested inside another call's arguments: those calls are never analysed", vc.file if vc else "fickling/fickle.py", vc.line if vc else 1)
    # visit_Call records every call in `calls` (and non-__setstate__ ones in non_setstate_calls)
    if vc is not None:
        g = CFG(vc.node)
        app = [n for n in body_walk(vc.node) if isinstance(n, ast.Call) and dotted(n.func) == "self.calls.append"]
        if app and g.always_passes(app[0]):
            rep.ok("C04.complete-view", vc.qualname, "self.calls.append(node) unconditionally", f"{vc.file}:{vc.line}")
        else:
            rep.bad("C04.complete-view", vc.qualname, "calls-filtered", "visit_Call does not record every call node", vc.file, vc.line)
        ns = [n for n in body_walk(vc.node) if isinstance(n, ast.Call) and dotted(n.func) == "self.non_setstate_calls.append"]
        conds = []
        if ns:
            node = g.node_of(ns[0])
            conds = [src(g.nodes[d].ast) for d in g.dominators()[node.id] if g.nodes[d].kind == "branch"]
        if ns and len(conds) == 1 and "__setstate__" in conds[0] and "node.func.attr" in conds[0]:
            rep.ok("C04.complete-view", vc.qualname, "non_setstate_calls excludes only `<x>.__setstate__(...)`", f"{vc.file}:{vc.line}")
        else:
            rep.bad("C04.complete-view", vc.qualname, "non-setstate-filter", f"non_setstate_calls is filtered by {conds}", vc.file, vc.line)
    for nm in ("visit_Import", "visit_ImportFrom"):
        fm = ap.method(nm)
        pi = ap.method("_process_import")
        if fm is not None:
            # recorded directly in the visitor (also what the model's helper inlining turns the helper call into)
            gd = CFG(fm.node)
            direct = [n for n in body_walk(fm.node) if isinstance(n, ast.Call) and dotted(n.func) == "self.imports.append"]
            if direct and gd.always_passes(direct[0]):
                rep.ok("C04.complete-view", fm.qualname, "every import node is recorded", f"{fm.file}:{fm.line}")
                continue
        if fm is None or pi is None:
            rep.bad("C04.complete-view", f"{ap.qualname}.{nm}", "missing", f"{nm} / _process_import missing", ap.module.relpath, ap.node.lineno)
            continue
        g2 = CFG(pi.node)
        app = [n for n in body_walk(pi.node) if isinstance(n, ast.Call) and dotted(n.func) == "self.imports.append"]
        calls = [n for n in body_walk(fm.node) if isinstance(n, ast.Call) and dotted(n.func) == "self._process_import"]
        if app and g2.always_passes(app[0]) and calls:
            rep.ok("C04.complete-view", fm.qualname, "every import node is recorded", f"{fm.file}:{fm.line}")
        else:
            rep.bad("C04.complete-view", fm.qualname, "imports-filtered", "not every import node is recorded in properties.imports", fm.file, fm.line)


VIEW = {
    "context.pickled.properties.imports": "imports",
    "context.pickled.non_standard_imports()": "imports",
    "context.pickled.unsafe_imports()": "imports",
    "context.pickled.properties.calls": "calls",
    "context.pickled.properties.non_setstate_calls": "calls",
}


def marks(repo: Repo, call: ast.Call) -> bool:
    """Does this shorten_code call add its text to reported_shortened_code?"""
    sc = repo.cls(f"{A}.AnalysisContext").method("shorten_code")
    if sc is None:
        raise AnalysisError("AnalysisContext.shorten_code not found")
    adds = [n for n in body_walk(sc.node) if isinstance(n, ast.Call) and dotted(n.func) == "self.reported_shortened_code.add"]
    if not adds:
        return False
    g = CFG(sc.node)
    node = g.node_of(adds[0])
    conds = [g.nodes[d] for d in g.dominators()[node.id] if g.nodes[d].kind == "branch"]
    if not conds:
        return True
    params = sc.params()
    for b in conds:
        t = b.ast
        if isinstance(t, ast.Name) and t.id in params:
            # value passed at this call site
            idx = params.index(t.id) - 1
            arg = kwarg(call, t.id, idx)
            if arg is None:
                a = sc.node.args
                names = [x.arg for x in a.args]
                dflt = a.defaults[names.index(t.id) - (len(names) - len(a.defaults))] if t.id in names and names.index(t.id) >= len(names) - len(a.defaults) else None
                if dflt is None:
                    for k, d in zip(a.kwonlyargs, a.kw_defaults):
                        if k.arg == t.id:
                            dflt = d
                arg = dflt
            if isinstance(arg, ast.Constant):
                if bool(arg.value) != (b.value is True):
                    return False
                continue
        raise AnalysisError(f"shorten_code: marking is conditional on `{src(t)}`; idiom not recognised")
    return True


def check_dedupe(repo: Repo, rep: Report):
    order = analysis_order(repo)
    info = []
    for c in order:
        f = c.method("analyze")
        if f is None:
            continue
        f = canon_func(f, "node", {1: "context"})
        for lp in [n for n in f.node.body if isinstance(n, ast.For)]:
            view = VIEW.get(src(lp.iter))
            scs = [n for st in lp.body for n in walk_no_nested(st) if isinstance(n, ast.Call) and isinstance(n.func, ast.Attribute) and n.func.attr == "shorten_code"]
            if not scs:
                continue
            if view is None:
                if "unused_assignments" in src(lp.iter):
                    view = "values"
                else:
                    raise AnalysisError(f"{f.qualname}: shorten_code inside a loop over `{src(lp.iter)}` (view not classified)")
            sc = scs[0]
            # name bound to the already-reported flag
            flag = None
            for st in lp.body:
                if isinstance(st, ast.Assign) and st.value is sc and isinstance(st.targets[0], ast.Tuple) and len(st.targets[0].elts) == 2 and isinstance(st.targets[0].elts[1], ast.Name):
                    flag = st.targets[0].elts[1].id
            info.append(dict(cls=c, f=f, loop=lp, view=view, call=sc, flag=flag if flag and flag != "_" else None, marks=marks(repo, sc)))
    rep.info("analysis order: " + " < ".join(c.name for c in order))
    for B in info:
        fB = B["f"]
        if not B["flag"]:
            continue
        g = CFG(fB.node)
        guarded = []
        for y, c in yields_in(fB):
            node = g.node_of(y)
            for d in g.dominators()[node.id]:
                b = g.nodes[d]
                if b.kind == "branch":
                    t = b.ast
                    neg = False
                    while isinstance(t, ast.UnaryOp) and isinstance(t.op, ast.Not):
                        neg, t = not neg, t.operand
                    if isinstance(t, ast.Name) and t.id == B["flag"] and ((neg and b.value is True) or (not neg and b.value is False)):
                        guarded.append((y, c))
        if not guarded:
            continue
        S = max(RANK.get(sev_of(c) or "LIKELY_SAFE", 0) for _, c in guarded)
        for A_ in info:
            if order.index(A_["cls"]) >= order.index(B["cls"]) or not A_["marks"]:
                continue
            if A_["view"] != B["view"]:
                continue
            fA = A_["f"]
            gA = CFG(fA.node)
            mark_node = gA.node_of(A_["call"])
            good_yields = {gA.node_of(y).id for y, c in yields_in(fA) if RANK.get(sev_of(c) or "LIKELY_SAFE", 0) >= S}
            head = next(n for n in gA.nodes if n.kind == "for" and n.ast is A_["loop"])
            # is there a path from the mark back to the loop head (or out) that avoids every sufficient yield,
            # not counting paths on which A's own already-reported flag was True?
            def avoid(n):
                if n.id in good_yields:
                    return True
                if n.kind == "branch" and A_["flag"]:
                    t = n.ast
                    neg = False
                    while isinstance(t, ast.UnaryOp) and isinstance(t.op, ast.Not):
                        neg, t = not neg, t.operand
                    if isinstance(t, ast.Name) and t.id == A_["flag"] and ((not neg and n.value is True) or (neg and n.value is False)):
                        return True  # someone earlier reported it: the obligation is theirs
                return False
            path = gA.paths_avoiding(mark_node.id, lambda n: n.id == head.id or n.kind in ("exit",), avoid)
            floor = B["cls"].name in ("OvertlyBadEvals", "NonStandardImports")
            if path is not None:
                msg = (
                    f"{A_['cls'].name} runs before {B['cls'].name} and marks every {A_['view'][:-1]} it looks at as already reported (shorten_code at line {A_['call'].lineno}) "
                    f"but reports only some of them at >= {SEVS[S]}; {B['cls'].name}'s {SEVS[S]} finding is guarded by `not {B['flag']}` and is therefore never produced for the rest"
                )
                if floor:
                    rep.bad("C04.dedupe-interference", fA.qualname, f"silences:{B['cls'].name}", msg + ": the floor for other builtins / non-stdlib / computed callees is lost (e.g. __import__('os') is rated SUSPICIOUS, getattr(...)(...)+BUILD LIKELY_SAFE)", fA.file, A_["call"].lineno)
                else:
                    rep.info("(not part of C04's floor) " + msg)
            else:
                rep.ok("C04.dedupe-interference", fA.qualname, f"marks {A_['view']} but itself reports each at >= {SEVS[S]} before {B['cls'].name}'s guarded rule", f"{fA.file}:{A_['call'].lineno}")
        rep.ok("C04.dedupe-interference", fB.qualname, f"guarded {SEVS[S]} rule over {B['view']} examined against {sum(1 for a in info if order.index(a['cls']) < order.index(B['cls']))} earlier marker(s)", f"{fB.file}:{fB.line}")
    # the context's set starts empty for every run
    init = repo.cls(f"{A}.AnalysisContext").method("__init__")
    ok = any(isinstance(n, (ast.Assign, ast.AnnAssign)) and dotted(n.targets[0] if isinstance(n, ast.Assign) else n.target) == "self.reported_shortened_code" and isinstance(n.value, ast.Call) and dotted(n.value.func) == "set" and not n.value.args for n in body_walk(init.node))
    if ok:
        rep.ok("C04.dedupe-interference", init.qualname, "reported_shortened_code = set() fresh per analysis run", f"{init.file}:{init.line}")
    else:
        rep.bad("C04.dedupe-interference", init.qualname, "shared-dedupe-set", "reported_shortened_code is not a fresh empty set per AnalysisContext: findings of one run/pickle suppress the floor findings of the next", init.file, init.line)


def run(rep: Report, tier: str):
    repo = load_repo()
    rep.explanation = (
        "Structural check of the four floor analyses: denylist contents vs the documented list, severities of the guarded "
        "yields (CFG dominance), prefix coverage idiom, the exact standard-library predicate and likely-safe exemption, "
        "registration, completeness of the calls/imports views (using C03's unbound-call set), and an interference analysis "
        "of the shared already-reported set across Analysis.ALL order. The verdict of a particular program (unparse text, "
        "name collisions) is value-level and not decided."
    )
    rep.rule("C04.table", "the documented dangerous modules are listed (where the list is a literal)", 0)
    rep.rule("C04.floor-worlds", "the analysis pipeline, interpreted over decompiled programs from the labelled vocabulary, reaches the floor", 1)
    rep.rule("C04.registered", "floor analyses registered; default analyzer runs the whole registry", 7)
    rep.rule("C04.complete-view", "every call/import of the decompiled module reaches the analyses", 4)
    rep.rule("C04.dedupe-interference", "no earlier analysis silences a guarded floor finding through the shared set", 3)
    check_table(repo, rep)
    check_registered(repo, rep)
    check_floor_worlds(repo, rep, tier)
    from .c03 import check_body_chain
    from .c09 import check_memo

    with rep.part("complete view (opcode summaries)"):  # undecided when a handler is outside the abstract interpreter's model
        check_complete_view(repo, rep)
        check_body_chain(repo, rep, RULE="C04.complete-view")  # an emitted import/call statement must reach the analysed Module
        # the callee the analyses see is the one the VM calls only if memo traffic is mirrored exactly
        check_memo(repo, rep, all_summaries(repo), RULE="C04.complete-view")
    check_dedupe(repo, rep)


# ------------------------------------------------------------------------------------------------------------------------
# C04.floor-worlds: the whole analysis pipeline interpreted over decompiled programs built from the labelled vocabulary
# ------------------------------------------------------------------------------------------------------------------------
# The property's quantifier is "programs built from a labelled vocabulary of globals (builtins / dangerous stdlib / benign stdlib
# / non-stdlib) crossed with ... every call-making opcode, every way of disposing of or re-using the call's value ... and
# arbitrary benign data before and after".  What the opcodes of such a program decompile to is decided by C03/C05/C09; here the
# *decompiled* side of the quantifier is enumerated: one program text per (vocabulary entry x statement form the handlers
# emit), parsed into a real syntax tree (data, nothing of fickling runs), and ASTProperties, Pickled.non_standard_imports /
# unsafe_imports, AnalysisContext, every registered Analysis and Analyzer.analyze are interpreted over it (sa/objeval).  The
# verdict (the highest severity among the results) must reach the property's floor.
BAD_BUILTINS = ["eval", "exec", "compile", "open"]
OTHER_BUILTINS = ["getattr", "__import__", "print", "map"]
STD_DANGEROUS = {"os", "posix", "nt", "subprocess", "sys", "socket", "shutil", "urllib", "code"}
BENIGN_STD = [("collections", "OrderedDict"), ("datetime", "date")]
NON_STD = [
    ("foo.bar", "Baz"), ("numpy.core.multiarray", "_reconstruct"), ("sklearn", "thing"),
    ("json.evilplugin", "Hook"),  # below a standard-library package, but not part of the standard library
    ("commands", "getoutput"),  # a Python 2 module name (in _compat_pickle.IMPORT_MAPPING); not a Python 3 standard module
    ("distutils.spawn", "spawn"),  # standard library of older Pythons only
]
FORMERLY_STD = {"commands", "distutils.spawn", "distutils"}
# a standard-library global that has the name of a builtin: resolving it (and dropping it) must not exempt a later call of the
# builtin, which decompiles to the same bare name without an import
SHADOWS = [("codecs", "open", "OVERTLY_MALICIOUS"), ("io", "open", "OVERTLY_MALICIOUS"), ("importlib", "__import__", "LIKELY_UNSAFE")]

FORMS = {
    # name -> (statements after the import, has a call of N, has a computed callee)
    "import-only": ("result = {N}", False, False),
    "call-is-result": ("_var0 = {N}('a')\nresult = _var0", True, False),
    "call-discarded": ("_var0 = {N}('a')\nresult = 7", True, False),
    "call-reused": ("_var0 = {N}('a')\nresult = [_var0, _var0]", True, False),
    "call-starred-args": ("_var0 = {N}(*['a', 'b'])\nresult = _var0", True, False),
    "call-kwargs": ("_var0 = {N}('a', **{{'k': 1}})\nresult = _var0", True, False),
    "call-long-arguments": ("_var0 = {N}('aaaaaaaaaaaaaaaaaaaaaaaaaaaaaaaaaaaaaaaaaaaaaaaaaaa', 1)\nresult = _var0", True, False),
    "call-long-unbroken-argument": ("_var0 = {N}(\"__import__('os').system('id')\")\nresult = _var0", True, False),
    "call-long-spaced-arguments": ("_var0 = {N}('a b c d e f g h i j k l m n o p q r s t u v w x y z', 1, 2, 3)\nresult = _var0", True, False),
    "call-twice": ("_var0 = {N}('a')\n_var1 = {N}('a')\nresult = (_var0, _var1)", True, False),
    "call-inside-benign-data": ("_var1 = {N}('a')\n_var2 = _var9\n_var2.__setstate__({{'k': _var1}})\nresult = [1, 'x', _var2]", True, False),
    "computed-callee": ("_var0 = {N}('a')\n_var1 = _var0('b')\nresult = _var1", True, True),
}
BENIGN_PREFIX = "from collections import OrderedDict\n_var9 = OrderedDict()\n"


def _floor_worlds(tier: str, repo: Repo):
    forms = list(FORMS) if tier == "thorough" else ["import-only", "call-is-result", "call-discarded", "call-long-arguments", "call-long-unbroken-argument", "call-inside-benign-data", "computed-callee"]
    vocab = []
    for n in BAD_BUILTINS:
        vocab.append(("bad-builtin", None, n, True, None, "OVERTLY_MALICIOUS"))
    for n in OTHER_BUILTINS if tier == "thorough" else OTHER_BUILTINS[:2]:
        vocab.append(("other-builtin", None, n, True, None, "LIKELY_UNSAFE"))
    for m, n, fl in SHADOWS:
        vocab.append(("builtin-name-imported-from-stdlib", m, n, True, None, fl))
    for m in DOC_DANGEROUS:
        std = m in STD_DANGEROUS
        vocab.append(("dangerous-module", m, "fn", std, "LIKELY_OVERTLY_MALICIOUS", None))
        vocab.append(("dangerous-submodule", m + ".sub", "fn", False, "LIKELY_OVERTLY_MALICIOUS", None))
        if tier == "thorough":
            vocab.append(("dangerous-submodule", m + ".sub", "fn", True, "LIKELY_OVERTLY_MALICIOUS", None))
            vocab.append(("dangerous-submodule", m + ".a.b.c", "fn", False, "LIKELY_OVERTLY_MALICIOUS", None))
        elif m in ("os", "torch.hub", "shutil"):
            vocab.append(("dangerous-submodule", m + ".a.b.c", "fn", False, "LIKELY_OVERTLY_MALICIOUS", None))
    for m, n in NON_STD:
        vocab.append(("non-stdlib", m, n, False, "LIKELY_UNSAFE", "LIKELY_UNSAFE"))
    for m, n in BENIGN_STD:
        vocab.append(("benign-stdlib", m, n, True, None, None))
    # names the source itself compares against: an exemption or special case keyed on one particular module or callee name is
    # only visible to programs that use that name, so every module-like / identifier-like string constant of the analysis
    # code is added to the vocabulary (as a module under each label it can carry, and as a callee name)
    import builtins as _b

    hforms = ["import-only", "call-is-result"]
    harvested = []
    for c in sorted(_harvest_constants(repo)):
        if c in DOC_DANGEROUS or any(c.startswith(d + ".") for d in DOC_DANGEROUS):
            harvested.append(("dangerous-module-named-in-source", c, "fn", True, "LIKELY_OVERTLY_MALICIOUS", None))
            harvested.append(("dangerous-module-named-in-source", c, "fn", False, "LIKELY_OVERTLY_MALICIOUS", None))
            harvested.append(("dangerous-submodule", c + ".sub", "fn", False, "LIKELY_OVERTLY_MALICIOUS", None))
        else:
            harvested.append(("module-named-in-source-as-non-stdlib", c, "fn", False, "LIKELY_UNSAFE", "LIKELY_UNSAFE"))
        if c.isidentifier():
            if c in BAD_BUILTINS:
                continue
            if hasattr(_b, c):
                harvested.append(("builtin-named-in-source", None, c, True, None, "LIKELY_UNSAFE"))
            harvested.append(("callee-named-in-source", "foo.bar", c, False, "LIKELY_UNSAFE", "LIKELY_UNSAFE"))
            harvested.append(("callee-named-in-source", "os", c, True, "LIKELY_OVERTLY_MALICIOUS", None))
    for entry in harvested:
        for form in hforms:
            vocab.append(entry + (form,))
    for item in vocab:
        cls, m, n, std, imp_floor, call_floor = item[:6]
        only = item[6] if len(item) > 6 else None
        for form in ([only] if only else forms):
            body, has_call, computed = FORMS[form]
            src_ = BENIGN_PREFIX + (f"from {m} import {n}\n" if m else "") + body.format(N=n) + "\n"
            floors = []
            if m and imp_floor:
                floors.append(imp_floor)
            if has_call and call_floor:
                floors.append(call_floor)
            if computed:
                floors.append("LIKELY_UNSAFE")
            floor = max(floors, key=lambda s_: RANK[s_]) if floors else None
            exact = call_floor == "OVERTLY_MALICIOUS" and has_call
            yield dict(cls=cls, module=m, name=n, std=std, form=form, src=src_, floor=floor, exact=exact)


def _harvest_constants(repo: Repo) -> Set[str]:
    import re

    out = set()
    nodes = [repo.module(A).tree]
    for q in ("fickling.fickle.ASTProperties", "fickling.fickle.Pickled"):
        c = repo.classes.get(q)
        if c is not None:
            for name in ("unsafe_imports", "non_standard_imports", "_process_import", "visit_Import", "visit_ImportFrom", "visit_Call"):
                for fn in c.methods.get(name, []):
                    nodes.append(fn.node)
    f = repo.functions.get("fickling.fickle.is_std_module")
    if f is not None:
        nodes.append(f.node)
    for root in nodes:
        for n in ast.walk(root):
            if isinstance(n, ast.Constant) and isinstance(n.value, str) and 0 < len(n.value) <= 40 and re.fullmatch(r"[A-Za-z_][A-Za-z0-9_]*(\.[A-Za-z_][A-Za-z0-9_]*)*", n.value):
                out.add(n.value)
    return out


class _InStdlib:
    """stdlib_list.in_stdlib(name, version=None) as the world labels it: the running Python's standard library, or - when an
    older version is asked for - that one's (which additionally had the FORMERLY_STD modules)."""

    sa_callable = True

    def __init__(self, std):
        self.std = std

    def __call__(self, name, version=None, *a, **k):
        if version is not None and not str(version).startswith("3.12"):
            return name in self.std or name in FORMERLY_STD
        return name in self.std


def interpret_verdict(repo: Repo, src_: str, std_modules: Set[str], oe=None):
    """Interprets Analyzer(<all registered analyses>).analyze(<pickle whose decompilation is `src_`>); returns the results as
    (severity name, analysis, trigger) triples.  Passing the same `oe` again analyses another pickle *in the same process*
    (class-level state, parameter defaults and functools caches persist, everything per-pickle is fresh)."""
    from ..minieval import PyRaise, Unsupported
    from ..objeval import Instance, ObjEval

    oe = oe or ObjEval(repo)
    mod = ast.parse(src_)
    for i, st in enumerate(mod.body):
        st.lineno, st.col_offset = i + 1, 0
    oe.externals["stdlib_list.in_stdlib"] = _InStdlib(std_modules)
    pk = repo.cls("fickling.fickle.Pickled")
    it = repo.cls("fickling.fickle.Interpreter")
    P = Instance(oe, pk)
    P.fields.update({"_opcodes": [], "_ast": mod, "_properties": None})
    # the decompilation of this abstract pickle *is* the program; so is the body of any Interpreter made for it
    oe.forced_attrs[(pk.qualname, "ast")] = lambda inst: mod
    oe.forced_attrs[(it.qualname, "_module")] = lambda inst: mod
    oe.forced_attrs[(it.qualname, "module_body")] = lambda inst: list(mod.body)
    ab = repo.cls(f"{A}.Analysis")
    subs = sorted((c for c in repo.classes.values() if c is not ab and repo.is_subclass(c, ab.qualname)), key=lambda c: (c.module.name != A, c.module.name, c.node.lineno))
    analyses = [oe.instantiate(c, [], {}) for c in subs]  # Analysis.ALL: one instance per subclass, in definition order (C04.registered)
    az = oe.instantiate(repo.cls(f"{A}.Analyzer"), [analyses], {})
    res = az.sa_attr("analyze")(P)
    out = []
    for r in res.sa_attr("results"):
        sev = r.sa_attr("severity")
        if not (isinstance(sev, tuple) and sev and sev[0] == "enum-member"):
            raise AnalysisError(f"an analysis result carries {sev!r} as its severity")
        out.append((sev[1]["name"], r.sa_attr("analysis_name"), r.sa_attr("trigger")))
    return out


_POOL_REPO = None


def _world_chunk(worlds):
    """(worker) interpret a chunk of programs; returns per world ('ok', res, again) | ('raises', name) | ('unsupported', msg)."""
    from ..minieval import PyRaise, Unsupported
    from ..objeval import ObjEval

    repo = _POOL_REPO
    std_base = {"collections", "datetime", "io", "os.path", "codecs", "importlib", "json"} | STD_DANGEROUS
    out = []
    for w in worlds:
        std = set(std_base)
        if w["module"] and w["std"]:
            std.add(w["module"])
        elif w["module"]:
            std.discard(w["module"])
        try:
            oe = ObjEval(repo)
            res = interpret_verdict(repo, w["src"], std, oe)
            again = interpret_verdict(repo, w["src"], std, oe)  # a second pickle with the same content, same process
            out.append(("ok", res, again))
        except Unsupported as e:
            out.append(("unsupported", str(e)))
        except PyRaise as pe:
            out.append(("raises", pe.name))
        except AnalysisError as e:
            out.append(("unsupported", str(e)))
    return out


def check_floor_worlds(repo: Repo, rep: Report, tier: str):
    import multiprocessing as mp
    from concurrent.futures import ProcessPoolExecutor

    global _POOL_REPO
    rule = "C04.floor-worlds"
    an = repo.cls(f"{A}.Analyzer")
    bad: Dict[str, Tuple[int, str]] = {}
    from pathlib import Path

    from ..cache import cached, digest

    worlds = list(_floor_worlds(tier, repo))
    n = len(worlds)
    _POOL_REPO = repo
    jobs = min(int(os.environ.get("SA_JOBS", "16")), os.cpu_count() or 1)
    chunks = [worlds[i::jobs] for i in range(jobs)]

    def compute():
        try:
            with ProcessPoolExecutor(max_workers=jobs, mp_context=mp.get_context("fork")) as ex:
                return list(ex.map(_world_chunk, chunks))
        except (OSError, RuntimeError):
            return [_world_chunk(c) for c in chunks]  # no pool available: same work, one process

    key = "c04worlds-" + digest(repo, [m for m in repo.modules if m.startswith("fickling.") and m.split(".")[1] in ("analysis", "fickle", "ml", "exception")], f"{tier}|{jobs}", [Path(__file__)])
    parts = cached(key, compute)
    parts = [[tuple(o[:1]) + tuple([tuple(x) for x in part] if isinstance(part, list) else part for part in o[1:]) for o in outs] for outs in parts]
    for chunk, outs in zip(chunks, parts):
        for w, o in zip(chunk, outs):
            desc = f"decompiled program `{w['src'][len(BENIGN_PREFIX):].strip().replace(chr(10), '; ')}` ({w['cls']}, {'standard-library' if w['std'] else 'not standard-library'} module)"
            if o[0] == "unsupported":
                raise AnalysisError(f"analysis pipeline: cannot interpret over {desc}: {o[1]}")
            if o[0] == "raises":
                key = f"raises:{o[1]}:{w['cls']}:{w['form']}"
                c, m = bad.get(key, (0, f"the analysis pipeline raises {o[1]} on {desc}"))
                bad[key] = (c + 1, m)
                continue
            _, res, again = o
            if w["floor"] is None:
                continue
            for which, rs in (("", res), (":second-analysis-in-the-process", again)):
                verdict = max((s_ for s_, _, _ in rs), key=lambda s_: RANK[s_], default="LIKELY_SAFE")
                if RANK[verdict] < RANK[w["floor"]] or (w["exact"] and verdict != w["floor"]):
                    key = f"below-floor:{w['cls']}:{w['form']}:{verdict}{which}"
                    c, m = bad.get(key, (0, f"verdict {verdict} for {desc}{' when the same content is analysed a second time in one process' if which else ''}; the floor is {w['floor']} (results: {[(s_, a_) for s_, a_, _ in rs]})"))
                    bad[key] = (c + 1, m)
                    break
    for key, (c, m) in sorted(bad.items()):
        rep.bad(rule, an.qualname + ".analyze", key, f"{m} [{c} of {n} programs]", an.module.relpath, an.node.lineno)
    rep.ok(rule, an.qualname + ".analyze", f"{n} decompiled programs, each analysed twice in one process (vocabulary: the 4 overtly bad builtins, other builtins, standard-library globals named like builtins, the 11 documented dangerous modules and submodules of each, non-standard-library modules incl. Python-2 and formerly-standard names, benign standard-library modules, and every module-like or identifier-like string constant of the analysis code as module and as callee name; x {len(FORMS) if tier == 'thorough' else 7} statement forms) interpreted through ASTProperties, the import helpers, AnalysisContext and every registered analysis; each verdict reaches the floor", "", nontrivial=True)
