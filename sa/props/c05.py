"""C05 -- the decompiled program rebuilds the same value as the real pickle VM.

Value equality over all programs is not statically decidable here; the check decides structural
necessary conditions on the 61 opcode summaries produced by the E5 abstract interpreter:

* C05.dataflow   every value-building opcode routes its VM operands into the node it builds exactly as
                 the VM does: constants carry the opcode argument in a fresh Constant; LIST/TUPLE/... take
                 the whole marked slice in stack order; TUPLE1/2/3 keep operand order; APPEND(S)/ADDITEMS/
                 SETITEM(S) add exactly their operands to the container; DUP/GET push the same node.
* C05.in-place   opcodes that mutate a container in the VM leave that same node (or the variable bound to
                 it) on the stack -- never a fresh container -- and only *add* to it, so memoised
                 references (PUT/MEMOIZE store the node itself) keep seeing the contents.
* C05.ast-fields every AST node an opcode builds is well-formed per the ASDL signature.
"""

from __future__ import annotations

import ast
from typing import Callable, Dict, List, Optional, Set

from ..astfields import all_fresh, check_fresh, syntactic_problems
from ..model import Repo, dotted, load_repo
from ..opsummary import OpSummary, all_summaries, kept_values, name_binding, reach, roots_of
from ..report import AnalysisError, Report
from ..util import src
from ..vm import PathSummary
from ..vmvals import AttrOf, Const, Fresh, Item, Mutation, Seq, SliceV, State, Unknown, Val

IN_PLACE = {"APPEND": "T1", "APPENDS": "B0", "SETITEM": "T2", "SETITEMS": "B0", "ADDITEMS": "B0", "BUILD": "T1"}
LITERAL_CLASS = {"SETITEM": "Dict", "SETITEMS": "Dict"}
ADDITIVE = {"append", "extend", "add", "update", "augassign", "insert", "setitem", "setdefault"}
CONST_VALUES = {"NONE": None, "NEWTRUE": True, "NEWFALSE": False}


def _top(p: PathSummary) -> Optional[Val]:
    return p.state.local_stack[-1] if p.state.local_stack else None


def _slice_ok(v: Optional[Val], st: State, part=("all",), order="fwd") -> bool:
    """v is (a list/tuple copy of) the marked slice with the required coverage and order."""
    if isinstance(v, SliceV):
        return v.part in part and v.order == order and v.pykind in ("list", "tuple", "iterator")
    return False


def _seq_items(v: Optional[Val], st: State) -> Optional[List[Val]]:
    if isinstance(v, Seq):
        return st.heap.get(v.uid, [])
    return None


def _field(f: Optional[Val], name: str) -> Optional[Val]:
    return f.fields.get(name) if isinstance(f, Fresh) else None


def _mutations_on(st: State, target_label: str) -> List[Mutation]:
    return [m for m in st.mutations if isinstance(m.target, Item) and m.target.label == target_label]


def check_dataflow(rep: Report, sums: List[OpSummary]):
    for s in sums:
        q = s.oc.cls.qualname + ".run"
        name = s.name
        if s.refuses:
            continue
        d = s.decl
        problems: List[str] = []
        checked = None
        for p in s.normal:
            st = p.state
            tag = "; ".join(st.conds) or "unconditional"
            top = _top(p)

            def bad(msg):
                problems.append(f"[{tag}] {msg}")

            # ---------------- scalar constants
            if name in CONST_VALUES:
                checked = "constant"
                v = _field(top, "value")
                if not (isinstance(top, Fresh) and top.cls == "ast.Constant" and isinstance(v, Const) and v.value is CONST_VALUES[name]):
                    bad(f"pushes {top.short() if top else None}(value={v.short() if v else None}), expected a fresh Constant({CONST_VALUES[name]!r})")
            elif not d.before and len(d.after) == 1 and s.oc.info.arg is not None and d.after[0] in ("int", "int_or_bool", "float", "str", "bytes", "bytes_or_str", "bytearray"):
                checked = "constant"
                v = _field(top, "value")
                if not (isinstance(top, Fresh) and top.cls == "ast.Constant" and len(top.fields) >= 1 and v is not None and set(v.roots()) == {"arg"}):
                    bad(f"pushes {top.short() if top else None} whose value derives from {sorted(roots_of(v, st)) if v is not None else '?'}; the VM pushes the opcode argument itself (a fresh Constant(self.arg))")
                elif isinstance(v, Unknown) and v.why not in ("self.arg",) and not v.why.startswith("self."):
                    bad(f"Constant value is `{v.short()}`, not the opcode argument unchanged")
            # ---------------- empty containers
            elif name in ("EMPTY_LIST", "EMPTY_TUPLE", "EMPTY_DICT", "EMPTY_SET"):
                checked = "empty container"
                want = {"EMPTY_LIST": ("ast.List", ["elts"]), "EMPTY_TUPLE": ("ast.Tuple", ["elts"]), "EMPTY_DICT": ("ast.Dict", ["keys", "values"]), "EMPTY_SET": ("ast.Set", ["elts"])}[name]
                if not (isinstance(top, Fresh) and top.cls == want[0]):
                    bad(f"pushes {top.short() if top else None}, expected a fresh {want[0]}")
                else:
                    for fld in want[1]:
                        items = _seq_items(top.fields.get(fld), st)
                        if items is None or items:
                            bad(f"{want[0]}.{fld} is not an empty literal sequence")
            # ---------------- slice builders
            elif name in ("LIST", "TUPLE", "FROZENSET"):
                checked = "slice -> elements"
                node = top
                if name == "FROZENSET" and isinstance(top, Fresh) and top.cls in ("ast.Constant", "ast.Call"):
                    # frozenset is expressed through an inner Set/args; find the element carrier
                    inner = [x for x in reach(top, st) if isinstance(x, Fresh) and x.cls in ("ast.Set", "ast.List", "ast.Tuple")]
                    node = inner[0] if inner else top
                want_cls = {"LIST": ("ast.List",), "TUPLE": ("ast.Tuple",), "FROZENSET": ("ast.Set", "ast.List", "ast.Tuple")}[name]
                if not (isinstance(node, Fresh) and node.cls in want_cls):
                    bad(f"pushes {top.short() if top else None}, expected a fresh {'/'.join(want_cls)}")
                elif not _slice_ok(node.fields.get("elts"), st):
                    e = node.fields.get("elts")
                    bad(f"elements are {e.short() if e else None}; the VM takes the whole marked slice in stack order")
            elif name == "DICT":
                checked = "slice -> keys/values"
                if not (isinstance(top, Fresh) and top.cls == "ast.Dict"):
                    bad(f"pushes {top.short() if top else None}, expected a fresh ast.Dict")
                else:
                    for fld in ("keys", "values"):
                        v = top.fields.get(fld)
                        if not _slice_ok(v, st, part=("some",)):
                            bad(f"Dict.{fld} is {v.short() if v else None}; expected every other slice item in stack order")
            elif name in ("TUPLE1", "TUPLE2", "TUPLE3"):
                checked = "operands -> elements"
                n = int(name[-1])
                items = _seq_items(_field(top, "elts"), st)
                want = [f"T{n - 1 - i}" for i in range(n)]
                got = [x.label if isinstance(x, Item) else x.short() for x in items] if items is not None else None
                if not (isinstance(top, Fresh) and top.cls == "ast.Tuple" and got == want):
                    bad(f"pushes Tuple{got}; the VM builds ({', '.join(want)}) (bottom operand first)")
            # ---------------- in-place fillers
            elif name == "APPEND":
                checked = "operand appended in place"
                ms = _mutations_on(st, "T1")
                if not any(m.field == "elts" and ((m.how == "append" and isinstance(m.arg, Item) and m.arg.label == "T0") or (m.how == "augassign" and (_seq_items(m.arg, st) or [None])[0] is st.base_items.get("T0") and len(_seq_items(m.arg, st) or []) == 1)) for m in ms):
                    bad("the popped value T0 is not appended to the list operand's elts")
            elif name in ("APPENDS", "ADDITEMS"):
                checked = "slice added in place"
                ms = _mutations_on(st, "B0")
                if not any(m.field == "elts" and m.how in ("extend", "augassign") and _slice_ok(m.arg, st) for m in ms):
                    bad(f"the marked slice is not added (whole, in stack order) to the container operand's elts (mutations: {[(m.field, m.how, m.arg.short() if m.arg else None) for m in ms]})")
            elif name == "SETITEM":
                checked = "key/value stored"
                if not _setitem_ok(p, "T2", lambda v: "T1" in roots_of(v, st), lambda v: "T0" in roots_of(v, st), single=True):
                    bad("key T1 / value T0 are not stored into the dict operand T2 (neither in place nor via `<var>[key] = value` on the variable bound to it)")
            elif name == "SETITEMS":
                checked = "key/value pairs stored"
                if not _setitem_ok(p, "B0", lambda v: _slice_ok(v, st, part=("some",)), lambda v: _slice_ok(v, st, part=("some",)), single=False):
                    bad("the marked key/value pairs are not stored (all, in order) into the dict operand B0 (neither in place nor via `<var>.update({...})`)")
            elif name == "DUP":
                checked = "same node pushed"
                if not (isinstance(top, Item) and top.label == "T0"):
                    bad(f"pushes {top.short() if top else None}, expected the very node on top of the stack")
            elif name == "MARK" or name in ("POP", "POP_MARK", "PROTO", "FRAME", "STOP", "PUT", "BINPUT", "LONG_BINPUT", "MEMOIZE", "GET", "BINGET", "LONG_BINGET"):
                checked = None  # stack/memo discipline is C09's
            # GLOBAL/STACK_GLOBAL/INST/REDUCE/OBJ/NEWOBJ*/BUILD/BINPERSID: callee/argument provenance is C03.emit
        if checked is None:
            continue
        if problems:
            rep.bad("C05.dataflow", q, f"value-flow:{name}", f"{name} ({checked}): " + " | ".join(sorted(set(problems))[:3]), s.run.file, s.run.line, what=f"{name}: {checked}")
        else:
            rep.ok("C05.dataflow", q, f"{name}: {checked} as in the VM on {len(s.normal)} path(s)", s.where())


def _setitem_ok(p: PathSummary, container: str, key_ok: Callable, val_ok: Callable, single: bool) -> bool:
    st = p.state
    # (a) in place on the container node
    ms = _mutations_on(st, container)
    k_ok = any(m.field == "keys" and m.how in ("append", "extend", "augassign") and m.arg is not None and key_ok(m.arg) for m in ms)
    v_ok = any(m.field == "values" and m.how in ("append", "extend", "augassign") and m.arg is not None and val_ok(m.arg) for m in ms)
    if k_ok and v_ok:
        return True
    # (c) a dict node holding exactly the operands is pushed (value-correct; whether it may *replace*
    # the container is C05.in-place's question)
    top = st.local_stack[-1] if st.local_stack else None
    if isinstance(top, Fresh) and top.cls == "ast.Dict":
        kf, vf = top.fields.get("keys"), top.fields.get("values")
        if single:
            ki, vi = _seq_items(kf, st), _seq_items(vf, st)
            if ki and vi and len(ki) == 1 and len(vi) == 1 and key_ok(ki[0]) and val_ok(vi[0]):
                return True
        elif kf is not None and vf is not None and key_ok(kf) and val_ok(vf):
            return True
    # (b) through the variable bound to the container
    for sunk, _ in st.sinks:
        if single and isinstance(sunk, Fresh) and sunk.cls == "ast.Assign":
            tg = _seq_items(sunk.fields.get("targets"), st) or []
            for t in tg:
                if isinstance(t, Fresh) and t.cls == "ast.Subscript":
                    base = t.fields.get("value")
                    bound = name_binding(base, p)
                    if bound is not None and isinstance(bound, Item) and bound.label == container and key_ok(t.fields.get("slice")) and val_ok(sunk.fields.get("value")):
                        return True
        if not single and isinstance(sunk, Fresh) and sunk.cls == "ast.Expr":
            call = sunk.fields.get("value")
            if isinstance(call, Fresh) and call.cls == "ast.Call":
                fn = call.fields.get("func")
                if isinstance(fn, Fresh) and fn.cls == "ast.Attribute" and isinstance(fn.fields.get("attr"), Const) and fn.fields["attr"].value == "update":
                    bound = name_binding(fn.fields.get("value"), p)
                    args = _seq_items(call.fields.get("args"), st) or []
                    if bound is not None and isinstance(bound, Item) and bound.label == container and len(args) == 1 and isinstance(args[0], Fresh) and args[0].cls == "ast.Dict":
                        if key_ok(args[0].fields.get("keys")) and val_ok(args[0].fields.get("values")):
                            return True
    return False


def check_body_edits(rep: Report, sums: List[OpSummary]):
    n = 0
    for s in sums:
        for p in s.normal:
            n += 1
            for meth, line in p.state.body_other:
                if meth in ("__len__", "__iter__", "__getitem__", "index", "count"):
                    continue
                rep.bad("C05.dataflow", s.oc.cls.qualname + ".run", f"handler-edits-body:{meth}", f"{s.name} calls module_body.{meth}(...) (line {line}): statements already emitted are rewritten, but names they bound may still be referenced from the memo, a DUP copy or the stack - the decompiled program then refers to a variable that is never assigned (or assigned something else)", s.run.file, line)
    rep.ok("C05.dataflow", "fickling.fickle.*", f"{n} handler paths: the module body is append-only", "")


def check_in_place(rep: Report, sums: List[OpSummary]):
    by = {s.name: s for s in sums}
    for name, label in IN_PLACE.items():
        s = by.get(name)
        if s is None or s.refuses:
            continue
        q = s.oc.cls.qualname + ".run"
        problems = []
        for p in s.normal:
            st = p.state
            tag = "; ".join(st.conds) or "unconditional"
            popped = any(isinstance(v, Item) and v.label == label for v in st.popped_vals)
            if not popped:
                left = "SAME"  # never popped: the container node stays where it was
                result: Optional[Val] = st.base_items.get(label)
            else:
                result = _top(p)
                if isinstance(result, Item) and result.label == label:
                    left = "SAME"
                else:
                    bound = name_binding(result, p) if result is not None else None
                    if bound is not None and isinstance(bound, Item) and bound.label == label:
                        left = "NAMEOF"
                    else:
                        left = "FRESH" if isinstance(result, Fresh) else "OTHER"
            if left == "NAMEOF" and name in LITERAL_CLASS:
                # rebinding the container to a fresh variable is only alias-safe when the container is not a
                # literal node: `_var0 = {'a': 1}` creates the object, but the memo (PUT/MEMOIZE stored the node
                # itself) still holds the literal, which a later GET unparses into a *second*, stale object
                lit = LITERAL_CLASS[name]
                excluded = False
                for c, val in st.cond_vals:
                    if c.kind == "isinstance" and val is False and isinstance(c.subject, Item) and c.subject.label == label and c.arg.split(".")[-1] == lit:
                        excluded = True
                if not excluded:
                    problems.append(
                        f"[{tag}] binds the container to a new variable (`_varN = <container>`) on a path that is not restricted to non-literal containers: if it is an {lit} literal the memo keeps the literal node, and a later GET yields a second object without the items added through the variable (pickle.dumps([d, d], 0) with d = {{'a': 1, 'b': 2}} decompiles to [_var0, {{'a': 1}}])"
                    )
                    continue
            if left in ("FRESH", "OTHER"):
                problems.append(
                    f"[{tag}] leaves {result.short() if result is not None else None} in place of the container operand: a memoised reference (PUT/MEMOIZE stored the old node) "
                    f"keeps pointing at the stale, unfilled node, so `[d, d]`-style sharing decompiles to different values"
                )
                continue
            # only additive mutations on the container itself
            for m in _mutations_on(st, label):
                if m.how not in ADDITIVE:
                    problems.append(f"[{tag}] `{m.how}` on the container's .{m.field} at line {m.line} replaces contents that earlier opcodes put there")
        if problems:
            kind = "literal-rebound" if all("binds the container to a new variable" in p for p in problems) else "container-replaced"
            rep.bad("C05.in-place", q, f"{kind}:{name}", f"{name}: " + " | ".join(sorted(set(problems))[:2]), s.run.file, s.run.line, what=f"{name}: container identity")
        else:
            rep.ok("C05.in-place", q, f"{name}: leaves SAME/NAMEOF({label}) and only adds to it", s.where())


def check_ast_fields(repo: Repo, rep: Report, sums: List[OpSummary], rule: str = "C05.ast-fields", only_kinds: Optional[Set[str]] = None):
    fresh = all_fresh(sums)
    n = 0
    for s, f in fresh:
        n += 1
        probs = check_fresh(f)
        q = s.oc.cls.qualname + ".run"
        for pr in probs:
            if only_kinds and pr.kind not in only_kinds:
                continue
            rep.bad(rule, q, f"{pr.kind}:{pr.node_cls}.{pr.fld}", f"{s.name}: {pr.detail}", s.run.file, pr.line, what=f"{pr.node_cls}.{pr.fld} <- {pr.got}")
        if not probs:
            rep.ok(rule, q, f"{s.name}: {f.cls}@{f.line} fields well-typed", f"{s.run.file}:{f.line}")
    handler_funcs = set()
    for s in sums:
        handler_funcs.add(s.run.qualname)
    probs, count = syntactic_problems(repo, skip_funcs=set())
    seen_lines = {(f.line) for _, f in fresh}
    for fn, call, pr in probs:
        if only_kinds and pr.kind not in only_kinds:
            continue
        if pr.line in seen_lines:
            continue  # already judged by the abstract layer with better information
        rep.bad(rule, fn.qualname, f"{pr.kind}:{pr.node_cls}.{pr.fld}", pr.detail, fn.file, pr.line)
    rep.ok(rule, "fickling/*", f"{count} ast.* constructor calls in the package scanned syntactically, {n} abstract nodes from opcode handlers typed", "")
    if count < 50:
        raise AnalysisError(f"only {count} ast.* constructor calls found (78 on the pinned tree)")


def check_constant_ctor(repo: Repo, rep: Report, rule: str = "C05.dataflow"):
    """`make_constant` is the one constructor every constant-pushing handler uses; the interpreter models it as
    `ast.Constant` (a fresh node per call).  That model is only right while the name IS ast.Constant (or a plain wrapper):
    a memoising wrapper hands the same node out for values that compare equal but are different constants (0.0 / -0.0,
    True / 1 / 1.0) and shares nodes between decompilations."""
    m = repo.module("fickling.fickle")
    defs = m.assigns.get("make_constant", [])
    fn = m.functions.get("make_constant")
    where = "fickling/fickle.py"
    if fn is not None and not defs:
        deco = [dotted(d) or (dotted(d.func) if isinstance(d, ast.Call) else "") or "" for d in fn.node.decorator_list]
        if any(x.split(".")[-1] in ("lru_cache", "cache") for x in deco):
            rep.bad(rule, "fickling.fickle.make_constant", "memoised-constant-constructor", f"make_constant is memoised (@{deco[0]}): equal-but-different constants (0.0 and -0.0; True, 1 and 1.0) get one shared node, so the decompiled program builds a different value", where, fn.line)
        else:
            rep.ok(rule, "fickling.fickle.make_constant", "a plain function (no memoisation)", f"{where}:{fn.line}")
        return
    if not defs:
        raise AnalysisError("fickling.fickle.make_constant: definition not found (the interpreter models it as ast.Constant)")
    for v in defs:
        q = repo.resolve_expr(m, v) or ""
        if q == "ast.Constant":
            rep.ok(rule, "fickling.fickle.make_constant", "is ast.Constant itself: a fresh node per call", f"{where}:{v.lineno}")
        elif isinstance(v, ast.Call) and any((dotted(x) or "").split(".")[-1] in ("lru_cache", "cache", "cached") for x in ast.walk(v) if isinstance(x, (ast.Name, ast.Attribute))):
            rep.bad(rule, "fickling.fickle.make_constant", "memoised-constant-constructor", f"`make_constant = {src(v)}` memoises the node constructor: the cache key treats equal-but-different constants (0.0 and -0.0; True, 1 and 1.0) as one, so the second such value is decompiled as the first, and nodes are shared between decompilations in one process", where, v.lineno)
        else:
            raise AnalysisError(f"fickling.fickle.make_constant = {src(v)}: not ast.Constant; the interpreter's model of constant construction does not apply")


def run(rep: Report, tier: str):
    repo = load_repo()
    rep.explanation = (
        "Per-opcode dataflow summaries from the E5 abstract interpreter checked against a frozen table of the VM's value "
        "semantics (which operand goes where, in which order), container identity for the in-place opcodes, and ASDL "
        "well-formedness of every AST node the handlers build. Structural necessary conditions only: equality of the "
        "rebuilt value for every program is not claimed."
    )
    rep.rule("C05.dataflow", "each value-building opcode routes its operands into the built node as the VM does (coverage, order, identity)", 35)
    rep.rule("C05.in-place", "in-place opcodes leave SAME/NAMEOF(container) on the stack and only add to it", 5)
    rep.rule("C05.ast-fields", "every AST node built is well-formed per its ASDL signature (sequence fields get lists/tuples, node fields get nodes, Constant.value gets a constant)", 40)
    rep.assume("pickletools' operand order and Lib/pickle.py's load_* semantics for which operand goes where (frozen in the table in check_dataflow)")
    rep.assume("every standard pickler memoises a container right after creating it and before filling it (why container identity matters)")
    from ..pitfalls import check_pitfalls, handler_functions

    check_pitfalls(repo, rep, "C05.dataflow", handler_functions(repo))
    check_constant_ctor(repo, rep)
    from .c09 import check_memo

    rep.rule("C05.memo-alias", "PUT-family/MEMOIZE store the node on top of the stack under the VM's key and GETs push that very node (sharing through the memo)", 9)
    with rep.part("opcode summaries"):  # a handler outside the abstract interpreter's model leaves these undecided, not the worlds below
        sums = all_summaries(repo)
        rep.units = {"opcode_classes": len(sums), "paths": sum(len(s.paths) for s in sums)}
        check_dataflow(rep, sums)
        check_body_edits(rep, sums)
        check_in_place(rep, sums)
        check_ast_fields(repo, rep, sums)
        check_memo(repo, rep, sums, RULE="C05.memo-alias")

    # interpreted last: the rules above stand on their own if the decompiler cannot be interpreted over an input
    from ..vmworlds import C05_KEYS, report as _vm_report

    rep.rule("C05.value-worlds", "the decompiled program of every corpus pickle denotes the value CPython's unpickler builds", 1)
    _vm_report(repo, rep, "C05.value-worlds", tier, C05_KEYS)

