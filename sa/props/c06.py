"""C06 -- parse / re-serialise is byte-exact; stacked pickles partition the input.

Byte equality for every encoding and length is arithmetic over genops positions and is not decided; the check
decides the structural necessary conditions:

* C06.concat        dumps / dump / dumps_partial emit exactly the concatenation of `opcode.data` over the iterated
                    opcodes (no filter, no transform, no re-encoding); `Opcode.data` prefers the retained bytes and
                    the constructor keeps them unchanged.
* C06.retained      in Pickled.load every parsed opcode gets its bytes from the stream (or is completed from the
                    stream on the next iteration); "no position" is tested with `is None`, never by truthiness
                    (offset 0 is a position).
* C06.seek-restore  inside the genops loop every seek/read on the stream is followed, on every exit of the iteration
                    (normal or exceptional), by a seek back to the position saved at the top of the iteration.
* C06.bounded-read  no unbounded read() of the caller's stream on the parse path (it consumes what follows).
* C06.end-position  after the loop the stream is only *positioned* (seek to last opcode's end, or back to the start
                    when nothing was parsed) -- never read.
* C06.stack-loop    StackedPickle.load normalises the input once and parses repeatedly from that same stream object
                    until an empty parse, keeping every non-empty result.
"""

from __future__ import annotations

import ast
import os
from typing import List, Optional, Set

from ..cfg import CFG
from ..model import FuncInfo, Repo, dotted, load_repo
from ..report import AnalysisError, Report
from ..util import canon_func, store_targets, body_walk, src, walk_no_nested

P = "fickling.fickle.Pickled"


def check_concat(repo: Repo, rep: Report, rule: str = "C06.concat"):
    pk = repo.cls(P)
    for name in ("dumps", "dump", "dumps_partial"):
        f = pk.method(name)
        if f is None:
            raise AnalysisError(f"Pickled.{name} not found")
        loops = [n for n in body_walk(f.node) if isinstance(n, ast.For)]
        comps = [n for n in body_walk(f.node) if isinstance(n, (ast.GeneratorExp, ast.ListComp))]
        problems = []
        if len(loops) + len(comps) != 1:
            rep.bad(rule, f.qualname, "not-plain-concatenation", f"{f.qualname} contains {len(loops) + len(comps)} loops/comprehensions: the serialised form is computed, not the plain concatenation of the opcodes' retained bytes (e.g. lengths or frames are rewritten on the way out)", f.file, f.line)
            continue
        if loops:
            lp = loops[0]
            it, var = lp.iter, lp.target
            body = lp.body
            sinks = [n for st in body for n in walk_no_nested(st) if isinstance(n, ast.Call) and isinstance(n.func, ast.Attribute) and n.func.attr in ("extend", "write", "append", "__iadd__")]
            augs = [st for st in body if isinstance(st, ast.AugAssign)]
            body_rest = list(body)
            if any(isinstance(x, (ast.If, ast.Continue, ast.Break, ast.Try)) for st in body_rest for x in walk_no_nested(st)):
                problems.append("the loop body branches / skips: not every opcode is emitted")
            datas = [c.args[0] for c in sinks if c.args] + [a.value for a in augs]
            if len(datas) != 1:
                problems.append(f"{len(datas)} emission(s) per opcode")
            for d in datas:
                if not (isinstance(d, ast.Attribute) and d.attr == "data" and isinstance(var, ast.Name) and dotted(d.value) == var.id):
                    problems.append(f"emits `{src(d)}` instead of `<opcode>.data` (e.g. re-encoding instead of the retained bytes)")
        else:
            cp = comps[0]
            g = cp.generators[0]
            it, var = g.iter, g.target
            if g.ifs:
                problems.append("the comprehension filters opcodes")
            if not (isinstance(cp.elt, ast.Attribute) and cp.elt.attr == "data" and isinstance(var, ast.Name) and dotted(cp.elt.value) == var.id):
                problems.append(f"emits `{src(cp.elt)}` instead of `<opcode>.data`")
        want_full = name != "dumps_partial"
        it_txt = src(it)
        if want_full and it_txt not in ("self", "self._opcodes", "iter(self)", "self.opcodes"):
            problems.append(f"iterates `{it_txt}`, not the whole opcode list")
        if not want_full and not (isinstance(it, ast.Subscript) and dotted(it.value) in ("self._opcodes", "self") and isinstance(it.slice, ast.Slice)):
            problems.append(f"iterates `{it_txt}`, not a slice of the opcode list")
        if problems:
            rep.bad(rule, f.qualname, "not-plain-concatenation", "; ".join(problems), f.file, f.line)
        else:
            rep.ok(rule, f.qualname, f"concatenates <opcode>.data over `{it_txt}`", f"{f.file}:{f.line}")
    op = repo.cls("fickling.fickle.Opcode")
    dg = op.method("data", "property")
    if dg is None:
        raise AnalysisError("Opcode.data property not found")
    g = CFG(dg.node)
    rets = g.stmt_nodes(ast.Return)
    ok = False
    for r in rets:
        if dotted(r.ast.value) == "self._data":
            conds = [g.nodes[d] for d in g.dominators()[r.id] if g.nodes[d].kind == "branch"]
            if all(src(b.ast) in ("self._data is None", "self._data is not None") for b in conds):
                ok = True
    enc_ret = [r for r in rets if isinstance(r.ast.value, ast.Call) and dotted(r.ast.value.func) == "self.encode"]
    enc_guarded = all(any(src(g.nodes[d].ast) == "self._data is None" and g.nodes[d].value is True or src(g.nodes[d].ast) == "self._data is not None" and g.nodes[d].value is False for d in g.dominators()[r.id] if g.nodes[d].kind == "branch") for r in enc_ret)
    if ok and enc_guarded and len(rets) == len(enc_ret) + sum(1 for r in rets if dotted(r.ast.value) == "self._data"):
        rep.ok(rule, dg.qualname, "returns the retained bytes; encodes only when none were retained", f"{dg.file}:{dg.line}")
    else:
        rep.bad(rule, dg.qualname, "data-not-retained-first", "Opcode.data does not return the retained source bytes whenever they exist", dg.file, dg.line)
    init = op.method("__init__")
    st = [n for n in body_walk(init.node) if isinstance(n, (ast.Assign, ast.AnnAssign)) and dotted(n.targets[0] if isinstance(n, ast.Assign) else n.target) == "self._data"]
    if len(st) == 1 and dotted(st[0].value) == "data":
        rep.ok(rule, init.qualname, "self._data = data (kept unchanged)", f"{init.file}:{st[0].lineno}")
    else:
        rep.bad(rule, init.qualname, "data-transformed", f"Opcode.__init__ stores `{[src(s.value) for s in st]}` as the retained bytes", init.file, init.line)
    ds = op.method("data", "setter")
    if ds is not None:
        st = [n for n in body_walk(ds.node) if isinstance(n, ast.Assign) and dotted(n.targets[0]) == "self._data"]
        if not (len(st) == 1 and isinstance(st[0].value, ast.Name) and st[0].value.id in ds.params()):
            rep.bad(rule, ds.qualname, "setter-transforms", "Opcode.data setter does not store its value unchanged", ds.file, ds.line)
    # no opcode class fills its retained bytes by itself: the parser hands over the source bytes (or None, to be completed
    # from the stream once the next opcode's position is known - the completion is guarded by `not has_data()`)
    n_sub = 0
    for c in repo.subclasses(op, strict=True):
        n_sub += 1
        for name, fs in c.methods.items():
            for f in fs:
                for n in body_walk(f.node):
                    if isinstance(n, (ast.Assign, ast.AugAssign, ast.AnnAssign)):
                        for t in store_targets(n):
                            if dotted(t) in ("self._data", "self.data"):
                                rep.bad(rule, f.qualname, f"data-self-filled:{c.name}", f"`{src(n)}`: {c.name} sets its own retained bytes; an opcode the parser built without bytes then counts as complete, its source bytes are never filled in from the stream, and dumps() emits a re-encoding instead of the input bytes (or construction fails on input the re-encoder cannot represent)", f.file, n.lineno)
                    if isinstance(n, ast.Call) and dotted(n.func) == "setattr" and len(n.args) == 3 and dotted(n.args[0]) == "self" and isinstance(n.args[1], ast.Constant) and n.args[1].value in ("_data", "data"):
                        rep.bad(rule, f.qualname, f"data-self-filled:{c.name}", f"`{src(n)}`: {c.name} sets its own retained bytes", f.file, n.lineno)
    rep.ok(rule, "fickling.fickle.Opcode.*", f"{n_sub} opcode classes: none stores to its own retained bytes", "")
    # the dispatching constructor forwards data
    new = op.method("__new__")
    fw = [n for n in body_walk(new.node) if isinstance(n, ast.Call) and isinstance(n.func, ast.Subscript) and dotted(n.func.value) == "OPCODES_BY_NAME"]
    if fw and any(isinstance(a, ast.Starred) for a in fw[0].args) and any(k.arg is None for k in fw[0].keywords):
        rep.ok(rule, new.qualname, "Opcode(info=...) forwards *args/**kwargs (incl. data, position) to the concrete class", f"{new.file}:{new.line}")
    else:
        rep.bad(rule, new.qualname, "ctor-drops-args", "Opcode.__new__ does not forward all arguments to the concrete opcode class", new.file, new.line)


def check_ctor_total(repo: Repo, rep: Report):
    """The parser constructs `Opcode(info=..., argument=<what genops decoded>, data=..., position=...)` for every opcode
    of the input.  A class with its own constructor must accept every argument its pickletools descriptor can produce:
    a constructor that raises turns a valid pickle into a PickleDecodeError (or, for the first opcode of a stacked
    element, silently ends the stack).  Decided by interpreting the constructor (sa/objeval) over representatives."""
    from ..minieval import PyRaise, Unsupported
    from ..model import opcode_registry
    from ..objeval import ObjEval
    from .c15 import _DESC_REPS, _label

    op = repo.cls("fickling.fickle.Opcode")
    oe = ObjEval(repo)
    ops, _ = opcode_registry(repo)
    extra = {"stringnl_noescape_pair": ["mod attr", "a.b c", "my module attr", "Spaced Name cls", "m "], "stringnl_noescape": ["abc", "a b", ""], "unicodestring1": ["\ud800"], "unicodestring4": ["\ud800", "x" * 70000], "unicodestringnl": ["\ud800"], "float8": [float("nan"), float("inf")]}
    n_own = 0
    for oc in ops:
        c = oc.cls
        owner = next((k for k in repo.mro_classes(c) if k.method("__init__") is not None), None)
        if owner is None or owner is op:
            continue
        n_own += 1
        arg = oc.info.arg.name if oc.info.arg else None
        reps = [r for r in _DESC_REPS.get(arg, [()]) if r != ()] + extra.get(arg, [])
        if arg is None:
            reps = [None]
        bad = None
        for r in reps:
            try:
                oe.ref(c)(r, 0, b"\x00")
            except PyRaise as pe:
                bad = (r, pe.name)
                break
            except Unsupported as e:
                raise AnalysisError(f"C06.ctor-total: cannot interpret {owner.qualname}.__init__ for {oc.opname}({_label(r) if r is not None else None}): {e}")
        if bad:
            rep.bad("C06.retained", owner.qualname + ".__init__", f"ctor-raises:{oc.opname}", f"{c.name}({_label(bad[0]) if bad[0] is not None else None}, position, data) raises {bad[1]}: an argument the {arg} reader can produce is refused by the constructor, so Pickled.load fails (PickleDecodeError / EmptyPickleError) on a pickle the VM accepts, and a stack silently ends there", owner.module.relpath, owner.method("__init__").line)
        else:
            rep.ok("C06.retained", owner.qualname + ".__init__", f"{oc.opname}: own constructor accepts all {len(reps)} representative argument(s) of `{arg}`", f"{owner.module.relpath}:{owner.method('__init__').line}")
    rep.ok("C06.retained", "fickling.fickle.Opcode.*", f"{len(ops)} opcode classes, {n_own} with a constructor of their own", "", nontrivial=False)


def _stream_calls(node: ast.AST, stream: str) -> List[ast.Call]:
    return [n for n in ast.walk(node) if isinstance(n, ast.Call) and isinstance(n.func, ast.Attribute) and dotted(n.func.value) == stream]


def check_load(repo: Repo, rep: Report):
    f = repo.func(f"{P}.load")
    # the list the parsed opcodes are collected in, whatever it is called: the receiver of `.append(Opcode(...))`
    lnames = {n.func.value.id for n in ast.walk(f.node) if isinstance(n, ast.Call) and isinstance(n.func, ast.Attribute) and n.func.attr == "append" and isinstance(n.func.value, ast.Name) and n.args and isinstance(n.args[0], ast.Call) and dotted(n.args[0].func) == "Opcode"}
    ren = {}
    if len(lnames) == 1:
        ren[next(iter(lnames))] = "opcodes"
    for n in ast.walk(f.node):
        if isinstance(n, ast.For) and isinstance(n.iter, ast.Call) and dotted(n.iter.func) == "genops" and isinstance(n.target, ast.Tuple) and n.target.elts and isinstance(n.target.elts[0], ast.Name):
            ren[n.target.elts[0].id] = "info"
    if ren:
        f = canon_func(f, rename=ren)
    params = f.params()
    stream = params[0]
    file = f.file
    loops = [n for n in body_walk(f.node) if isinstance(n, ast.For) and isinstance(n.iter, ast.Call) and dotted(n.iter.func) == "genops"]
    if len(loops) != 1 or not (loops[0].iter.args and dotted(loops[0].iter.args[0]) == stream):
        raise AnalysisError("Pickled.load: `for ... in genops(<stream>)` loop not found")
    lp = loops[0]
    # ---- retained: truthiness tests on positions
    pos_names = {t.id for t in ast.walk(lp.target) if isinstance(t, ast.Name)}
    posvar = lp.target.elts[2].id if isinstance(lp.target, ast.Tuple) and len(lp.target.elts) == 3 and isinstance(lp.target.elts[2], ast.Name) else None
    if posvar is None:
        raise AnalysisError("Pickled.load: genops loop target is not (info, arg, pos)")

    def truthiness_uses(e: ast.AST) -> List[ast.AST]:
        out = []

        def is_pos(x):
            return (isinstance(x, ast.Name) and x.id == posvar) or (isinstance(x, ast.Attribute) and x.attr == "pos")

        def cond(x):
            if is_pos(x):
                out.append(x)
            elif isinstance(x, ast.BoolOp):
                for v in x.values:
                    cond(v)
            elif isinstance(x, ast.UnaryOp) and isinstance(x.op, ast.Not):
                cond(x.operand)

        for n in ast.walk(e):
            if isinstance(n, (ast.If, ast.While, ast.IfExp)):
                cond(n.test)
            if isinstance(n, ast.Assert):
                cond(n.test)
        return out

    tu = truthiness_uses(f.node)
    if tu:
        rep.bad("C06.retained", f.qualname, f"position-truthiness:{src(tu[0])}", f"`{src(tu[0])}` is tested by truthiness at line {tu[0].lineno}: offset 0 is a valid position but counts as 'no position', so the first opcode of a stream at offset 0 takes the no-position path (re-encoded instead of sliced from the input)", file, tu[0].lineno)
    else:
        n_none = sum(1 for n in ast.walk(f.node) if isinstance(n, ast.Compare) and isinstance(n.ops[0], (ast.Is, ast.IsNot)) and (dotted(n.left) == posvar or (isinstance(n.left, ast.Attribute) and n.left.attr == "pos")))
        rep.ok("C06.retained", f.qualname, f"positions are only tested with `is None` / `is not None` ({n_none} tests)", f"{file}:{lp.lineno}")
    # where does `data` of each appended opcode come from
    apps = [n for n in ast.walk(lp) if isinstance(n, ast.Call) and dotted(n.func) in ("opcodes.append",) and n.args and isinstance(n.args[0], ast.Call)]
    if len(apps) != 1:
        raise AnalysisError("Pickled.load: expected one `opcodes.append(Opcode(...))` in the loop")
    ctor = apps[0].args[0]
    kw = {k.arg: k.value for k in ctor.keywords}
    if dotted(ctor.func) != "Opcode" or not {"info", "argument", "data", "position"} <= set(kw):
        rep.bad("C06.retained", f.qualname, "ctor-args", f"opcodes are built as `{src(ctor)}`; info/argument/data/position are not all passed", file, ctor.lineno)
    elif not isinstance(kw["data"], ast.Name):
        rep.bad("C06.retained", f.qualname, "ctor-data-conditional", f"the retained bytes passed to Opcode(...) are `{src(kw['data'])}`: some opcodes are deliberately left without their source bytes and will be re-encoded at dump time", file, ctor.lineno)
    else:
        dname = dotted(kw["data"])
        binds = [n for n in ast.walk(lp) if isinstance(n, ast.Assign) and any(isinstance(t, ast.Name) and t.id == dname for t in n.targets)]
        allowed = 0
        bad = []
        for b in binds:
            v = b.value
            t = src(v)
            if isinstance(v, ast.Constant) and v.value is None:
                allowed += 1
            elif isinstance(v, ast.Call) and dotted(v.func) == f"{stream}.read":
                allowed += 1
            elif t.startswith("info.code.encode("):
                allowed += 1  # only reachable when genops reports no position at all
            else:
                bad.append(b)
        if bad:
            rep.bad("C06.retained", f.qualname, f"data-source:{src(bad[0].value, 40)}", f"`{src(bad[0])}`: an opcode's retained bytes come from somewhere other than the input stream", file, bad[0].lineno)
        else:
            rep.ok("C06.retained", f.qualname, f"data of each parsed opcode: stream slice, or None to be completed from the stream ({allowed} bindings)", f"{file}:{ctor.lineno}")
        if dotted(kw["position"]) != posvar or dotted(kw["argument"]) != lp.target.elts[1].id or dotted(kw["info"]) != lp.target.elts[0].id:
            rep.bad("C06.retained", f.qualname, "ctor-wiring", f"Opcode(...) is not built from the genops triple unchanged: `{src(ctor)}`", file, ctor.lineno)
    # completion of the previous opcode's bytes: opcodes[-1].data = stream.read(pos - opcodes[-1].pos) after seek(opcodes[-1].pos)
    fills = [n for n in ast.walk(lp) if isinstance(n, ast.Assign) and src(n.targets[0]) == "opcodes[-1].data"]
    if len(fills) == 1 and src(fills[0].value) == f"{stream}.read({posvar} - opcodes[-1].pos)":
        seeks = [n for n in ast.walk(lp) if isinstance(n, ast.Call) and src(n) == f"{stream}.seek(opcodes[-1].pos)"]
        # the guard of the completion may only say "there is a previous opcode at a known earlier position
        # that still lacks its bytes"
        gg = CFG(f.node)
        fn_ = gg.node_of(fills[0].value)
        conj: List[str] = []
        for d in gg.dominators()[fn_.id]:
            b = gg.nodes[d]
            if b.kind == "branch" and b.value is True and any(b.ast is y for y in ast.walk(lp)):
                t = b.ast
                conj += [src(v) for v in t.values] if isinstance(t, ast.BoolOp) and isinstance(t.op, ast.And) else [src(t)]
        allowed_conj = {f"{posvar} is not None", "opcodes", "opcodes[-1].pos is not None", "not opcodes[-1].has_data()", f"opcodes[-1].pos < {posvar}", "len(opcodes) > 0"}
        extra = [c for c in conj if c not in allowed_conj]
        if extra:
            rep.bad("C06.retained", f.qualname, "fill-filtered", f"the previous opcode's bytes are completed only if additionally `{extra[0]}`: opcodes excluded by that test keep no source bytes and are re-encoded from their decoded argument when dumped (not byte-exact)", file, fills[0].lineno)
        elif seeks and seeks[0].lineno < fills[0].lineno:
            rep.ok("C06.retained", f.qualname, "a variable-length opcode is completed with exactly the bytes between its position and the next opcode's", f"{file}:{fills[0].lineno}")
        else:
            rep.bad("C06.retained", f.qualname, "fill-without-seek", "the previous opcode's bytes are read without first seeking to its position", file, fills[0].lineno)
    else:
        rep.bad("C06.retained", f.qualname, "fill-span", f"the previous opcode's bytes are completed by `{[src(x.value) for x in fills]}`, not by reading exactly `pos - opcodes[-1].pos` bytes", file, lp.lineno)
    # the last opcode: completed from position arithmetic after the loop (end-position rule)

    # ---- seek-restore
    g = CFG(f.node, exc_edges=True)
    head = next(n for n in g.nodes if n.kind == "for" and n.ast is lp)
    saves = [n for n in ast.walk(lp) if isinstance(n, ast.Assign) and src(n.value) == f"{stream}.tell()" and isinstance(n.targets[0], ast.Name)]
    if len(saves) != 1 or lp.body[0] is not saves[0]:
        rep.bad("C06.seek-restore", f.qualname, "no-save", "the stream position is not saved by `<x> = <stream>.tell()` as the first statement of each genops iteration", file, lp.lineno)
        return
    saved = saves[0].targets[0].id
    restore_ids = {n.id for n in g.nodes if n.ast is not None and n.kind == "stmt" and isinstance(n.ast, ast.Expr) and src(n.ast.value) == f"{stream}.seek({saved})"}
    movers = []
    for n in g.nodes:
        if n.ast is None or n.kind == "branch" or n.id in restore_ids or n.copy:
            continue
        if not any(n.ast is x or any(n.ast is y for y in ast.walk(x)) for x in lp.body) and not (isinstance(n.ast, ast.expr) and any(n.ast is y for x in lp.body for y in ast.walk(x))):
            continue
        from ..cfg import own_exprs
        for part in own_exprs(n.ast):
            for c in _stream_calls(part, stream):
                if c.func.attr in ("seek", "read", "readline", "readinto", "peek", "truncate", "write"):
                    movers.append((n, c))
    if not movers:
        raise AnalysisError("Pickled.load: no seek/read inside the genops loop (anchor vanished)")
    bad = []
    for n, c in movers:
        path = g.paths_avoiding(n.id, lambda x: x.id in (head.id, g.exit, g.raise_exit), lambda x: x.id in restore_ids)
        if path is not None:
            bad.append((n, c, path))
    if bad:
        n, c, path = bad[0]
        end = g.nodes[path[-1]]
        rep.bad("C06.seek-restore", f.qualname, f"unrestored:{c.func.attr}", f"after `{src(c)}` (line {c.lineno}) the iteration can end ({'exception' if end.kind == 'raise_exit' else 'next genops step' if end.id == head.id else 'return'}) without `{stream}.seek({saved})`: genops continues from the wrong offset (desynchronised tokeniser) or the caller's stream is left mid-opcode", file, c.lineno, path=[repr(g.nodes[x]) for x in path[:8]])
    else:
        rep.ok("C06.seek-restore", f.qualname, f"{len(movers)} seek/read site(s) in the genops loop, each followed by `{stream}.seek({saved})` on every exit of the iteration (incl. exceptional)", f"{file}:{lp.lineno}")

    # ---- bounded-read in load
    unb = [c for c in _stream_calls(f.node, stream) if c.func.attr in ("read", "readlines", "readline") and not c.args]
    if unb:
        rep.bad("C06.bounded-read", f.qualname, "unbounded-read", f"`{src(unb[0])}` reads the caller's stream without a bound", file, unb[0].lineno)
    else:
        rep.ok("C06.bounded-read", f.qualname, "every read of the stream in Pickled.load is bounded by an explicit size", f"{file}:{f.line}")

    # ---- end-position
    g2 = CFG(f.node)
    after: List[ast.Call] = []
    in_loop_or_before = set()
    for n in ast.walk(lp):
        in_loop_or_before.add(id(n))
    for c in _stream_calls(f.node, stream):
        if id(c) in in_loop_or_before or c.lineno < lp.lineno:
            continue
        after.append(c)
    first_pos = None
    for n in body_walk(f.node):
        if isinstance(n, ast.Assign) and src(n.value) == f"{stream}.tell()" and n.lineno < lp.lineno and isinstance(n.targets[0], ast.Name):
            first_pos = n.targets[0].id
    probs = []
    for c in after:
        if c.func.attr in ("tell", "seekable", "readable", "fileno", "isatty"):
            continue  # observes the stream, does not move or consume it
        if c.func.attr != "seek":
            probs.append(f"`{src(c)}` (line {c.lineno}) touches the stream after the last opcode: what follows the pickle is consumed")
            continue
        a = c.args[0] if c.args else None
        if dotted(a) == first_pos:
            continue
        binds = [n.value for n in body_walk(f.node) if isinstance(n, ast.Assign) and dotted(n.targets[0]) == dotted(a)] if dotted(a) else []
        okb = binds and all(src(b) in ("opcodes[-1].pos + len(opcodes[-1].data)", "opcodes[-1].pos + len(opcodes[-1].info.code)") for b in binds)
        if not okb:
            probs.append(f"`{src(c)}`: the end position is `{[src(b) for b in binds] or src(a)}`, not <last opcode position> + <its length>")
    if len(c.args) > 1 if after else False:
        probs.append("seek with whence")
    if probs:
        rep.bad("C06.end-position", f.qualname, "end-position", "; ".join(probs[:2]), file, after[0].lineno if after else f.line)
    elif after:
        rep.ok("C06.end-position", f.qualname, f"after the loop the stream is only positioned: {[src(c) for c in after]}", f"{file}:{after[0].lineno}")
    else:
        rep.bad("C06.end-position", f.qualname, "no-final-seek", "Pickled.load does not position the stream after the last opcode", file, f.line)
    # what the tokeniser's failure means: "nothing here is a pickle" (EmptyPickleError: the stacking loop ends quietly -
    # trailing non-pickle bytes after the last pickle are normal) exactly when no opcode was parsed, a decoding error
    # otherwise.  Any other criterion turns trailing data into an error (or a broken pickle into a silent end of stack).
    handlers = [h for n in body_walk(f.node) if isinstance(n, ast.Try) for h in n.handlers if h.type is not None and "ValueError" in src(h.type)]
    decided = False
    for h in handlers:
        for st in h.body:
            if isinstance(st, ast.If):
                raises_b = [dotted(x.exc.func if isinstance(x.exc, ast.Call) else x.exc) for x in ast.walk(ast.Module(body=st.body, type_ignores=[])) if isinstance(x, ast.Raise) and x.exc is not None]
                raises_e = [dotted(x.exc.func if isinstance(x.exc, ast.Call) else x.exc) for x in ast.walk(ast.Module(body=st.orelse or [], type_ignores=[])) if isinstance(x, ast.Raise) and x.exc is not None]
                later = [dotted(x.exc.func if isinstance(x.exc, ast.Call) else x.exc) for s2 in h.body[h.body.index(st) + 1:] for x in ast.walk(s2) if isinstance(x, ast.Raise) and x.exc is not None]
                raises_e = raises_e or later
                t = src(st.test)
                nonempty = t in ("opcodes", "len(opcodes) > 0", "len(opcodes) != 0", "len(opcodes)", "bool(opcodes)")
                empty = t in ("not opcodes", "len(opcodes) == 0")
                if ("EmptyPickleError" in raises_b + raises_e) and ("PickleDecodeError" in raises_b + raises_e):
                    decided = True
                    good = (nonempty and "PickleDecodeError" in raises_b and "EmptyPickleError" in raises_e) or (empty and "EmptyPickleError" in raises_b and "PickleDecodeError" in raises_e)
                    if good:
                        rep.ok("C06.end-position", f.qualname, "a tokeniser failure is 'no pickle here' exactly when no opcode was parsed, a decoding error otherwise", f"{file}:{st.lineno}")
                    else:
                        rep.bad("C06.end-position", f.qualname, "empty-parse-misclassified", f"a tokeniser failure is classified by `{t}` instead of 'was any opcode parsed': trailing non-pickle bytes after the last pickle of a stack (a zip/tar appended to a pickle) become a decoding error, or a broken pickle silently ends the stack", file, st.lineno)
    if handlers and not decided:
        raise AnalysisError("Pickled.load: the ValueError handler's EmptyPickleError / PickleDecodeError decision was not recognised")
    ret = [n for n in body_walk(f.node) if isinstance(n, ast.Return) and n.value is not None]
    if len(ret) == 1 and src(ret[0].value) == "Pickled(opcodes)":
        rep.ok("C06.end-position", f.qualname, "returns Pickled(opcodes): every parsed opcode, in order", f"{file}:{ret[0].lineno}")
    else:
        rep.bad("C06.end-position", f.qualname, "result", f"Pickled.load returns {[src(r.value) for r in ret]}", file, f.line)
    # the parse normalises its input first
    ms = [n for n in f.node.body[:2] if isinstance(n, ast.Assign) and src(n.value) == f"Pickled.make_stream({stream})" and dotted(n.targets[0]) == stream]
    if not ms:
        rep.bad("C06.stack-loop", f.qualname, "no-normalisation", "Pickled.load no longer normalises its input through make_stream first", file, f.line)


def check_make_stream(repo: Repo, rep: Report):
    f = repo.func(f"{P}.make_stream")
    unb = [n for n in body_walk(f.node) if isinstance(n, ast.Call) and isinstance(n.func, ast.Attribute) and n.func.attr == "read" and not n.args and dotted(n.func.value) in f.params()]
    g = CFG(f.node)
    for c in unb:
        node = g.node_of(c)
        conds = [src(g.nodes[d].ast) for d in g.dominators()[node.id] if g.nodes[d].kind == "branch" and g.nodes[d].value is True]
        only_nonseekable = any("seekable" in x for x in conds)
        rep.bad(
            "C06.bounded-read",
            f.qualname,
            "drains-non-seekable-stream" if only_nonseekable else "drains-seekable-stream",
            f"`{src(c)}` under `{'; '.join(conds)}`: a non-seekable caller stream is read to its end to build a BytesIO, so parsing the first pickle consumes everything that follows it in the caller's stream" if only_nonseekable else f"`{src(c)}` under `{'; '.join(conds)}`: the caller's stream is read to its end even when it is seekable (an ordinary open file): after the first pickle is parsed the caller's handle is at EOF, so what follows the pickle - the next stacked pickle, the trailing archive - is consumed",
            f.file,
            c.lineno,
        )
    if not unb:
        rep.ok("C06.bounded-read", f.qualname, "make_stream performs no unbounded read of the caller's stream", f"{f.file}:{f.line}")
    # the caller's stream object is handed on as it is, or replaced by an in-memory copy of bytes: any other object built
    # AROUND it (a BufferedReader, a TextIOWrapper, a codec reader) reads ahead of the pickle - consuming what follows it in
    # the caller's stream - and closes the caller's stream when the temporary wrapper is collected
    ps = f.params()
    wrapped = []
    for n in body_walk(f.node):
        if isinstance(n, ast.Call) and any(isinstance(a, ast.Name) and a.id in ps for a in list(n.args) + [k.value for k in n.keywords]):
            callee = dotted(n.func) or src(n.func)
            if callee.split(".")[-1] in ("BytesIO", "isinstance", "hasattr", "getattr", "callable", "len", "bytes", "bytearray", "memoryview", "type"):
                continue
            wrapped.append((n, callee))
    for n, callee in wrapped:
        rep.bad("C06.bounded-read", f.qualname, f"wraps-caller-stream:{callee.split('.')[-1]}", f"`{src(n)}` builds another stream object around the caller's stream: it buffers ahead (the bytes after the pickle are consumed from the caller's stream and its position no longer ends right after the pickle) and closes the caller's stream when it is garbage-collected", f.file, n.lineno)
    if not wrapped:
        rep.ok("C06.bounded-read", f.qualname, "the caller's stream is passed on as it is or replaced by a BytesIO of bytes; nothing is wrapped around it", f"{f.file}:{f.line}")
    # chunked buffering must stop on an *empty* read: a short read is legal for pipes/sockets/raw streams
    reads = [n for n in body_walk(f.node) if isinstance(n, ast.Assign) and isinstance(n.value, ast.Call) and isinstance(n.value.func, ast.Attribute) and n.value.func.attr in ("read", "read1", "readinto") and n.value.args and isinstance(n.targets[0], ast.Name)]
    for r in reads:
        var = r.targets[0].id
        for n in body_walk(f.node):
            if isinstance(n, (ast.If, ast.While)):
                for c in ast.walk(n.test):
                    if isinstance(c, ast.Compare) and len(c.ops) == 1 and isinstance(c.ops[0], (ast.Lt, ast.LtE, ast.NotEq)) and isinstance(c.left, ast.Call) and dotted(c.left.func) == "len" and c.left.args and dotted(c.left.args[0]) == var and not (isinstance(c.comparators[0], ast.Constant) and c.comparators[0].value in (0, 1)):
                        rep.bad("C06.bounded-read", f.qualname, "short-read-as-eof", f"`{src(n.test)}` (line {n.lineno}) treats a read shorter than requested as end of stream: unbuffered pipes, sockets and raw streams return short reads before EOF, so the buffered copy is truncated (a complete pickle fails to parse, or later stacked pickles are silently dropped)", f.file, n.lineno)
    # bytes-like input is wrapped, seekable streams are returned as they are
    rets = [n.value for n in body_walk(f.node) if isinstance(n, ast.Return)]
    if rets and all(dotted(r) in f.params() for r in rets):
        rep.ok("C06.bounded-read", f.qualname, "returns the (possibly wrapped) stream itself", f"{f.file}:{f.line}")


def check_stack_loop(repo: Repo, rep: Report):
    f = repo.func("fickling.fickle.StackedPickle.load")
    # canonical names for the two locals the rule talks about: the parse result and the list it is collected in
    ren = {}
    for n in ast.walk(f.node):
        if isinstance(n, ast.Assign) and isinstance(n.value, ast.Call) and dotted(n.value.func) == "Pickled.load" and len(n.targets) == 1 and isinstance(n.targets[0], ast.Name):
            ren[n.targets[0].id] = "p"
    for n in ast.walk(f.node):
        if isinstance(n, ast.Call) and isinstance(n.func, ast.Attribute) and n.func.attr == "append" and isinstance(n.func.value, ast.Name) and n.args and isinstance(n.args[0], ast.Name) and n.args[0].id in ren:
            ren[n.func.value.id] = "pickles"
    if ren:
        f = canon_func(f, rename=ren)
    stream = f.params()[0]
    file = f.file
    ms = [n for n in f.node.body if isinstance(n, ast.Assign) and isinstance(n.value, ast.Call) and dotted(n.value.func) == "Pickled.make_stream" and dotted(n.targets[0]) == stream and dotted(n.value.args[0]) == stream]
    loops = [n for n in f.node.body if isinstance(n, ast.While)]
    if len(loops) != 1:
        raise AnalysisError("StackedPickle.load: driver loop not found")
    lp = loops[0]
    if not ms or ms[0].lineno > lp.lineno:
        rep.bad("C06.stack-loop", f.qualname, "no-single-normalisation", "StackedPickle.load does not convert its input once with Pickled.make_stream before the loop: for a non-seekable stream every Pickled.load call would buffer (and so swallow) the remaining pickles itself, yielding one element instead of k", file, f.line)
    else:
        rep.ok("C06.stack-loop", f.qualname, "input normalised once before the loop", f"{file}:{ms[0].lineno}")
    remake = [n for n in ast.walk(lp) if isinstance(n, ast.Call) and dotted(n.func) in ("Pickled.make_stream", "BytesIO", "io.BytesIO")]
    loads = [n for n in ast.walk(lp) if isinstance(n, ast.Call) and dotted(n.func) == "Pickled.load"]
    if len(loads) == 1 and dotted(loads[0].args[0]) == stream and not remake:
        rep.ok("C06.stack-loop", f.qualname, "each iteration parses from the same stream object", f"{file}:{loads[0].lineno}")
    else:
        rep.bad("C06.stack-loop", f.qualname, "stream-recreated", "the loop does not parse every element from the one normalised stream object", file, lp.lineno)
    g = CFG(f.node)
    apps = [n for n in ast.walk(lp) if isinstance(n, ast.Call) and isinstance(n.func, ast.Attribute) and n.func.attr == "append" and dotted(n.func.value) == "pickles"]
    ok_app = False
    if len(apps) == 1 and loads:
        an = g.node_of(apps[0])
        conds = [g.nodes[d] for d in g.dominators()[an.id] if g.nodes[d].kind == "branch" and g.nodes[d].test is not None]
        # allowed guard: the parse was not empty
        extra = [b for b in conds if not (src(b.ast) in ("len(p) == 0", "not p", "len(p) != 0", "p", "len(p) > 0") or (isinstance(b.ast, ast.Constant)))]
        bound = isinstance(g.node_of(loads[0]).ast, ast.Assign) and dotted(apps[0].args[0]) == dotted(g.node_of(loads[0]).ast.targets[0])
        if not extra and bound:
            ok_app = True
    if ok_app:
        rep.ok("C06.stack-loop", f.qualname, "every non-empty parse is appended, in order", f"{file}:{apps[0].lineno}")
    else:
        rep.bad("C06.stack-loop", f.qualname, "elements-filtered", "not every non-empty parse result is appended to the stack", file, lp.lineno)
    brk = [n for n in ast.walk(lp) if isinstance(n, ast.Break)]
    exits_ok = True
    for b in brk:
        bn = g.node_of(b) or next((x for x in g.nodes if x.ast is b), None)
        doms = [g.nodes[d] for d in g.dominators()[bn.id]] if bn is not None and bn.id in g.dominators() else []
        fine = any(d.kind == "handler" and dotted(d.ast.type) == "EmptyPickleError" for d in doms) or any(d.kind == "branch" and src(d.ast) in ("len(p) == 0", "not p") and d.value is True for d in doms)
        if not fine:
            exits_ok = False
    if exits_ok and brk:
        rep.ok("C06.stack-loop", f.qualname, "the loop ends only on an empty parse / EmptyPickleError", f"{file}:{lp.lineno}")
    else:
        rep.bad("C06.stack-loop", f.qualname, "early-exit", "the stacking loop can end before an empty parse (later pickles are dropped)", file, lp.lineno)
    ret = [n for n in body_walk(f.node) if isinstance(n, ast.Return)]
    if ret and all(src(r.value) == "StackedPickle(pickles)" for r in ret):
        rep.ok("C06.stack-loop", f.qualname, "returns StackedPickle(pickles)", f"{file}:{ret[0].lineno}")
    else:
        rep.bad("C06.stack-loop", f.qualname, "result", f"returns {[src(r.value) for r in ret]}", file, f.line)


def run(rep: Report, tier: str):
    repo = load_repo()
    rep.explanation = (
        "Structural necessary conditions for byte-exact parse/re-serialise: serialisers are plain concatenations of the "
        "retained opcode bytes; every parsed opcode's bytes are sliced from the input; a save/restore pairing rule on the "
        "stream position inside the genops loop over a CFG with exceptional edges; boundedness of reads; end positioning; "
        "the stacking loop. C06.round-trip interprets Pickled.load / dumps / StackedPickle.load over real byte strings: every "
        "protocol and argument reader, from bytes, BytesIO and an opened file; streams of four kinds (BytesIO, opened file, "
        "gzip member, zip member) entered at a non-zero offset with two consecutive loads and a trailer; concatenations."
    )
    rep.rule("C06.concat", "serialisers emit the concatenation of <opcode>.data; data prefers retained bytes", 6)
    rep.rule("C06.retained", "parsed opcodes get their bytes from the stream; positions tested with `is None`", 3)
    rep.rule("C06.seek-restore", "every seek/read in the genops loop is followed by a restore on every exit of the iteration", 1)
    rep.rule("C06.bounded-read", "no unbounded read of the caller's stream on the parse path", 2)
    rep.rule("C06.end-position", "after parsing the stream is only positioned at the end of the last opcode", 2)
    rep.rule("C06.stack-loop", "one normalisation, one stream object, every non-empty parse kept, ends on empty parse", 4)
    rep.assume("pickletools.genops yields (info, arg, pos) in stream order and only advances the stream (trusted tokeniser)")
    rep.rule("C06.round-trip", "Pickled.load/dumps and StackedPickle.load, interpreted over a corpus of real pickle byte strings, are byte-exact and partition stacks", 1)
    # The interpretation decides byte-exactness, end position and partition on what load/dumps *do*.  When it completes, the
    # rules that match the shape of load()'s body are pointers only (they also fire on rewrites that keep the behaviour, e.g.
    # `Opcode(info=..., argument=..., position=...)` where data is None anyway); when it cannot be carried out they decide.
    # C06.bounded-read stays a verdict either way: non-seekable streams are not among the interpreted worlds.
    from ..report import Demoter

    undecided = None
    try:
        check_round_trip(repo, rep, tier)
    except AnalysisError as e:
        undecided = e
    srep = rep if undecided is not None else Demoter(rep, {"C06.concat", "C06.retained", "C06.seek-restore", "C06.end-position", "C06.stack-loop"}, "C06.round-trip")
    check_concat(repo, srep)
    check_load(repo, srep)
    check_ctor_total(repo, srep)
    check_make_stream(repo, srep)
    check_stack_loop(repo, srep)
    if undecided is not None:
        raise undecided


# ------------------------------------------------------------------------------------------------------------------------
# C06.round-trip: Pickled.load / dumps and StackedPickle.load interpreted over a corpus of real pickle byte strings
# ------------------------------------------------------------------------------------------------------------------------
def _corpus(tier: str):
    """(label, bytes).  The bytes are data: what CPython's pickler writes for sample values at every protocol, plus
    hand-assembled streams with the non-canonical spellings the reader accepts (the pickler never writes them, but a parser
    that re-encodes from the decoded argument changes them)."""
    import collections
    import datetime
    import fractions
    import pickle

    big = 2 ** 70
    shared = [1, 2]
    rec: list = []
    rec.append(rec)
    values = [
        ("small-ints", [0, 1, -1, 255, 256, 65535, 65536, 2 ** 31 - 1, 2 ** 31, -(2 ** 31), -(2 ** 31) - 1]),
        ("big-ints", [big, -big, 2 ** 63, -(2 ** 63), 2 ** 2040]),
        ("floats", [0.0, -0.0, 1.5, float("inf"), 1e300]),
        ("nan", [float("nan"), -float("nan")]),
        ("lone-surrogate text", ["\ud800", "a\udfffb"]),
        ("singletons", [None, True, False]),
        ("text", ["", "ascii", "h\xe9llo", "€", "\U0001f600", "x" * 255, "x" * 256, "\xe9" * 128, "line\nbreak", "back\\slash", "quote'\""]),
        ("bytes", [b"", b"abc", b"\x00\xff", b"x" * 255, b"x" * 256]),
        ("tuples", [(), (1,), (1, 2), (1, 2, 3), (1, 2, 3, 4)]),
        ("containers", [{"a": 1, "b": [1, 2, {"c": (3,)}]}, {1, 2}, [[], [[]], ()], {"k": {"k": {}}}]),
        ("frozenset", [frozenset({3}), frozenset()]),
        ("shared", [shared, shared, {"x": shared}]),
        ("recursive", [rec]),
        ("reduce-and-newobj", [collections.OrderedDict(a=1), fractions.Fraction(1, 3), datetime.date(2020, 1, 2), complex(1, 2), range(3), slice(1, 2)]),
        ("global-only", [collections.OrderedDict, len]),
    ]
    if tier == "thorough":
        values += [
            ("long-list", list(range(2500))),
            ("long-text", ["x" * 65536, "\xe9" * 40000]),
            ("long-bytes", b"y" * 70000),
            ("big-dict", {i: str(i) for i in range(1200)}),
            ("bytearray", [bytearray(b"abc")]),
        ]
    out = []
    for label, v in values:
        for proto in range(0, 6):
            try:
                out.append((f"pickle.dumps({label}, protocol={proto})", pickle.dumps(v, proto)))
            except Exception:
                continue
    hand = [
        ("INT 01 (protocol-0 True)", b"I01\n."), ("INT 00 (protocol-0 False)", b"I00\n."), ("INT 1", b"I1\n."), ("INT with leading zeros", b"I007\n."), ("INT negative", b"I-5\n."),
        ("LONG with L suffix", b"L5L\n."), ("LONG without suffix", b"L5\n."), ("LONG negative", b"L-12345678901234567890L\n."),
        ("LONG1 minimal", b"\x8a\x01\x05."), ("LONG1 empty payload", b"\x8a\x00."), ("LONG1 non-minimal payload", b"\x8a\x05\x00\x00\x00\x80\x00."), ("LONG4", b"\x8b\x02\x00\x00\x00\x01\x02."),
        ("STRING double-quoted", b'S"dq"\n.'), ("STRING single-quoted", b"S'sq'\n."), ("STRING with escape", b"S'a\\x41b'\n."),
        ("UNICODE with escape", b"V\\u00e9x\n."), ("UNICODE raw utf-8", "Véx\n.".encode("utf-8")),
        ("SHORT_BINSTRING", b"U\x03abc."), ("BINSTRING", b"T\x03\x00\x00\x00abc."), ("BINUNICODE8", b"\x80\x04\x8d\x03\x00\x00\x00\x00\x00\x00\x00abc."), ("BINBYTES8", b"\x80\x04\x8e\x02\x00\x00\x00\x00\x00\x00\x00hi."),
        ("BINFLOAT", b"G?\xf8\x00\x00\x00\x00\x00\x00."), ("BININT2", b"M\x00\x01."), ("BININT negative", b"J\xff\xff\xff\xff."),
        ("text PUT/GET", b"]p0\ng0\n."), ("text PUT with spaces", b"]p 7\ng7\n."), ("BINPUT/BINGET", b"]q\x05h\x05."), ("LONG_BINPUT/GET", b"]r\x00\x01\x00\x00j\x00\x01\x00\x00."), ("MEMOIZE", b"\x80\x04]\x94h\x00."),
        ("GLOBAL", b"cos\nsystem\n."), ("GLOBAL with spaces in names", b"cmy mod\nmy attr\n."), ("STACK_GLOBAL", b"\x80\x04\x8c\x02os\x8c\x06system\x93."), ("INST", b"(S'a'\nicollections\nOrderedDict\n."), ("OBJ", b"(ccollections\nOrderedDict\no."),
        ("NEWOBJ", b"\x80\x02ccollections\nOrderedDict\n)\x81."), ("NEWOBJ_EX", b"\x80\x04ccollections\nOrderedDict\n)}\x92."), ("REDUCE+BUILD", b"ccollections\nOrderedDict\n)R}b."),
        ("FRAME with a wrong length", b"\x80\x04\x95\xff\x00\x00\x00\x00\x00\x00\x00K\x01."), ("FRAME zero", b"\x80\x04\x95\x00\x00\x00\x00\x00\x00\x00\x00K\x01."), ("two PROTO opcodes", b"\x80\x02\x80\x03K\x01."), ("PROTO not first", b"K\x01\x80\x020K\x02."),
        ("POP / DUP / POP_MARK", b"K\x012(K\x02K\x0310."), ("PERSID", b"Pfoo\n."), ("BINPERSID", b"K\x01Q."), ("EMPTY_SET/ADDITEMS/FROZENSET", b"\x80\x04\x8f(K\x01K\x02\x90(K\x03\x91\x86."),
        ("APPEND/SETITEM", b"]K\x01a}K\x01K\x02s\x86."), ("TUPLE1/2/3", b"K\x01\x85K\x02K\x03\x86K\x04K\x05K\x06\x87\x86."), ("DICT/LIST from marks", b"(K\x01K\x02d(K\x03l\x86."), ("NEWTRUE/NEWFALSE/NONE", b"\x80\x02\x88\x89N\x87."),
        ("torch-like state dict (BINPERSID storage, _rebuild_tensor_v2, OrderedDict + BUILD)", b"\x80\x02ccollections\nOrderedDict\n)R(X\x01\x00\x00\x00wctorch._utils\n_rebuild_tensor_v2\n((X\x07\x00\x00\x00storagectorch\nFloatStorage\nX\x01\x00\x00\x000X\x03\x00\x00\x00cpuK\x04tQK\x00K\x02K\x02\x86K\x02K\x01\x86\x89ccollections\nOrderedDict\n)RtRu}X\x09\x00\x00\x00_metadataccollections\nOrderedDict\n)Rsb."),
        ("EXT1", b"\x82\x01."), ("BYTEARRAY8", b"\x80\x05\x96\x02\x00\x00\x00\x00\x00\x00\x00hi."), ("NEXT_BUFFER", b"\x80\x05\x97."), ("FLOAT text", b"F2.5\n."),
    ]
    # header-less pickles whose very first opcode takes no argument (offset 0 is a position like any other)
    hand += [(f"header-less {nm} at offset 0", code + b".") for nm, code in (("NEWTRUE", b"\x88"), ("NEWFALSE", b"\x89"), ("EMPTY_SET", b"\x8f"), ("EMPTY_TUPLE", b")"), ("EMPTY_LIST", b"]"), ("EMPTY_DICT", b"}"), ("NONE", b"N"))]
    # memo slots: MEMOIZE always writes slot len(memo), even when an explicit PUT used that index before
    hand += [
        ("MEMOIZE overwriting the slot an explicit BINPUT used", b"\x80\x04]q\x01K\x05\x94h\x01\x86\x86."),
        ("callee fetched from a slot MEMOIZE overwrote (print -> os.system)", b"\x80\x04cbuiltins\nprint\nq\x01cos\nsystem\n\x9400h\x01(S'id'\ntR."),
        ("sparse memo: a lone BINPUT 2", b"\x80\x02]q\x02K\x01a."),
        ("INST without arguments", b"(icollections\nOrderedDict\n."),
        ("OBJ with two arguments", b"(cdecimal\nDecimal\nS'1.5'\nK\x02o."),
        ("NEWOBJ_EX with keyword names that are a reserved word / not NFKC-normal / ordinary", b"\x80\x04ccollections\nOrderedDict\n)}(\x8c\x05classK\x01\x8c\x06\xef\xac\x81eldK\x02\x8c\x01xK\x03u\x92."),
        ("os.system by INST (protocol 0)", b"(S'id'\nios\nsystem\n."),
        ("OBJ inside an enclosing MARK (the arguments end at the innermost mark)", b"(K\x01(cdecimal\nDecimal\nS'2'\nS'3'\not."),
        ("INST inside an enclosing MARK", b"(K\x01(S'2'\nidecimal\nDecimal\nt."),
        ("empty batches: MARK SETITEMS, MARK APPENDS, MARK ADDITEMS", b"\x80\x04}(u](e\x8f(\x90\x87."),
    ]
    # extension codes (copyreg): registered on the specification's side so that the reference reader resolves them
    _register_extensions()
    hand += [
        ("EXT1 -> collections.OrderedDict", b"\x80\x02\x82\x11)R."),
        ("EXT2 -> os.system, called", b"\x80\x02\x83\x34\x12(S'id'\ntR."),
        ("EXT4 -> collections.OrderedDict", b"\x80\x02\x84\x78\x56\x34\x12)R."),
    ]
    # an argument-carrying opcode whose encoding exceeds 1 MiB
    hand.append(("BINBYTES of 1.2 MiB (protocol 3)", pickle.dumps(b"\x07" * (1200 * 1024), 3)))
    out += hand
    return out


def _register_extensions():
    import copyreg

    for (m, nm, code) in (("collections", "OrderedDict", 0x11), ("os", "system", 0x1234), ("collections", "OrderedDict", 0x12345678)):
        if code not in copyreg._inverted_registry:
            try:
                copyreg.add_extension(m, nm, code)
            except ValueError:
                # (module, name) already has a code: the registry maps one key to one code; enter the inverse by hand
                copyreg._inverted_registry[code] = (m, nm)


def _fresh_objeval(repo: Repo):
    from ..model import opcode_registry
    from ..objeval import ObjEval

    oe = ObjEval(repo)
    oe.max_steps = 60_000_000
    ops, _ = opcode_registry(repo)
    from ..objeval import ImportTimeRegistry

    oe.module_specials[("fickling.fickle", "OPCODES_BY_NAME")] = lambda: ImportTimeRegistry(oe, {o.opname: oe.ref(o.cls) for o in ops})
    # the other import-time registry: ConstantOpcode.ConstantOpcodePriorities, filled by ConstantOpcode.__init_subclass__
    from .c15 import CO, constant_registry

    reg = sorted(constant_registry(repo), key=lambda t: t[0].order)
    oe.special_attrs[(CO, "ConstantOpcodePriorities")] = lambda: {oe.ref(c): p for c, p in reg}
    return oe


_RT_REPO = None


STREAM_KINDS = ("io.BytesIO", "io.BufferedReader (an opened file)", "gzip.GzipFile (a .pkl.gz, seekable)", "zipfile.ZipExtFile (a member of a zip archive, seekable)")


class _Pipe(__import__("io").RawIOBase):
    """A readable stream that cannot seek or tell (a pipe): data made up by the world, nothing of the repository."""

    def __init__(self, data: bytes):
        self._b = __import__("io").BytesIO(data)

    def readable(self):
        return True

    def seekable(self):
        return False

    def readinto(self, b):
        return self._b.readinto(b)


def _make_stream(kind: str, whole: bytes):
    import gzip
    import io
    import zipfile

    if kind.startswith("io.BytesIO"):
        return io.BytesIO(whole)
    if kind.startswith("io.BufferedReader"):
        return io.BufferedReader(io.BytesIO(whole))
    if kind.startswith("gzip"):
        return gzip.GzipFile(fileobj=io.BytesIO(gzip.compress(whole)), mode="rb")
    buf = io.BytesIO()
    with zipfile.ZipFile(buf, "w", zipfile.ZIP_DEFLATED) as z:
        z.writestr("archive/data.pkl", whole)
    return zipfile.ZipFile(io.BytesIO(buf.getvalue())).open("archive/data.pkl")


def _rt_chunk(items):
    import io
    import pickletools

    from ..minieval import PyRaise, Unsupported
    from ..objeval import Instance

    repo = _RT_REPO
    pk = repo.cls("fickling.fickle.Pickled")
    sp = repo.cls("fickling.fickle.StackedPickle")
    out = []
    for kind, label, parts in items:
        try:
            oe = _fresh_objeval(repo)
            if kind == "single":
                data = parts[0]
                stream = io.BytesIO(data + b"TRAILING")
                P = oe.ref(pk).sa_attr("load")(stream)
                end = stream.tell()
                try:
                    got = P.sa_attr("dumps")()
                except PyRaise as pe:
                    out.append(("raises", "dumps:" + pe.name))  # parsed, but the untouched result does not re-serialise
                    continue
                # the other serialiser: dump(file) writes the same bytes
                sink = io.BytesIO()
                try:
                    P.sa_attr("dump")(sink)
                    if sink.getvalue() != got:
                        got = sink.getvalue() if got == data else got  # report the one that deviates from the input
                except PyRaise as pe:
                    out.append(("raises", "dump:" + pe.name))
                    continue
                again = oe.ref(pk).sa_attr("load")(data).sa_attr("dumps")()  # from a byte string
                # a seekable stream that is not a BytesIO (what an opened file is): same bytes out, stream left at the end
                fstream = io.BufferedReader(io.BytesIO(data + b"\nTRAILING"))  # what follows may start with any byte: here a newline
                fgot = oe.ref(pk).sa_attr("load")(fstream).sa_attr("dumps")()
                fend = fstream.tell()
                out.append(("ok", got, end, again, fgot, fend))
            elif kind == "position":
                # a stream entered at a non-zero offset holding two pickles back to back and a trailer; two consecutive loads
                skind, a, b = parts
                whole = b"HEADER" + a + b + b"TRAILING"
                stream = _make_stream(skind, whole)
                stream.read(6)
                P1 = oe.ref(pk).sa_attr("load")(stream)
                e1 = stream.tell()
                g1 = P1.sa_attr("dumps")()  # re-serialising between two loads moves nothing
                P2 = oe.ref(pk).sa_attr("load")(stream)
                e2 = stream.tell()
                rest = stream.read()
                g1b = P1.sa_attr("dumps")()
                out.append(("ok", g1 if g1 == g1b else g1b, e1, P2.sa_attr("dumps")(), e2, rest))
            elif kind == "stack-tail":
                # complete pickles followed by bytes that are not one: a stack parse that returns normally has consumed exactly
                # the pickles it returns (raising is the other legitimate outcome)
                whole = b"".join(parts)
                stream = io.BytesIO(whole)
                S = oe.ref(sp).sa_attr("load")(stream)
                elems = [e.sa_attr("dumps")() for e in list(S.sa_attr("pickled"))]
                out.append(("ok", elems, stream.tell(), elems))
            elif kind == "pipe-stack":
                whole = b"".join(parts)
                stream = io.BufferedReader(_Pipe(whole))  # not seekable: a pipe, a socket
                S = oe.ref(sp).sa_attr("load")(stream)
                elems = [e.sa_attr("dumps")() for e in list(S.sa_attr("pickled"))]
                out.append(("ok", elems, 0, elems))
            else:
                whole = b"".join(parts)
                stream = io.BytesIO(whole)
                S = oe.ref(sp).sa_attr("load")(stream)
                elems = [e.sa_attr("dumps")() for e in list(S.sa_attr("pickled"))]
                S2 = oe.ref(sp).sa_attr("load")(whole)  # the same stack handed over as a byte string
                elems2 = [e.sa_attr("dumps")() for e in list(S2.sa_attr("pickled"))]
                out.append(("ok", elems, stream.tell(), elems2))
        except PyRaise as pe:
            out.append(("raises", pe.name))
        except Unsupported as e:
            out.append(("unsupported", str(e)))
    return out


def _first_diff_opcode(data: bytes, got: bytes) -> str:
    import io
    import pickletools

    i = next((k for k in range(min(len(data), len(got))) if data[k] != got[k]), min(len(data), len(got)))
    name = "?"
    try:
        for info, _a, pos in pickletools.genops(io.BytesIO(data)):
            if pos is not None and pos <= i:
                name = info.name
            else:
                break
    except Exception:
        pass
    return name


def check_round_trip(repo: Repo, rep: Report, tier: str):
    import multiprocessing as mp
    from concurrent.futures import ProcessPoolExecutor

    global _RT_REPO
    rule = "C06.round-trip"
    pk = repo.cls("fickling.fickle.Pickled")
    corpus = _corpus(tier)
    items = [("single", label, [data]) for label, data in corpus]
    _RT_REPO = repo
    jobs = min(int(os.environ.get("SA_JOBS", "16")), os.cpu_count() or 1)
    chunks = [items[i::jobs] for i in range(jobs)]
    from pathlib import Path

    from ..cache import cached, digest

    def enc(parts_):
        return [[[("b:" + x.hex()) if isinstance(x, bytes) else [("b:" + y.hex()) if isinstance(y, bytes) else y for y in x] if isinstance(x, list) else x for x in o] for o in outs] for outs in parts_]

    def dec(parts_):
        def d(x):
            if isinstance(x, str) and x.startswith("b:"):
                return bytes.fromhex(x[2:])
            if isinstance(x, list):
                return [d(y) for y in x]
            return x
        return [[tuple(d(x) for x in o) for o in outs] for outs in parts_]

    def run_chunks(chs):
        try:
            with ProcessPoolExecutor(max_workers=jobs, mp_context=mp.get_context("fork")) as ex:
                return list(ex.map(_rt_chunk, chs))
        except (OSError, RuntimeError):
            return [_rt_chunk(c) for c in chs]

    ckey = digest(repo, ["fickling.fickle"], f"{tier}|{jobs}", [Path(__file__)])
    parts = dec(cached("c06rt-singles-" + ckey, lambda: enc(run_chunks(chunks))))
    bad: Dict[str, Tuple[int, str]] = {}

    def note(key, msg):
        c, m = bad.get(key, (0, msg))
        bad[key] = (c + 1, m)

    parsed = []
    n_ok = n_refused = 0
    for chunk, outs in zip(chunks, parts):
        for (kind, label, ps), o in zip(chunk, outs):
            data = ps[0]
            if o[0] == "unsupported":
                raise AnalysisError(f"C06.round-trip: cannot interpret Pickled.load/dumps over {label}: {o[1]}")
            if o[0] == "raises":
                if o[1] == "NotImplementedError":
                    n_refused += 1  # an opcode fickling does not implement: refused as a whole (C03.refuse), nothing re-serialised
                elif o[1].startswith(("dumps:", "dump:")):
                    which, exc = o[1].split(":", 1)
                    note(f"untouched-parse-does-not-serialise:{exc}", f"Pickled.load accepts {label} ({data[:24]!r}...) but {which}() of the untouched result raises {exc}")
                else:
                    note(f"valid-pickle-refused:{o[1]}", f"Pickled.load raises {o[1]} on {label} ({data[:24]!r}...), a stream CPython's own reader accepts and every opcode of which fickling implements")
                continue
            _, got, end, again, fgot, fend = o
            if got == data and again == data and end == len(data) and (fgot != data or fend != len(data)):
                note("file-like-stream", f"from a seekable stream that is not a BytesIO (an opened file), Pickled.load {'re-serialises differently' if fgot != data else f'leaves the stream at offset {fend} instead of the end of the pickle ({len(data)}): what follows the pickle in the caller' + chr(39) + 's file is consumed'} for {label}")
            if got != data:
                note(f"not-byte-exact:{_first_diff_opcode(data, got)}", f"Pickled.load(<stream>).dumps() differs from the input for {label}: first difference in opcode {_first_diff_opcode(data, got)} (input {data[:32]!r}..., output {got[:32]!r}...)")
            elif again != data:
                note(f"not-byte-exact-from-bytes:{_first_diff_opcode(data, again)}", f"Pickled.load(<bytes>).dumps() differs from the input for {label} (first difference in opcode {_first_diff_opcode(data, again)})")
            elif end != len(data):
                note("end-position", f"after Pickled.load the stream is at offset {end}, not at the end of the pickle ({len(data)}), for {label}")
            else:
                n_ok += 1
                parsed.append((label, data))
    # stacked pickles: consecutive members of the corpus concatenated three at a time (and one long stack)
    stacks = [parsed[i:i + 3] for i in range(0, len(parsed) - 2, 3)]
    if parsed:
        stacks.append(parsed[: min(len(parsed), 40)])
    sitems = [("stack", " + ".join(l for l, _ in st)[:160], [d for _, d in st]) for st in stacks]
    schunks = [sitems[i::jobs] for i in range(jobs)]
    sparts = dec(cached("c06rt-stacks-" + ckey, lambda: enc(run_chunks(schunks))))
    n_stacks = 0
    for chunk, outs in zip(schunks, sparts):
        for (kind, label, ps), o in zip(chunk, outs):
            if o[0] == "unsupported":
                raise AnalysisError(f"C06.round-trip: cannot interpret StackedPickle.load over {label}: {o[1]}")
            if o[0] == "raises":
                note(f"stack-refused:{o[1]}", f"StackedPickle.load raises {o[1]} on the concatenation of {len(ps)} pickles each of which parses alone ({label})")
                continue
            _, elems, end, elems2 = o
            if elems == ps and elems2 != ps:
                note("stack-partition-from-bytes", f"StackedPickle.load(<bytes>) of {len(ps)} concatenated pickles yields {len(elems2)} element(s) that are not the members ({label}), although the same stack read from a stream partitions correctly")
            if elems != ps:
                k = next((i for i, (a, b) in enumerate(zip(elems, ps)) if a != b), min(len(elems), len(ps)))
                note("stack-partition", f"StackedPickle.load of {len(ps)} concatenated pickles yields {len(elems)} element(s); element #{k} is not the bytes of pickle #{k} ({label})")
            elif end != sum(len(p_) for p_ in ps):
                note("stack-end-position", f"after StackedPickle.load the stream is at offset {end} of {sum(len(p_) for p_ in ps)} ({label})")
            else:
                n_stacks += 1
    # streams of every kind entered at a non-zero offset, two consecutive loads
    sel = parsed[:: max(1, len(parsed) // (12 if tier == "thorough" else 5))]
    huge = [x for x in parsed if x[0].startswith("BINBYTES of 1.2 MiB")]
    if huge and huge[0] not in sel:
        sel = sel + huge
    pitems = [("position", f"{sk}: HEADER + {a[0]} + {b[0]} + TRAILING", [sk, a[1], b[1]]) for sk in STREAM_KINDS for a, b in zip(sel, sel[1:] + sel[:1])]
    tails = [("a call of os.system cut off before STOP", b"cos\nsystem\n(S'id'\ntR"), ("a complete-looking pickle that ends in an unassigned opcode byte", b"cos\nsystem\n(S'id'\ntR\xff."), ("text that is not a pickle", b"GARBAGE\x00\x01")]
    pitems += [("stack-tail", f"{a[0]} + {tl}", [a[1], tb]) for a in sel[:3] for tl, tb in tails]
    pitems += [("pipe-stack", "a non-seekable stream: " + " + ".join(l for l, _ in st)[:140], [d for _, d in st]) for st in stacks[:: max(1, len(stacks) // 6)]]
    pchunks = [pitems[i::jobs] for i in range(jobs)]
    pparts = dec(cached("c06rt-positions-" + ckey, lambda: enc(run_chunks(pchunks))))
    n_pos = 0
    for chunk, outs in zip(pchunks, pparts):
        for (kind, label, ps), o in zip(chunk, outs):
            sk = ps[0].split(" ")[0] if kind == "position" else "non-seekable"
            if kind == "stack-tail" and o[0] == "raises":
                n_pos += 1  # refusing the file is the other legitimate outcome
                continue
            if o[0] == "unsupported":
                raise AnalysisError(f"C06.round-trip: cannot interpret two consecutive loads over {label}: {o[1]}")
            if o[0] == "raises":
                note(f"positioned-stream-refused:{sk}:{o[1]}" if kind == "position" else f"stack-refused:non-seekable:{o[1]}", f"{'Pickled.load' if kind == 'position' else 'StackedPickle.load'} raises {o[1]} on {label}")
                continue
            if kind == "stack-tail":
                elems, end = o[1], o[2]
                good = ps[:-1]
                if elems != good[: len(elems)] or end != sum(len(x) for x in elems):
                    note("stack-consumes-beyond-its-elements", f"StackedPickle.load over {label} returns {len(elems)} element(s) totalling {sum(len(x) for x in elems)} bytes but leaves the stream at offset {end}: what follows the pickles it returned was consumed and dropped (a reader of the same file goes on to execute it)")
                else:
                    n_pos += 1
                continue
            if kind == "pipe-stack":
                if o[1] != ps:
                    note("stack-partition:non-seekable", f"StackedPickle.load over {label} ({len(ps)} pickles) yields {len(o[1])} element(s) that are not the members")
                else:
                    n_pos += 1
                continue
            _, g1, e1, g2, e2, rest = o
            a, b = ps[1], ps[2]
            if g1 != a or e1 != 6 + len(a):
                note(f"positioned-stream:{sk}:first-load", f"{label}: the first load re-serialises {'differently' if g1 != a else 'correctly'} and leaves the stream at offset {e1}; the pickle ends at {6 + len(a)}")
            elif g2 != b or e2 != 6 + len(a) + len(b):
                note(f"positioned-stream:{sk}:second-load", f"{label}: the second load {'does not return the second pickle' if g2 != b else 'returns the second pickle'} and leaves the stream at offset {e2}; the pickle ends at {6 + len(a) + len(b)}")
            elif rest != b"TRAILING":
                note(f"positioned-stream:{sk}:trailer", f"{label}: after both loads {rest[:20]!r} is left to read instead of the trailer")
            else:
                n_pos += 1
    for key, (c, m) in sorted(bad.items()):
        rep.bad(rule, pk.qualname + ".load", key, f"{m} [{c} input(s)]", pk.module.relpath, pk.method("load").line)
    rep.ok(rule, pk.qualname + ".load", f"{n_pos} positioned streams (four stream kinds entered after a header, two consecutive loads, trailer intact); {len(corpus)} byte strings (CPython's pickler output for sample values at protocols 0-5, and hand-assembled non-canonical spellings of every argument reader): {n_ok} re-serialise byte-exactly from a stream and from bytes with the stream left at the end of the pickle, {n_refused} contain an unimplemented opcode and are refused whole; {n_stacks} concatenations partition into exactly their members", "", nontrivial=True)
