"""C07 -- the safe ML environment mediates every global, including in nested unpicklings.

* C07.find_class    in FicklingMLUnpickler.find_class every path to the resolving call is dominated by the
                    refusing branches of `module not in allowlist` and `name not in allowlist[module]`, tested
                    on the very (module, name) that is then resolved; no other method resolves globals.
* C07.closures      the functions installed on pickle/_pickle construct that unpickler with the activation's
                    additions and return its load() on every path; no bypass, no fallback to the originals.
* C07.entry-points  every public way of starting an unpickling through the pickle module (load, loads and the
                    Unpickler class) is rebound; which attributes allow-listed loader callables actually use
                    is read from torch's source when installed (witness for why it matters).
"""

from __future__ import annotations

import ast
import importlib.util
from pathlib import Path
from typing import List, Optional, Set

from ..cfg import CFG
from ..model import FuncInfo, Repo, dotted, load_repo
from ..report import AnalysisError, Report
from ..util import body_walk, cmp_normal, src
from .c12 import binding_stores

UNPICKLER = "fickling.ml.FicklingMLUnpickler"


def check_find_class(repo: Repo, rep: Report):
    c = repo.cls(UNPICKLER)
    fc = c.method("find_class")
    if fc is None:
        rep.bad("C07.find_class", c.qualname, "no-find_class", "FicklingMLUnpickler does not override find_class: nothing is mediated", c.module.relpath, c.node.lineno)
        return
    params = fc.params()
    if len(params) < 3:
        raise AnalysisError("find_class signature not (self, module, name)")
    mod_p, name_p = params[1], params[2]
    g = CFG(fc.node)
    dom = g.dominators()
    # resolving operations: super().find_class, getattr, __import__, importlib, sys.modules
    resolvers = []
    for n in body_walk(fc.node):
        if isinstance(n, ast.Call):
            d = dotted(n.func) or ""
            if isinstance(n.func, ast.Attribute) and n.func.attr == "find_class":
                resolvers.append(n)
            elif d in ("getattr", "__import__", "importlib.import_module", "pickle.Unpickler.find_class", "pickle._Unpickler.find_class", "pkgutil.resolve_name", "operator.attrgetter") or d.startswith("importlib."):
                resolvers.append(n)
        if isinstance(n, ast.Subscript) and dotted(n.value) == "sys.modules":
            resolvers.append(n)
    if not resolvers:
        raise AnalysisError("find_class: no resolving call found")
    # the two refusing tests
    tests = {}
    for t in g.find(lambda n: n.kind == "test"):
        cn = cmp_normal(t.ast)
        if not cn:
            continue
        l, op, r = cn
        if op in ("not in", "in") and dotted(l) == mod_p and dotted(r) == "self.allowlist":
            tests["module"] = (t, op)
        if op in ("not in", "in") and dotted(l) == name_p and isinstance(r, ast.Subscript) and dotted(r.value) == "self.allowlist" and dotted(r.slice) == mod_p:
            tests["name"] = (t, op)
    for which, subject in (("module", f"{mod_p} in self.allowlist"), ("name", f"{name_p} in self.allowlist[{mod_p}]")):
        if which not in tests:
            rep.bad("C07.find_class", fc.qualname, f"no-{which}-test", f"find_class has no membership test `{subject}` on the unmodified parameter: the {which} that is resolved is not the one that is checked", fc.file, fc.line)
    if len(tests) < 2:
        return
    # the parameters are not rebound before the tests / the resolver
    rebinds = [n for n in body_walk(fc.node) if isinstance(n, (ast.Assign, ast.AugAssign)) and any(isinstance(x, ast.Name) and x.id in (mod_p, name_p) and isinstance(x.ctx, ast.Store) for x in ast.walk(n))]
    if rebinds:
        rep.bad("C07.find_class", fc.qualname, "parameter-rebound", f"`{src(rebinds[0])}` rebinds a find_class parameter: the global checked and the global resolved can differ", fc.file, rebinds[0].lineno)
    allow_edges = []
    for which, (t, op) in tests.items():
        allow_val = op == "in"
        allow = next(n for n in g.nodes if n.kind == "branch" and n.test == t.id and n.value is allow_val)
        deny = next(n for n in g.nodes if n.kind == "branch" and n.test == t.id and n.value is (not allow_val))
        allow_edges.append((which, allow))
        # deny edge: only raise UnsafeFileError
        seen, todo, normal = set(), [deny.id], False
        while todo:
            x = todo.pop()
            if x in seen:
                continue
            seen.add(x)
            if x == g.exit:
                normal = True
            todo.extend(m for m, _ in g.succ[x])
        raises = [g.nodes[x] for x in seen if g.nodes[x].kind == "stmt" and isinstance(g.nodes[x].ast, ast.Raise)]
        ok_raise = raises and all(isinstance(r.ast.exc, ast.Call) and (dotted(r.ast.exc.func) or "").endswith("UnsafeFileError") for r in raises)
        if normal or not ok_raise:
            rep.bad("C07.find_class", fc.qualname, f"refusal-not-raising:{which}", f"when the {which} is not allow-listed, find_class can continue instead of raising UnsafeFileError", fc.file, t.line)
        else:
            rep.ok("C07.find_class", fc.qualname, f"`{src(t.ast)}` refuses with UnsafeFileError", f"{fc.file}:{t.line}")
    sinks = [(g.node_of(r), f"resolver `{src(r)}`") for r in resolvers]
    for rn in g.stmt_nodes(ast.Return):
        sinks.append((rn, f"`{src(rn.ast)}`"))
    for node, what in sinks:
        if node is None:
            continue
        missing = [which for which, allow in allow_edges if allow.id not in dom[node.id]]
        if missing:
            rep.bad("C07.find_class", fc.qualname, "undominated:" + ("resolver" if "resolver" in what else "return"), f"{what} at line {node.line} is reachable without passing the allowlist test(s) on {missing}: a global outside the allowlist can be resolved", fc.file, node.line)
        else:
            rep.ok("C07.find_class", fc.qualname, f"{what} dominated by both allowlist tests", f"{fc.file}:{node.line}")
    for r in resolvers:
        if isinstance(r, ast.Call) and isinstance(r.func, ast.Attribute) and r.func.attr == "find_class":
            args = [dotted(a) for a in r.args]
            if args != [mod_p, name_p]:
                rep.bad("C07.find_class", fc.qualname, "resolves-other-global", f"`{src(r)}` resolves {args}, not the checked ({mod_p}, {name_p})", fc.file, r.lineno)
    # no other resolving method
    for name, fs in c.methods.items():
        for f in fs:
            if name in ("__init__", "find_class"):
                continue
            if name in ("load", "persistent_load", "get_extension", "load_global", "load_stack_global", "load_inst", "load_reduce", "__getattribute__", "__getattr__"):
                rep.bad("C07.find_class", f.qualname, f"overrides:{name}", f"FicklingMLUnpickler overrides `{name}`, a route by which globals can be resolved or loading diverted around find_class", f.file, f.line)
    bases = c.bases
    if not any(b in ("pickle.Unpickler", "_pickle.Unpickler", "pickle._Unpickler") for b in bases):
        rep.bad("C07.find_class", c.qualname, "not-an-unpickler", f"FicklingMLUnpickler derives from {bases}, not from pickle.Unpickler", c.module.relpath, c.node.lineno)
    # the allowlist consulted is the per-instance table built from ML_ALLOWLIST + additions (C11)
    rep.ok("C07.find_class", c.qualname, f"methods: {sorted(c.methods)}; base {bases}", f"{c.module.relpath}:{c.node.lineno}")


def check_closures(repo: Repo, rep: Report):
    act = repo.func("fickling.hook.activate_safe_ml_environment")
    nested = {f.name: f for f in repo.nested_of(act)}
    stores = binding_stores(act)
    if not stores:
        rep.bad("C07.closures", act.qualname, "installs-nothing", "activate_safe_ml_environment rebinds nothing", act.file, act.line)
        return
    g = CFG(act.node)
    for b, v, st in stores:
        f = nested.get(dotted(v) or "")
        if f is None:
            rep.bad("C07.closures", act.qualname, f"not-a-closure:{b}", f"`{src(st)}` does not install a function defined by this activation", act.file, st.lineno)
            continue
        if not g.always_passes(st):
            rep.bad("C07.closures", act.qualname, f"conditional-install:{b}", f"`{src(st)}` is not executed on every path", act.file, st.lineno)
    for f in nested.values():
        if not any(dotted(v) == f.name for _, v, _ in stores):
            continue
        ps = f.params()
        data = ps[0] if ps else None
        ctor = [n for n in body_walk(f.node) if isinstance(n, ast.Call) and (repo.resolve_expr(f.module, n.func, set(ps)) or "") == UNPICKLER]
        rets = [n for n in body_walk(f.node) if isinstance(n, ast.Return)]
        problems = []
        if not rets:
            problems.append("returns nothing")
        for r in rets:
            v = r.value
            if not (isinstance(v, ast.Call) and isinstance(v.func, ast.Attribute) and v.func.attr == "load" and any(c is v.func.value for c in ctor)):
                problems.append(f"`{src(r)}` is not FicklingMLUnpickler(...).load()")
        for c in ctor:
            a0 = c.args[0] if c.args else None
            inner = a0.args[0] if isinstance(a0, ast.Call) and (dotted(a0.func) or "").endswith("BytesIO") and a0.args else a0
            if not (isinstance(inner, ast.Name) and inner.id == data):
                problems.append(f"unpickler is built over `{src(a0) if a0 is not None else None}`, not over the caller's data")
        # any other consumer of the data / any original loader
        for n in body_walk(f.node):
            if isinstance(n, ast.Call) and n not in ctor:
                d = repo.resolve_expr(f.module, n.func, set(ps)) or dotted(n.func) or ""
                uses_data = any(isinstance(x, ast.Name) and x.id == data for a in list(n.args) + [k.value for k in n.keywords] for x in ast.walk(a))
                inner_of_ctor = any(n is a or any(n is y for y in ast.walk(a)) for c in ctor for a in c.args)
                is_ret_load = any(isinstance(r.value, ast.Call) and r.value is n for r in rets)
                if d.startswith("fickling.hook._original") or d in ("pickle.load", "pickle.loads", "_pickle.load", "_pickle.loads", "pickle.Unpickler", "_pickle.Unpickler", "pickle._Unpickler", "pickle._load", "pickle._loads"):
                    problems.append(f"calls `{src(n.func)}` (an unmediated unpickler)")
                elif uses_data and not inner_of_ctor and not is_ret_load:
                    problems.append(f"hands the data to `{src(n.func)}` outside the mediating unpickler")
        handlers = [n for n in body_walk(f.node) if isinstance(n, ast.ExceptHandler)]
        if handlers:
            problems.append("has an exception handler (possible fallback)")
        if problems:
            rep.bad("C07.closures", f.qualname, "not-mediating", f"installed hook {f.name}: " + "; ".join(sorted(set(problems))), f.file, f.line)
        else:
            rep.ok("C07.closures", f.qualname, "every return is FicklingMLUnpickler(<data>, also_allow=...).load(); the data goes nowhere else", f"{f.file}:{f.line}")


def torch_pickle_module_uses() -> Optional[Set[str]]:
    """Attributes of the `pickle_module` parameter that torch's load path reads (from source, never imported)."""
    try:
        spec = importlib.util.find_spec("torch")
    except Exception:
        spec = None
    if spec is None or not spec.submodule_search_locations:
        return None
    p = Path(list(spec.submodule_search_locations)[0]) / "serialization.py"
    if not p.exists():
        return None
    tree = ast.parse(p.read_text())
    uses: Set[str] = set()
    load_funcs = {"load", "_load", "_legacy_load"}
    for fn in ast.walk(tree):
        if isinstance(fn, ast.FunctionDef) and fn.name in load_funcs:
            for n in ast.walk(fn):
                if isinstance(n, ast.Attribute) and isinstance(n.value, ast.Name) and n.value.id == "pickle_module":
                    uses.add(n.attr)
    return uses


def check_entry_points(repo: Repo, rep: Report, tier: str):
    act = repo.func("fickling.hook.activate_safe_ml_environment")
    rebound = {b for b, _, _ in binding_stores(act)}
    required = ["load", "loads", "Unpickler"]
    uses = torch_pickle_module_uses()
    ml = repo.module("fickling.ml")
    table = ml.assigns.get("ML_ALLOWLIST", [None])[0]
    nested_loader = False
    if isinstance(table, ast.Dict):
        for k, v in zip(table.keys, table.values):
            if isinstance(k, ast.Constant) and k.value == "torch.storage" and isinstance(v, ast.Dict):
                nested_loader = any(isinstance(kk, ast.Constant) and kk.value == "_load_from_bytes" for kk in v.keys)
    witness = ""
    if uses is not None:
        witness = f" (torch/serialization.py's load path reads pickle_module.{sorted(uses & {'load', 'loads', 'Unpickler'})}; torch.storage._load_from_bytes {'is' if nested_loader else 'is not'} allow-listed)"
        rep.units["torch_pickle_module_attrs_on_load_path"] = sorted(uses)
    else:
        rep.info("torch source not found: nested-unpickling witness omitted, generic rule applied")
    for mod in ("pickle", "_pickle"):
        for attr in required:
            b = f"{mod}.{attr}"
            if b in rebound:
                rep.ok("C07.entry-points", act.qualname, f"{b} is rebound to a mediating function", f"{act.file}:{act.line}")
            else:
                rep.bad(
                    "C07.entry-points",
                    act.qualname,
                    f"unmediated:{b}",
                    f"{b} is a public way of starting an unpickling through the pickle module and is not rebound by the safe ML environment: an allow-listed callable that unpickles through it (nested payload) resolves globals with no allowlist{witness}",
                    act.file,
                    act.line,
                )


def check_refusal_inert(repo: Repo, rep: Report):
    """Mediation means the pickle does not get to name what is imported: nothing the mediating unpickler itself reaches - its
    constructor, find_class, the messages it builds when it refuses - may look a module up by a name taken from the pickle
    (importlib.import_module / find_spec import parent packages, __import__, pkgutil, sys.modules probes with __getattr__
    hooks).  The only import is the one `super().find_class` performs for an admitted global."""
    from ..callgraph import CallGraph
    from ..effects import classify_external

    rule = "C07.refusal-inert"
    rep.rule(rule, "nothing reachable from FicklingMLUnpickler (other than super().find_class on an admitted global) touches the import machinery", 1)
    c = repo.cls("fickling.ml.FicklingMLUnpickler")
    roots = [(m, None) for name in ("find_class", "__init__", "persistent_load", "load") for m in [c.method(name)] if m is not None]
    cg = CallGraph(repo)
    reached, parent, sites = cg.reachable(roots)
    n = 0
    IMPORTERS = ("importlib.", "pkgutil.", "imp.", "runpy.", "zipimport.")
    for s_ in sites:
        for q in s_.externals:
            n += 1
            if q.startswith(IMPORTERS) or q in ("builtins.__import__", "importlib", "sys.modules") or (classify_external(q) == "forbidden" and q.split(".")[-1] in ("__import__", "import_module", "find_spec", "find_loader", "load_module", "exec_module", "get_data")):
                rep.bad(rule, s_.func.qualname, f"import-machinery:{q}", f"`{src(s_.node)[:80]}` ({q}) is reachable from the mediating unpickler: looking a module up by a name that comes from the pickle imports its parent package(s) - code named by the pickle runs although the global is refused", s_.func.file, s_.line)
    rep.ok(rule, c.qualname, f"{len(reached)} function(s) reachable from the unpickler's own methods, {n} external call(s) examined: none touches the import machinery", f"{c.module.relpath}:{c.node.lineno}")


def run(rep: Report, tier: str):
    repo = load_repo()
    rep.explanation = (
        "CFG dominance in FicklingMLUnpickler.find_class (resolver dominated by both allowlist tests on the unmodified "
        "parameters), structural check of the installed closures, and completeness of the rebound entry-point set against "
        "the pickle module's public API, with torch's source parsed for which attributes its load path uses."
    )
    rep.rule("C07.sequence-worlds", "every global resolved through the four entry points, at nesting depth 0-3, is in the built-in allowlist or the current additions", 1)
    rep.rule("C07.find_class", "resolver dominated by both allowlist tests on the resolved (module, name); no other resolving method", 5)
    rep.rule("C07.closures", "installed hooks return FicklingMLUnpickler(data, also_allow).load() on every path, nothing else sees the data", 2)
    rep.rule("C07.entry-points", "load, loads and Unpickler of pickle and _pickle are all mediated", 6)
    rep.assume("the C implementation of _pickle.Unpickler dispatches every global lookup (GLOBAL, STACK_GLOBAL, INST, OBJ..., extension codes aside) to the overridden find_class (documented API)")
    check_find_class(repo, rep)
    check_closures(repo, rep)
    check_entry_points(repo, rep, tier)
    check_refusal_inert(repo, rep)
    # the set consulted is exactly built-in + this activation's additions: C11's ownership analysis, re-keyed
    from . import c11 as _c11

    tmp = Report("C11", tier)
    _c11.SKIP_SEQUENCE_WORLDS = True
    _c11.run(tmp, tier)
    rep.rule("C07.allowlist-scope", "the allowlist consulted by find_class is the built-in table plus this activation's additions only (C11's ownership rules)", 3)
    for f in tmp.findings:
        rep.bad("C07.allowlist-scope", f.construct, f"{f.rule}:{f.detail}", "a global can be admitted that is neither built-in nor among the current additions: " + f.message, f.file, f.line)
    for i in tmp.instances:
        if i.ok:
            rep.ok("C07.allowlist-scope", i.construct, i.what, i.where, i.nontrivial)
    # interpreted last: the structural rules above stand on their own if a sequence cannot be interpreted
    from ..envworlds import C07_KEYS, report_sequence_worlds

    report_sequence_worlds(repo, rep, "C07.sequence-worlds", tier, C07_KEYS, nested=True)
