"""C08 -- injection adds exactly one call and preserves the original pickle's behaviour.

The injection helpers are interpreted (sa/minieval.py) over an abstract opcode list
`[PROTO, FRAME, BODY, STOP]` where BODY stands for any base pickle body (net effect [] -> [obj], an unknown
set of memo keys).  Opcode constructors yield tokens; `self.insert` has list.insert semantics.  The
resulting token sequence is then run on a symbolic pickle VM using the *pickletools* stack effects, and the
template obligations are checked for every flag combination (exhaustive over the finite flag space):

* C08.once        exactly one REDUCE applies the injected global to exactly the given arguments (for the
                  function-call helper: exactly one REDUCE applies the defined function to (obj, *constant_args)).
* C08.balanced    at STOP the VM stack is exactly [obj] (keep modes) or [result] (replace modes).
* C08.stop-last   the rewritten pickle ends with its single STOP; helpers refuse a pickle not ending in STOP.
* C08.memo-read   every GET reads a key the template itself wrote (same literal PUT, or the MEMOIZE key derived from
                  a symbolic run of the base made *before* MEMOIZE was inserted).
* C08.prefix      the prefix cursor skips exactly the leading PROTO/FRAME opcodes and advances by what it inserted.
"""

from __future__ import annotations

import ast
import itertools
import pickletools
from typing import Any, Dict, List, Optional, Tuple

from ..minieval import _MISSING, Evaluator, PyRaise, Record, Unsupported
from ..model import ClassInfo, FuncInfo, Repo, dotted, load_repo, opcode_registry
from ..report import AnalysisError, Report
from ..util import body_walk, src

P = "fickling.fickle.Pickled"


_PT = {o.name: o for o in pickletools.opcodes}


class Tok:
    def __init__(self, op: str, arg: Any = None, cls: str = "", proto: Optional[int] = None):
        self.op, self.arg, self.cls = op, arg, cls
        self.proto = proto if proto is not None else (_PT[op].proto if op in _PT else None)

    const_proto_assumed = 1
    const_proto_read = False
    harness = None

    def sa_type(self):
        if not self.cls or self.op in ("BODY", "CONST"):
            raise Unsupported(f"type() of the abstract opcode {self.op}")
        return OpCtor.of(self.cls, self.op)

    def sa_attr(self, name: str):
        """what the helpers may read off an opcode object: .arg, .name, .info.{proto,name}"""
        if name == "arg":
            return self.arg
        if name == "name":
            if self.op in ("BODY", "CONST"):
                raise Unsupported(f"name of the abstract opcode {self.op}")
            return self.op
        if name == "info":
            if self.proto is None and self.op == "CONST":
                # the opcode ConstantOpcode.new picks depends on the value: its protocol is a case assumption; the
                # driver re-runs the case under the other assumption when it was consulted
                Tok.const_proto_read = True
                return Record("OpcodeInfo", {"proto": Tok.const_proto_assumed, "name": "<constant>"})
            if self.proto is None:
                raise Unsupported(f"protocol of the abstract opcode {self.op}")
            return Record("OpcodeInfo", {"proto": self.proto, "name": self.op})
        # any other attribute: a property of the opcode's own class, interpreted on an instance built from this token
        h = Tok.harness
        if h is not None and self.cls and self.op not in ("BODY", "CONST"):
            c = h.repo.classes.get(f"fickling.fickle.{self.cls}")
            if c is not None and h.repo.find_method(c, name, "property") is not None:
                return h.objeval().ref(c)(self.arg).sa_attr(name)
        raise Unsupported(f"attribute .{name} of an opcode")

    def __repr__(self):
        return self.op if self.arg is None else f"{self.op}({self.arg!r})"


class OpCtor:
    """An opcode class as a value (looked up in a table, compared with `is`, returned by type(opcode))."""

    _cache: Dict[str, "OpCtor"] = {}

    def __init__(self, cname: str, opname: str):
        self.cname, self.opname = cname, opname

    @classmethod
    def of(cls, cname: str, opname: str) -> "OpCtor":
        if cname not in cls._cache:
            cls._cache[cname] = OpCtor(cname, opname)
        return cls._cache[cname]

    def sa_call(self, args, kw):
        if self.cname == "Global":
            return Tok("GLOBAL", tuple(args), self.cname)
        return Tok(self.opname, args[0] if args else None, self.cname)

    def __repr__(self):
        return f"<class {self.cname}>"


class MemoLen:
    """`len(interpreter.memory)` after a symbolic run of the list as it was at `snapshot`.  Symbolic as a memo key;
    comparisons with integers (opcode-width selection) use the case's assumed magnitude."""

    magnitude = 3  # set per case by the driver

    def __init__(self, snapshot: Tuple[str, ...]):
        self.snapshot = snapshot
        self.magnitude = MemoLen.magnitude

    def _cmp(self, other, op):
        if isinstance(other, bool) or not isinstance(other, int):
            return NotImplemented
        return op(self.magnitude, other)

    def __lt__(self, o):
        return self._cmp(o, lambda a, b: a < b)

    def __le__(self, o):
        return self._cmp(o, lambda a, b: a <= b)

    def __gt__(self, o):
        return self._cmp(o, lambda a, b: a > b)

    def __ge__(self, o):
        return self._cmp(o, lambda a, b: a >= b)

    __hash__ = object.__hash__

    def __repr__(self):
        return "len(memo after base)"


class Harness:
    def __init__(self, repo: Repo):
        self.repo = repo
        self.pk = repo.cls(P)
        ops, _ = opcode_registry(repo)
        self.opname = {oc.cls.name: oc.opname for oc in ops}
        self.by_name = {o.name: o for o in pickletools.opcodes}
        co = repo.cls("fickling.fickle.ConstantOpcode")
        self.const_classes = {c.name for c in repo.subclasses(co, strict=True)}
        self.const_opnames = {self.opname[c] for c in self.const_classes if c in self.opname}
        Tok.harness = self

    def objeval(self):
        if getattr(self, "_oe", None) is None:
            from .c15 import make_objeval

            self._oe = make_objeval(self.repo)
        return self._oe

    # ---- abstract Pickled object
    def new_self(self, tokens: List[Tok]) -> Record:
        rec = Record("Pickled", {"tokens": tokens, "_opcodes": tokens})
        rec.fields["__getitem__"] = lambda i: self._getitem(tokens, i)
        rec.fields["__getattr__"] = lambda name: self.get_property(rec, name)
        rec.fields["__len__"] = lambda: len(tokens)
        rec.fields["__iter__"] = lambda: list(tokens)

        def delitem(i):
            try:
                tok = tokens[i]
                del tokens[i]
            except (IndexError, TypeError):
                raise PyRaise("IndexError")
            rec.fields.setdefault("log", []).append(("del", i, getattr(tok, "op", None)))

        rec.fields["__delitem__"] = delitem
        return rec

    @staticmethod
    def _getitem(tokens, i):
        try:
            return tokens[i]
        except IndexError:
            raise PyRaise("IndexError")

    def get_property(self, selfrec: Record, name: str):
        """A property of Pickled that the abstract object does not model natively: interpret the repository's getter."""
        f = self.repo.find_method(self.pk, name, "property")
        if f is None:
            found = self.repo.find_attr(self.pk, name)
            if found is not None:
                try:
                    return ast.literal_eval(found[1])  # a class-level constant
                except (ValueError, SyntaxError):
                    pass
            raise Unsupported(f"attribute .{name} of the abstract Pickled")
        return self.evaluator({f.params()[0]: selfrec}, 1).run_body(f.node.body)

    def call_method(self, selfrec: Record, name: str, args: list, kw: dict, depth: int = 0):
        if depth > 12:
            raise Unsupported("helper recursion too deep")
        tokens = selfrec.fields["tokens"]
        if name == "insert":
            idx, tok = args
            if not isinstance(idx, int) or not isinstance(tok, Tok):
                raise Unsupported(f"insert({idx!r}, {tok!r})")
            tokens.insert(idx, tok)
            selfrec.fields.setdefault("log", []).append((idx, tok.op))
            return None
        found = self.pk.attrs.get(name)
        f = self.repo.find_method(self.pk, dotted(found) if found is not None and dotted(found) else name)
        if f is None:
            raise Unsupported(f"Pickled.{name} not found")
        env = self.bind(f, [selfrec] + list(args), kw)
        ev = self.evaluator(env, depth + 1)
        return ev.run_body(f.node.body)

    @staticmethod
    def bind(f: FuncInfo, args: list, kw: dict) -> dict:
        a = f.node.args
        names = [x.arg for x in a.posonlyargs + a.args]
        env = {}
        pos = list(args)
        for n in names:
            if pos:
                env[n] = pos.pop(0)
        if a.vararg:
            env[a.vararg.arg] = tuple(pos)
            pos = []
        if pos:
            raise PyRaise("TypeError")
        defaults = dict(zip(names[len(names) - len(a.defaults):], a.defaults))
        for n in names:
            if n not in env:
                if n in kw:
                    env[n] = kw.pop(n)
                elif n in defaults:
                    env[n] = ast.literal_eval(defaults[n])
                else:
                    raise PyRaise("TypeError")
        for k, d in zip(a.kwonlyargs, a.kw_defaults):
            if k.arg in kw:
                env[k.arg] = kw.pop(k.arg)
            elif d is not None:
                env[k.arg] = ast.literal_eval(d)
            else:
                raise PyRaise("TypeError")
        if kw:
            raise PyRaise("TypeError")
        return env

    def evaluator(self, env: dict, depth: int = 0) -> Evaluator:
        h = self

        def inst(v, cls):
            names = [c.strip() for c in cls.strip("()").split(",") if c.strip()]
            if isinstance(v, Tok):
                return any(h.opname.get(n.split(".")[-1]) == v.op or n.split(".")[-1] == v.cls for n in names)
            return None

        def hook(name, args, kw, ev):
            parts = name.split(".")
            last = parts[-1]
            if parts[0] == "self" and len(parts) == 2 and isinstance(ev.env.get("self"), Record):
                return h.call_method(ev.env["self"], last, args, kw, depth)
            if name == "len" and args and isinstance(args[0], Record) and args[0].cls == "Pickled":
                return len(args[0].fields["tokens"])
            if name == "len" and args and isinstance(args[0], MemoryView):
                return MemoLen(args[0].snapshot)
            # opcode constructors
            cname = parts[0] if len(parts) <= 2 else None
            if cname in h.opname and (len(parts) == 1 or last == "create"):
                if cname == "Global":
                    return Tok("GLOBAL", tuple(args), cname)
                if cname in ("Get", "Put", "BinGet", "BinPut", "LongBinGet", "LongBinPut"):
                    return Tok(h.opname[cname], args[0] if args else None, cname)
                return Tok(h.opname[cname], args[0] if args else None, cname)
            if last == "validate" and len(parts) == 2 and parts[0] in h.opname and len(args) == 1:
                # validate returns the value to store (or refuses); which values it refuses is C15's subject
                return args[0]
            if last == "new" and len(parts) == 2 and (parts[0] == "ConstantOpcode" or parts[0] in h.const_classes):
                v = args[0]
                if isinstance(v, (list, dict, tuple, set)) or v is None:
                    raise PyRaise("ValueError")
                # which class wins is decided by the repository's own priority search, interpreted (sa/objeval)
                try:
                    inst = h.objeval().ref(h.repo.cls(f"fickling.fickle.{parts[0]}")).sa_attr("new")(*args, **kw)
                    cn = inst.c.name
                    if cn in h.opname:
                        # the value the opcode DELIVERS (its interpreted encoding read back by pickletools), which is what
                        # the injected call receives; a constant that cannot be serialised keeps the value handed in
                        delivered = v
                        try:
                            from .c15 import _IMPLICIT, _disassemble

                            data = inst.sa_attr("encode")()
                            ops_, _err = _disassemble(data) if isinstance(data, bytes) else (None, None)
                            if ops_ and len(ops_) == 1:
                                delivered = _IMPLICIT.get(ops_[0][0], ops_[0][1])
                        except (PyRaise, Unsupported):
                            pass
                        return Tok(h.opname[cn], delivered, cn)
                except Unsupported:
                    pass
                return Tok("CONST", v, parts[0])
            if name == "Interpreter":
                toks_now = args[0].fields["tokens"]
                snap = tuple(repr(t) for t in toks_now)
                if not any(t.op == "BODY" for t in toks_now):
                    # a concrete base: the memo after a run is known exactly (pickletools semantics of PUT-family / MEMOIZE)
                    mem = concrete_memo(toks_now)
                    r = Record("Interpreter", {"memory": mem, "ran": False})
                    r.fields["()run"] = lambda _r=r: _r.fields.__setitem__("ran", True)
                    return r
                r = Record("Interpreter", {"memory": MemoryView(snap), "ran": False})
                r.fields["()run"] = lambda _r=r: _r.fields.__setitem__("ran", True)
                return r
            if name in ("re.match",):
                m = Record("match", {})
                m.fields["()groups"] = lambda: ("injected_fn",)
                return m
            if name == "compile":
                return Record("code", {})
            if name == "marshal.dumps":
                return b"<marshalled code>"
            return _MISSING

        ev_ = Evaluator(env, isinstance_hook=inst, call_hook=hook)
        ev_.name_hook = lambda nm: OpCtor.of(nm, h.opname[nm]) if nm in h.opname else _MISSING
        return ev_


def concrete_memo(tokens) -> Dict[int, str]:
    """Memo keys -> a label of what was memoised, after running a concrete token list (STOP excluded)."""
    memo: Dict[int, str] = {}
    for i, t in enumerate(tokens):
        if t.op in ("PUT", "BINPUT", "LONG_BINPUT"):
            memo[_intkey(t.arg)] = f"@{i}"
        elif t.op == "MEMOIZE":
            memo[len(memo)] = f"@{i}"
    return memo


class MemoryView:
    def __init__(self, snapshot):
        self.snapshot = snapshot

    def sa_max(self, **kw):
        return MemoSym("max(memo keys)", self.snapshot)

    def sa_min(self, **kw):
        return MemoSym("min(memo keys)", self.snapshot)


class MemoSym:
    """A memo-derived quantity other than len(memo): symbolic, never equal to the key MEMOIZE writes unless the base's
    keys happen to be dense."""

    sa_symbolic = True

    def __init__(self, text, snapshot):
        self.text, self.snapshot = text, snapshot

    def __add__(self, o):
        return MemoSym(f"{self.text} + {o!r}", self.snapshot)

    __radd__ = __add__

    def __sub__(self, o):
        return MemoSym(f"{self.text} - {o!r}", self.snapshot)

    def __repr__(self):
        return self.text


# ------------------------------------------------------------------ symbolic VM over tokens (pickletools effects)
class VMError(Exception):
    pass


CONST_OPNAMES: set = set()


def run_tokens(tokens: List[Tok], by_name) -> Dict[str, Any]:
    stack: List[Any] = []
    memo: Dict[Any, Any] = {}
    reduces: List[Tuple[Any, Any]] = []
    executed: List[str] = []
    mark = object()
    stopped_at = None
    concrete = not any(t.op == "BODY" for t in tokens)
    cmemo: Dict[int, Any] = {}
    for idx, t in enumerate(tokens):
        if stopped_at is not None:
            raise VMError(f"opcode {t} after STOP")
        op = t.op
        if op in ("PROTO", "FRAME"):
            pass
        elif op == "BODY":
            if stack and False:
                pass
            stack.append("obj")
            memo["<body keys>"] = True
        elif op == "GLOBAL":
            stack.append(("global",) + tuple(t.arg))
        elif op == "MARK":
            stack.append(mark)
        elif op in ("CONST", "INT") or op in CONST_OPNAMES:
            stack.append(("const", t.arg if not isinstance(t.arg, bytes) or op in ("CONST",) else t.arg))
        elif op in ("TUPLE", "LIST", "DICT"):
            items = []
            while True:
                if not stack:
                    raise VMError(f"{op}: no MARK on the stack")
                v = stack.pop()
                if v is mark:
                    break
                items.insert(0, v)
            if op == "DICT" and len(items) % 2:
                raise VMError("DICT: odd number of items")
            stack.append((op.lower(),) + tuple(items))
        elif op == "EMPTY_DICT":
            stack.append(("dict",))
        elif op == "EMPTY_LIST":
            stack.append(("list",))
        elif op == "EMPTY_TUPLE":
            stack.append(("tuple",))
        elif op == "NONE":
            stack.append(("const", None))
        elif op in ("NEWTRUE", "NEWFALSE"):
            stack.append(("const", op == "NEWTRUE"))
        elif op == "REDUCE":
            if len(stack) < 2 or stack[-1] is mark or stack[-2] is mark:
                raise VMError("REDUCE: needs callable and argument tuple")
            args = stack.pop()
            fn = stack.pop()
            if not (isinstance(args, tuple) and args and args[0] == "tuple"):
                raise VMError(f"REDUCE: argument is {args!r}, not a tuple")
            reduces.append((fn, args))
            stack.append(("result", len(reduces) - 1))
        elif op == "POP":
            if not stack:
                raise VMError("POP: empty stack")
            if stack[-1] is mark:
                raise VMError("POP: pops a MARK")
            stack.pop()
        elif op in ("PUT", "BINPUT", "LONG_BINPUT"):
            if not stack or stack[-1] is mark:
                raise VMError("PUT: nothing to memoize")
            memo[("lit", _intkey(t.arg))] = stack[-1]
            if concrete and isinstance(_intkey(t.arg), int):
                cmemo[_intkey(t.arg)] = stack[-1]
        elif op == "MEMOIZE":
            if not stack or stack[-1] is mark:
                raise VMError("MEMOIZE: nothing to memoize")
            memo[("len", tuple(executed))] = stack[-1]
            if concrete:
                cmemo[len(cmemo)] = stack[-1]
        elif op in ("GET", "BINGET", "LONG_BINGET"):
            k = t.arg
            if concrete and isinstance(_intkey(k) if isinstance(k, (str, bytes, int)) else None, int):
                # a concrete base: the memo is known exactly; GET delivers what the real VM would deliver
                kk = _intkey(k)
                if kk not in cmemo:
                    raise VMError(f"GET {kk} reads a memo key that is not set at that point (memo keys: {sorted(cmemo)[:8]}...)")
                stack.append(cmemo[kk])
                executed.append(repr(t))
                continue
            if isinstance(k, MemoSym):
                raise VMError(f"GET reads the key `{k.text}` (of a symbolic run of the base); the value was saved by MEMOIZE, which writes at len(memo): the two differ whenever the base pickle's memo keys are not 0..n-1 (assembler programs, Python-2 pickles with BINPUT 1, 2, ...)")
            if isinstance(k, MemoLen):
                snap = [x for x in k.snapshot if x != "STOP"]
                key = ("len", tuple(snap))
                if key not in memo:
                    raise VMError("GET reads the key `len(memo) of a symbolic run of the base`, but no MEMOIZE executes at exactly that point of the rewritten program (the memo index was computed after the list had been modified, or MEMOIZE is not where the run assumed)")
                stack.append(memo[key])
            else:
                key = ("lit", _intkey(k))
                if key not in memo:
                    raise VMError(f"GET {k!r} reads a memo key the template never wrote (it would read whatever the base pickle stored there)")
                stack.append(memo[key])
        elif op in ("APPENDS", "SETITEMS", "ADDITEMS"):
            items = []
            while True:
                if not stack:
                    raise VMError(f"{op}: no MARK on the stack")
                v = stack.pop()
                if v is mark:
                    break
                items.insert(0, v)
            want_kind = {"APPENDS": "list", "SETITEMS": "dict", "ADDITEMS": "set"}[op]
            if not stack or not (isinstance(stack[-1], tuple) and stack[-1] and stack[-1][0] == want_kind):
                raise VMError(f"{op}: the object below the MARK is {stack[-1] if stack else 'missing'!r}, not a {want_kind}")
            if op == "SETITEMS" and len(items) % 2:
                raise VMError("SETITEMS: odd number of items")
            stack[-1] = stack[-1] + tuple(items)
        elif op in ("APPEND", "SETITEM"):
            n_ = 1 if op == "APPEND" else 2
            if len(stack) < n_ + 1 or any(x is mark for x in stack[-n_ - 1:]):
                raise VMError(f"{op}: operands missing")
            items = [stack.pop() for _ in range(n_)][::-1]
            want_kind = "list" if op == "APPEND" else "dict"
            if not (isinstance(stack[-1], tuple) and stack[-1] and stack[-1][0] == want_kind):
                raise VMError(f"{op}: target is {stack[-1]!r}, not a {want_kind}")
            stack[-1] = stack[-1] + tuple(items)
        elif op == "DUP":
            if not stack or stack[-1] is mark:
                raise VMError("DUP: nothing to duplicate")
            stack.append(stack[-1])
        elif op == "POP_MARK":
            while True:
                if not stack:
                    raise VMError("POP_MARK: no MARK on the stack")
                if stack.pop() is mark:
                    break
        elif op == "STOP":
            stopped_at = idx
        else:
            raise Unsupported(f"the rewritten pickle uses opcode {op}, which the template VM does not model")
        executed.append(repr(t))
    if stopped_at is None:
        raise VMError("no STOP")
    return {"stack": stack, "reduces": reduces, "stopped_at": stopped_at}


def _intkey(a):
    if isinstance(a, bytes):
        a = a.decode().strip()
    if isinstance(a, str):
        a = a.strip()
        return int(a) if a.lstrip("-").isdigit() else a
    return a


# ------------------------------------------------------------------ the check
def _memo_entries(kind: str, keys) -> List[Tok]:
    """Net-zero filler that leaves memo entries behind: <const> <put k> POP for each key."""
    cls = {"BINPUT": "BinPut", "LONG_BINPUT": "LongBinPut", "PUT": "Put", "MEMOIZE": "Memoize"}[kind]
    out = []
    for k in keys:
        out += [Tok("BININT1", 7, "BinInt1"), Tok(kind, None if kind == "MEMOIZE" else k, cls), Tok("POP", None, "Pop")]
    return out


# concrete base bodies ([] -> [a list object]) with memo layouts the abstract BODY cannot express: name -> tokens
CONCRETE_BODIES = {
    "no-memo": lambda: [Tok("EMPTY_LIST", None, "EmptyList")],
    "memoize-1": lambda: [Tok("EMPTY_LIST", None, "EmptyList"), Tok("MEMOIZE", None, "Memoize")],
    "binput-0": lambda: [Tok("EMPTY_LIST", None, "EmptyList"), Tok("BINPUT", 0, "BinPut")],
    "binput-sparse-1": lambda: [Tok("EMPTY_LIST", None, "EmptyList"), Tok("BINPUT", 1, "BinPut")],
    "put-out-of-order": lambda: [Tok("EMPTY_LIST", None, "EmptyList"), Tok("BINPUT", 1, "BinPut")] + _memo_entries("BINPUT", [0]),
    "put-then-memoize": lambda: [Tok("EMPTY_LIST", None, "EmptyList"), Tok("BINPUT", 1, "BinPut")] + _memo_entries("MEMOIZE", [None]),
    "text-put-5": lambda: [Tok("EMPTY_LIST", None, "EmptyList"), Tok("PUT", 5, "Put")],
    "long-binput-300-entries": lambda: [Tok("EMPTY_LIST", None, "EmptyList"), Tok("BINPUT", 0, "BinPut")] + _memo_entries("BINPUT", range(1, 256)) + _memo_entries("LONG_BINPUT", range(256, 300)),
    "memoize-300-entries": lambda: [Tok("EMPTY_LIST", None, "EmptyList"), Tok("MEMOIZE", None, "Memoize")] + _memo_entries("MEMOIZE", [None] * 299),
}


def base_tokens(header=("PROTO", "FRAME"), body_proto: int = 4, body: Optional[str] = None) -> List[Tok]:
    mid = CONCRETE_BODIES[body]() if body else [Tok("BODY", proto=body_proto)]
    return [Tok(hh, 4, hh.title()) for hh in header] + mid + [Tok("STOP", None, "Stop")]


def _strict_eq(a, b) -> bool:
    """Equality that tells True from 1 and 0.0 from 0 (what the injected call actually receives)."""
    if type(a) is not type(b):
        return False
    if isinstance(a, (list, tuple)):
        return len(a) == len(b) and all(_strict_eq(x, y) for x, y in zip(a, b))
    if isinstance(a, dict):
        return len(a) == len(b) and all(_strict_eq(k1, k2) and _strict_eq(a[k1], b[k2]) for k1, k2 in zip(a, b))
    return a == b


def _value_of(v):
    if isinstance(v, tuple) and v and v[0] == "const":
        return v[1]
    if isinstance(v, tuple) and v and v[0] == "list":
        return [_value_of(x) for x in v[1:]]
    if isinstance(v, tuple) and v and v[0] == "dict":
        it = [_value_of(x) for x in v[1:]]
        return dict(zip(it[::2], it[1::2]))
    if isinstance(v, tuple) and v and v[0] == "tuple":
        return tuple(_value_of(x) for x in v[1:])
    return v


def run(rep: Report, tier: str):
    repo = load_repo()
    h = Harness(repo)
    CONST_OPNAMES.clear()
    CONST_OPNAMES.update(h.const_opnames)
    # constant classes whose encoder does not round-trip (from C15's live analysis)
    from . import c15 as _c15

    tmp = Report("C15", tier)
    _c15.check_wire_values(repo, tmp, "quick")
    _c15.check_round_trip(repo, tmp, "quick")
    _c15.check_text_escape(repo, tmp)
    bad_encoders = {f.construct.split(".")[-1] for f in tmp.findings if f.rule in ("C15.wire-values", "C15.text-escape")}
    rep.explanation = (
        "Each injection helper of Pickled is interpreted over an abstract opcode list [PROTO, FRAME, BODY, STOP] (BODY = any "
        "base pickle body, [] -> [obj]); the token sequence it produces is run on a symbolic VM with pickletools' stack "
        "effects for every flag combination and several argument shapes. Template discipline only (necessary, not "
        "sufficient): memo-key collisions with sparse base keys, stale FRAME lengths and base pickles that leave garbage on "
        "the stack are not decided."
    )
    rep.exhaustive = True
    rep.rule("C08.once", "exactly one REDUCE applies the injected callable to exactly the given arguments", 16)
    rep.rule("C08.balanced", "stack at STOP is [obj] (keep) / [result] (replace)", 8)
    rep.rule("C08.stop-last", "single trailing STOP; helpers refuse a pickle that does not end in STOP", 5)
    rep.rule("C08.memo-read", "every GET reads a key written by the template itself", 8)
    rep.rule("C08.prefix", "prefix cursor skips exactly leading PROTO/FRAME and advances by what was inserted", 4)
    rep.assume("the base pickle's body nets [] -> [obj] with an empty stack before STOP (what the property presupposes)")
    rep.assume("pickletools stack effects for GLOBAL MARK TUPLE LIST DICT REDUCE POP PUT GET MEMOIZE STOP")

    ARGSETS = [("CODE",), (), ("a", [1, "x"], {"k": 2, "e": {}}), (0, 1, True, False, "retries", [0, True], {"n": 1, "flag": False})]
    # boundary shapes taken from the code itself: an integer constant in the argument encoder (a batch size, a threshold)
    # is a length at which containers start to be handled differently
    consts = set()
    enc = repo.find_method(h.pk, "_encode_python_obj")
    for src_node in ([enc.node] if enc is not None else []) + [v for v in h.pk.attrs.values()]:
        for n_ in ast.walk(src_node):
            if isinstance(n_, ast.Constant) and isinstance(n_.value, int) and not isinstance(n_.value, bool) and 8 <= n_.value <= 5000:
                consts.add(n_.value)
    for c_ in sorted(consts)[:3]:
        ARGSETS.append((list(range(c_ + 1)), {f"k{i}": i for i in range(c_ + 1)}, list(range(2 * c_ + 1))))
    HEADERS = [("PROTO", "FRAME"), ()]
    if tier == "thorough":
        ARGSETS += [(1, 2, 3, 4), ([[["deep"]]],), ({"a": {"b": {"c": [1, {"d": 2}]}}},), ("x" * 300,), (b"bytes", 7)]
        HEADERS += [("PROTO",), ("FRAME",), ("PROTO", "FRAME", "FRAME")]
    cases: List[Tuple[str, str, list, dict, str]] = []  # (helper, label, args, kwargs, mode)
    for rf, uo in itertools.product((True, False), repeat=2):
        for i, a in enumerate(ARGSETS):
            cases.append(("insert_python", f"run_first={rf},replace={uo},args#{i}", list(a), dict(module="builtins", attr="eval", run_first=rf, use_output_as_unpickle_result=uo), "replace" if uo else "keep"))
        cases.append(("insert_python_exec", f"run_first={rf},replace={uo}", ["CODE"], dict(run_first=rf, use_output_as_unpickle_result=uo), "replace" if uo else "keep"))
    for pr in (True, False):
        cases.append(("append_python", f"pop_result={pr}", ["CODE"], dict(module="builtins", attr="eval", pop_result=pr), "keep" if pr else "append-keep-value"))
    cases.append(("append_python", "pop_result=True,two-args", ["a", 2], dict(pop_result=True), "keep"))
    cases.append(("append_python", "pop_result=True,list-arg", [["x", 1]], dict(pop_result=True), "keep"))
    cases.append(("insert_function_call_on_unpickled_object", "constant_args=[[1, 2]]", ["def injected_fn(obj): return obj"], dict(constant_args=[[1, 2]], compile_code=False), "function"))
    for idx in (-1, 0, 1, "before-stop"):
        cases.append(("insert_magic_int", f"index={idx}", [1234, idx], {}, "magic"))
    for cc in (False, True):
        for ca in (None, [7, "s"]):
            cases.append(("insert_function_call_on_unpickled_object", f"compile_code={cc},constant_args={ca}", ["def injected_fn(obj): return obj"], dict(constant_args=ca, compile_code=cc), "function"))

    n_eval = 0
    # the base's own protocol (what a helper may look at to choose opcodes) and the size of its memo (what selects the
    # width of a GET) are further finite case dimensions
    WORLDS = [(hd, 4, 3) for hd in HEADERS] + [((), 0, 3), (("PROTO", "FRAME"), 4, 300)]
    if tier == "thorough":
        WORLDS += [((), 0, 300), (("PROTO", "FRAME"), 4, 70000), ((), 4, 70000), (("PROTO",), 2, 300)]
    base_cases = cases
    cases = [(hp, lb, a, k, m, hd, bp, mg, 1, None) for (hp, lb, a, k, m) in base_cases for (hd, bp, mg) in WORLDS]
    # concrete bases: memo layouts the abstract BODY cannot express (sparse keys, keys written out of order, PUT and MEMOIZE
    # mixed, more than 255 entries).  Argument shape #0 only: the memo interplay does not depend on the arguments.
    bodies = list(CONCRETE_BODIES) if tier == "thorough" else [b for b in CONCRETE_BODIES if b != "memoize-300-entries"]
    for (hp, lb, a, k, m) in base_cases:
        if hp == "insert_magic_int" or ",args#1" in lb or ",args#2" in lb or "args#" in lb and not lb.endswith("args#0"):
            continue
        for b in bodies:
            cases.append((hp, lb, a, k, m, ("PROTO",) if "binput" in b or "put" in b else ("PROTO", "FRAME"), 2 if "put" in b else 4, 3, 1, b))
    # the template rules (an abstract opcode list run on a template VM): a helper written in a way that engine does not model
    # leaves them undecided - the injection worlds below then decide on real pickles
    with rep.part("template rules"):
        skipped_abstract = set()
        ci = 0
        while ci < len(cases):
            helper, label0, args, kw, mode, header, body_proto, memo_mag, const_proto, body = cases[ci]
            ci += 1
            label = f"{label0},header={'+'.join(header) or 'none'}" + (f",base-protocol={body_proto}" if body_proto != 4 else "") + (f",memo-size~{memo_mag}" if memo_mag != 3 else "") + (f",constant-opcode-protocol={const_proto}" if const_proto != 1 else "") + (f",base={body}" if body else "")
            MemoLen.magnitude = memo_mag
            Tok.const_proto_assumed = const_proto
            Tok.const_proto_read = False
            args = [len(header) + 1 if a == "before-stop" else a for a in args] if helper == "insert_magic_int" else args
            f = repo.find_method(h.pk, helper) or (repo.find_method(h.pk, dotted(h.pk.attrs[helper])) if helper in h.pk.attrs else None)
            if f is None:
                raise AnalysisError(f"Pickled.{helper} not found")
            q = f"{P}.{helper}"
            where = f"{f.file}:{f.line}"
            toks = base_tokens(header, body_proto, body)
            try:
                OBJ = run_tokens(list(toks), h.by_name)["stack"] if body else ["obj"]
            except VMError as e:
                raise AnalysisError(f"concrete base {body} does not run on the template VM: {e}")
            me = h.new_self(toks)
            try:
                ret = h.call_method(me, helper, list(args), dict(kw))
            except PyRaise as pe:
                rep.ok("C08.once", q, f"[{label}] refused at build time with {pe.name}", where, nontrivial=False)
                continue
            except Unsupported as e:
                if body is None and "abstract opcode BODY" in str(e):
                    # the helper inspects the base's own opcodes one by one: undecidable over the abstract BODY, decided over
                    # the concrete bases below
                    skipped_abstract.add((helper, label0))
                    rep.info(f"{q} [{label}]: inspects individual opcodes of the base ({e}); decided over the concrete bases instead")
                    continue
                raise AnalysisError(f"{q} [{label}]: cannot interpret the helper over the abstract opcode list: {e}")
            finally:
                if Tok.const_proto_read and const_proto == 1:
                    cases.append((helper, label0, args, kw, mode, header, body_proto, memo_mag, 0, body))
            n_eval += 1
            seq = " ".join(repr(t) for t in toks)
            # ---- stop-last
            if toks[-1].op != "STOP" or sum(1 for t in toks if t.op == "STOP") != 1:
                rep.bad("C08.stop-last", q, f"stop-not-last:{label0.split(',')[0]}", f"[{label}] the rewritten pickle is `{seq}`: it does not end with its single STOP", f.file, f.line)
                continue
            rep.ok("C08.stop-last", q, f"[{label}] ends with its single STOP", where)
            hand_picked = [t for t in toks if (t.op == "CONST" and t.cls not in ("ConstantOpcode",) and t.cls in bad_encoders) or (t.op in CONST_OPNAMES and t.cls in bad_encoders)]
            if hand_picked:
                rep.bad("C08.once", q, f"argument-encoder:{hand_picked[0].cls}", f"[{label}] the argument {hand_picked[0].arg!r} is encoded with the hand-picked opcode class {hand_picked[0].cls}, whose encoder is known not to round-trip (C15): the injected call receives a different argument", f.file, f.line)
                continue
            # ---- run on the template VM
            try:
                res = run_tokens(toks, h.by_name)
            except Unsupported as e:
                raise AnalysisError(f"{q} [{label}]: {e}")
            except VMError as e:
                kind = "C08.memo-read" if "GET" in str(e) else "C08.balanced"
                rep.bad(kind, q, f"vm-error:{helper}:{label0}", f"[{label}] the rewritten pickle `{seq[:400]}` fails on the pickle VM: {e}", f.file, f.line)
                continue
            rep.ok("C08.memo-read", q, f"[{label}] every GET reads a key the template wrote", where)
            stack, reduces = res["stack"], res["reduces"]
            # ---- balanced
            if mode in ("keep",):
                want = ["obj"]
            elif mode == "replace":
                want = None  # [result of the injected call]
            elif mode == "append-keep-value":
                want = None
            elif mode == "magic":
                want = ["obj"]
            else:
                want = None
            if mode == "magic":
                if stack == OBJ and not reduces:
                    rep.ok("C08.balanced", q, f"[{label}] INT/POP pair is net-zero: stack at STOP is [obj]", where)
                else:
                    rep.bad("C08.balanced", q, f"unbalanced:{label0}", f"[{label}] stack at STOP is {stack!r} (expected [obj]); sequence `{seq}`", f.file, f.line)
                continue
            if mode == "keep":
                if stack != OBJ:
                    rep.bad("C08.balanced", q, f"unbalanced:{label0}", f"[{label}] stack at STOP is {stack!r}, expected exactly {OBJ!r} (the original object): the VM returns / leaves something other than the original object; sequence `{seq[:400]}`", f.file, f.line)
                else:
                    rep.ok("C08.balanced", q, f"[{label}] stack at STOP is [obj]", where)
            elif mode in ("replace", "function"):
                if len(stack) == 1 and isinstance(stack[0], tuple) and stack[0][0] == "result" and stack[0][1] == len(reduces) - 1:
                    rep.ok("C08.balanced", q, f"[{label}] stack at STOP is [result of the injected call]", where)
                else:
                    rep.bad("C08.balanced", q, f"unbalanced:{label0}", f"[{label}] stack at STOP is {stack!r}, expected exactly [result of the injected call]; sequence `{seq}`", f.file, f.line)
            elif mode == "append-keep-value":
                if len(stack) == 1:
                    rep.ok("C08.balanced", q, f"[{label}] one value at STOP", where)
                else:
                    rep.bad("C08.balanced", q, f"unbalanced:{label0}", f"[{label}] stack at STOP is {stack!r}: the appended call's value is kept on top of the original object, which stays below it - the VM stack is not empty after STOP pops the result (property: 'leaves the VM stack empty at STOP')", f.file, f.line)
            # ---- once
            if mode == "function":
                fn_calls = [(fn, a) for fn, a in reduces if isinstance(fn, tuple) and fn[0] == "result"]
                ok = len(fn_calls) == 1
                if ok:
                    fn, a = fn_calls[0]
                    src_call = reduces[fn[1]]
                    got_args = list(a[1:])
                    want_args = list(OBJ) + [("const", x) for x in (kw.get("constant_args") or [])]
                    ok = src_call[0][:3] == ("global", "builtins", "eval") and _value_of(src_call[1]) == ("injected_fn",) and got_args == want_args
                defs = [r for r in reduces if isinstance(r[0], tuple) and r[0][:3] == ("global", "builtins", "exec")]
                if ok and len(defs) == 1:
                    rep.ok("C08.once", q, f"[{label}] one exec of the definition, one call fn(obj{', *constant_args' if kw.get('constant_args') else ''})", where)
                else:
                    rep.bad("C08.once", q, f"call-count:{label0}", f"[{label}] REDUCEs performed: {reduces!r}; expected one exec of the definition and exactly one application of the function to (obj, *constant_args)", f.file, f.line)
                continue
            mod, attr = kw.get("module", "builtins"), kw.get("attr", "exec" if helper == "insert_python_exec" else "eval")
            mine = [(fn, a) for fn, a in reduces if isinstance(fn, tuple) and fn[:3] == ("global", mod, attr)]
            if len(mine) == 1 and len(reduces) == 1 and _strict_eq(list(_value_of(mine[0][1])), list(args)):
                rep.ok("C08.once", q, f"[{label}] exactly one REDUCE of {mod}.{attr} with the given arguments", where)
            else:
                rep.bad("C08.once", q, f"call-count:{label0}", f"[{label}] REDUCEs performed: {repr([(fn, _value_of(a)) for fn, a in reduces])[:300]}...; expected exactly one call of {mod}.{attr}{repr(tuple(args))[:200]}", f.file, f.line)
        rep.extra["template_cases_evaluated"] = n_eval
        # ---- helpers refuse a list that does not end in STOP
        for helper in ("insert_python", "append_python", "insert_function_call_on_unpickled_object"):
            toks = [Tok("PROTO", 4, "Proto"), Tok("BODY", proto=4)]
            me = h.new_self(toks)
            f = repo.find_method(h.pk, helper)
            try:
                h.call_method(me, helper, ["CODE"] if helper != "insert_function_call_on_unpickled_object" else ["def injected_fn(obj): return obj"], {})
                rep.bad("C08.stop-last", f"{P}.{helper}", "no-stop-precondition", f"{helper} accepts an opcode list that does not end in STOP and inserts before the last opcode anyway", f.file, f.line)
            except PyRaise as pe:
                if pe.name == "ValueError":
                    rep.ok("C08.stop-last", f"{P}.{helper}", "refuses (ValueError) a pickle not ending in STOP", f"{f.file}:{f.line}")
                else:
                    rep.bad("C08.stop-last", f"{P}.{helper}", f"no-stop-precondition:{pe.name}", f"{helper} on a pickle without STOP fails with {pe.name} rather than the documented ValueError", f.file, f.line)
            except Unsupported as e:
                raise AnalysisError(f"{helper}: {e}")
        # ---- prefix position for different headers
        ip = repo.find_method(h.pk, "insert_python")
        for hdr in ([], ["PROTO"], ["PROTO", "FRAME"], ["FRAME"]):
            toks = [Tok(x, 1, x.title()) for x in hdr] + [Tok("BODY", proto=4), Tok("STOP", None, "Stop")]
            me = h.new_self(toks)
            try:
                h.call_method(me, "insert_python", ["CODE"], dict(run_first=True, use_output_as_unpickle_result=False))
            except (PyRaise, Unsupported) as e:
                raise AnalysisError(f"insert_python with header {hdr}: {e}")
            ops_ = [t.op for t in toks]
            first_inj = ops_.index("GLOBAL")
            blk = ["CONST" if (o == "CONST" or o in CONST_OPNAMES) else o for o in ops_[first_inj:first_inj + 5]]
            # the header that is still there (a helper may remove FRAME opcodes, whose lengths it invalidates): only PROTO / FRAME
            # tokens, in their original order, precede the injected block
            kept = ops_[:first_inj]
            it_ = iter(hdr)
            header_ok = all(o in ("PROTO", "FRAME") for o in kept) and all(o in it_ for o in kept)
            if header_ok and blk == ["GLOBAL", "MARK", "CONST", "TUPLE", "REDUCE"] and ops_[first_inj + 5] == "BODY":
                rep.ok("C08.prefix", f"{P}.insert_python", f"header {hdr or '[]'}: injected block sits right after it, contiguous, before the body", f"{ip.file}:{ip.line}")
            else:
                rep.bad("C08.prefix", f"{P}.insert_python", f"prefix-position:{'+'.join(hdr) or 'none'}", f"with header {hdr} the rewritten list is `{' '.join(ops_)}`: the injected block is not contiguous right after the header", ip.file, ip.line)
        # compile() inherits the __future__ flags of the module that calls it unless dont_inherit=True: a `from __future__ import
        # annotations` in fickle.py would silently change how the injected function's source is compiled (string annotations)
        fm = repo.module("fickling.fickle")
        futures = sorted({a.name for st in fm.tree.body if isinstance(st, ast.ImportFrom) and st.module == "__future__" for a in st.names})
        for g_ in repo.functions.values():
            if g_.module is not fm:
                continue
            for n_ in body_walk(g_.node):
                if isinstance(n_, ast.Call) and dotted(n_.func) == "compile":
                    di = next((k.value for k in n_.keywords if k.arg == "dont_inherit"), n_.args[4] if len(n_.args) > 4 else None)
                    isolated = isinstance(di, ast.Constant) and bool(di.value)
                    if futures and not isolated:
                        rep.bad("C08.once", g_.qualname, "compile-inherits-future-flags:" + ",".join(futures), f"`{src(n_)[:70]}` compiles the injected source with the compiler flags of fickle.py itself (`from __future__ import {', '.join(futures)}`): the precompiled variant of the injected function no longer means what its source means (e.g. annotations stay strings), unlike the plain-source variant", g_.file, n_.lineno)
                    else:
                        rep.ok("C08.once", g_.qualname, "compile() of the injected source is not affected by __future__ flags of the calling module" + (" (dont_inherit=True)" if isolated else " (the module has none)"), f"{g_.file}:{n_.lineno}")
        if n_eval < 20:
            raise AnalysisError(f"only {n_eval} template cases could be evaluated")

    # value level, interpreted last: the helpers on real base pickles, the rewritten bytes read by CPython's own unpickler
    from ..injectworlds import explore as _inject_explore

    rep.rule("C08.inject-worlds", "every helper x flag combination on real base pickles: one call with the given arguments, original effects and result kept or replaced as promised, stack empty and a single STOP at the end, loadable from a file", 1)
    found, n_worlds = _inject_explore(repo, tier)
    pkc = repo.cls("fickling.fickle.Pickled")
    for key, (c, msg) in sorted(found.items()):
        rep.bad("C08.inject-worlds", pkc.qualname, key, f"{msg} [{c} world(s)]", pkc.module.relpath, pkc.node.lineno)
    rep.ok("C08.inject-worlds", pkc.qualname, f"{n_worlds} worlds (base pickles: sample values at protocols 0-5 incl. framed ones, shared references, instances, 300 memo entries, sparse and colliding memo keys; x every injection helper and flag combination x three argument shapes) interpreted; the rewritten bytes read by pickletools and by CPython's accelerated unpickler from a file object (and the pure-Python one for unframed bases) with every global an inert logging stand-in", "", nontrivial=True)

