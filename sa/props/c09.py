"""C09 -- stepping and tracing mirror the real pickle VM opcode by opcode.

* C09.stack-effect  every modelled opcode's abstract summary (mark consumed, pops, pushes, peeks)
                    equals the effect `pickletools` declares for it, on every normal path.
* C09.memo          exactly PUT/BINPUT/LONG_BINPUT/MEMOIZE write the memo (once, top of stack, key =
                    argument resp. len(memo)); GET/BINGET/LONG_BINGET read it by argument.
* C09.stack-class   Stack.pop/push/append/__getitem__/__len__ are single-element list operations.
* C09.trace-passive Trace drives step() once per iteration, reports each opcode once, never writes
                    interpreter or pickle state, returns interpreter.to_ast().
* C09.step-single   Interpreter.step advances the opcode iterator once and runs the opcode once.
"""

from __future__ import annotations

import ast
import pickletools
from typing import List, Set

from ..cfg import CFG, calls_in
from ..model import Repo, dotted, load_repo
from ..opsummary import OpSummary, all_summaries, declared, kept_roots, reach
from ..report import AnalysisError, Report
from ..util import MUTATORS, base_of, body_walk, mutator_calls, src, store_targets, walk_no_nested
from ..vmvals import Const, Item, MarkV, Unknown

PUTS = {"PUT", "BINPUT", "LONG_BINPUT"}
GETS = {"GET", "BINGET", "LONG_BINGET"}


def check_stack_effect(repo: Repo, rep: Report, sums: List[OpSummary]):
    by_name = {s.name: s for s in sums}
    for info in pickletools.opcodes:
        d = declared(info)
        s = by_name.get(info.name)
        if s is None:
            rep.info(f"{info.name}: not registered -> refused at parse time (NotImplementedError)")
            continue
        q = s.oc.cls.qualname + ".run"
        if s.refuses:
            rep.ok("C09.stack-effect", q, f"{info.name}: no normal path (refuses: {s.paths[0].raise_text[:50] if s.paths else ''})", s.where(), nontrivial=False)
            continue
        problems = []
        for p in s.normal:
            st = p.state
            pushes = len(st.local_stack)
            if d.has_mark:
                if st.mark_consumed != 1:
                    problems.append(f"consumes {st.mark_consumed} mark(s), declared 1 [{'; '.join(st.conds)}]")
                net = pushes - st.pops_below
                pops = st.pops_below
            else:
                if st.mark_consumed:
                    problems.append(f"consumes a mark, none declared [{'; '.join(st.conds)}]")
                net = pushes - st.pops_top
                pops = st.pops_top
            if net != d.net:
                problems.append(
                    f"net stack change {net:+d} (pops {pops}, pushes {pushes}) but pickletools declares {d.net:+d} "
                    f"({d.before} -> {d.after}) [{'; '.join(st.conds) or 'unconditional'}]"
                )
            if pops > d.operands:
                problems.append(f"pops {pops} operand(s), only {d.operands} declared")
            for lab in st.peeked:
                depth = int(lab[1:])
                if depth >= d.operands and not (d.operands == 0 and info.name in PUTS):
                    problems.append(f"reads stack item {lab} below the declared operands")
            # nothing but MARK pushes a mark object
            marks = [v for v in st.local_stack if isinstance(v, MarkV)]
            if info.name == "MARK":
                if len(marks) != 1 or pushes != 1:
                    problems.append(f"MARK pushes {len(marks)} mark object(s) / {pushes} value(s)")
            elif marks:
                problems.append("pushes a MarkObject")
        if problems:
            uniq = sorted(set(problems))
            rep.bad(
                "C09.stack-effect",
                q,
                "mismatch:" + info.name,
                f"{info.name}: " + " | ".join(uniq[:3]),
                s.run.file,
                s.run.line,
                what=f"{info.name} declared {d.before}->{d.after}",
            )
        else:
            p0 = s.normal[0].state
            rep.ok(
                "C09.stack-effect",
                q,
                f"{info.name}: {d.before}->{d.after} == (mark={p0.mark_consumed}, pops={p0.pops_below if d.has_mark else p0.pops_top}, pushes={len(p0.local_stack)}) on {len(s.normal)} path(s)",
                s.where(),
            )
    if len(sums) < 55:
        raise AnalysisError(f"only {len(sums)} opcode classes summarised (61 on the pinned tree)")


def check_memo(repo: Repo, rep: Report, sums: List[OpSummary], RULE: str = "C09.memo"):
    for s in sums:
        q = s.oc.cls.qualname + ".run"
        for p in s.normal:
            st = p.state
            tag = f"[{'; '.join(st.conds) or 'unconditional'}]"
            if s.name in PUTS or s.name == "MEMOIZE":
                if len(st.memo_writes) != 1 or st.memo_other:
                    rep.bad(RULE, q, f"writes:{s.name}", f"{s.name} performs {len(st.memo_writes)} memo write(s){' plus ' + str(st.memo_other) if st.memo_other else ''} {tag}; the VM performs exactly one", s.run.file, s.run.line)
                    continue
                k, v, line = st.memo_writes[0]
                top = st.base_items.get("T0")
                if not (isinstance(v, Item) and v is top and "T0" in st.peeked and v not in st.popped_vals):
                    rep.bad(RULE, q, f"value:{s.name}", f"{s.name} stores {v.short()} in the memo, not the (unpopped) top of stack {tag}", s.run.file, line)
                    continue
                if s.name == "MEMOIZE":
                    good = isinstance(k, Unknown) and k.why == "len(memory)"
                    want = "len(interpreter.memory)"
                else:
                    good = set(k.roots()) == {"arg"} and not any(isinstance(x, Unknown) and x.why in ("binop", "loop-var", "augassign") for x in reach(k, st))
                    want = "the opcode argument"
                if good:
                    rep.ok(RULE, q, f"{s.name}: memo[{want}] = top of stack", f"{s.run.file}:{line}")
                else:
                    rep.bad(RULE, q, f"key:{s.name}", f"{s.name} writes memo key `{k.short()}`; the VM uses {want} {tag}", s.run.file, line)
            elif s.name in GETS:
                if len(st.memo_reads) != 1 or st.memo_writes or st.memo_other:
                    rep.bad(RULE, q, f"reads:{s.name}", f"{s.name} performs {len(st.memo_reads)} memo read(s) and {len(st.memo_writes)} write(s) {tag}", s.run.file, s.run.line)
                    continue
                k, line = st.memo_reads[0]
                pushed = st.local_stack
                arith = any(isinstance(x, Unknown) and x.why in ("binop", "loop-var", "augassign") for x in reach(k, st))
                if set(k.roots()) == {"arg"} and not arith and len(pushed) == 1 and isinstance(pushed[0], Unknown) and pushed[0].why == "memo":
                    rep.ok(RULE, q, f"{s.name}: push memo[argument]", f"{s.run.file}:{line}")
                else:
                    rep.bad(RULE, q, f"key:{s.name}", f"{s.name} reads memo key `{k.short()}` / pushes {[v.short() for v in pushed]}; the VM pushes memo[argument] {tag}", s.run.file, line)
            else:
                if st.memo_writes or st.memo_reads or st.memo_other:
                    rep.bad(
                        "C09.memo",
                        q,
                        f"touches-memo:{s.name}",
                        f"{s.name} touches the memo (writes {len(st.memo_writes)}, reads {len(st.memo_reads)}, other {st.memo_other}) {tag}; in the VM only PUT/BINPUT/LONG_BINPUT/MEMOIZE write and GET/BINGET/LONG_BINGET read",
                        s.run.file,
                        s.run.line,
                    )
    untouched = sum(1 for s in sums if s.name not in PUTS | GETS | {"MEMOIZE"})
    rep.ok(RULE, "fickling.fickle.*", f"{untouched} other opcode handlers checked to leave the memo alone", "")
    # the memo itself is a plain dict created per interpreter
    init = repo.cls("fickling.fickle.Interpreter").method("__init__")
    if init is None:
        raise AnalysisError("Interpreter.__init__ not found")
    mem = [n for n in body_walk(init.node) if isinstance(n, (ast.Assign, ast.AnnAssign)) and dotted(n.targets[0] if isinstance(n, ast.Assign) else n.target) == "self.memory"]
    if len(mem) == 1 and isinstance(mem[0].value, ast.Dict) and not mem[0].value.keys:
        rep.ok(RULE, init.qualname, "self.memory = {} (fresh, empty, dict-keyed like the VM's memo)", f"{init.file}:{mem[0].lineno}")
    elif len(mem) == 1 and isinstance(mem[0].value, ast.Call) and dotted(mem[0].value.func) == "dict" and not mem[0].value.args:
        rep.ok(RULE, init.qualname, "self.memory = dict()", f"{init.file}:{mem[0].lineno}")
    else:
        rep.bad(RULE, init.qualname, "memo-init", f"Interpreter.memory is not initialised to a fresh empty dict ({[src(m) for m in mem]})", init.file, init.line)


def check_stack_class(repo: Repo, rep: Report):
    c = repo.cls("fickling.fickle.Stack")
    file = c.module.relpath

    def only_stmt_calls(f, attr):
        return [n for n in body_walk(f.node) if isinstance(n, ast.Call) and isinstance(n.func, ast.Attribute) and dotted(n.func.value) == "self._stack" and n.func.attr == attr]

    pop = c.method("pop")
    push = c.method("push")
    if pop is None or push is None:
        raise AnalysisError("Stack.pop / Stack.push not found")
    pops = only_stmt_calls(pop, "pop")
    other_mut = [m for _, r, m in mutator_calls(pop.node) if m != "pop"]
    g = CFG(pop.node)
    rets = g.stmt_nodes(ast.Return)
    if len(pops) == 1 and not pops[0].args and not other_mut and all(isinstance(r.ast.value, ast.Call) and r.ast.value is pops[0] for r in rets) and rets:
        rep.ok("C09.stack-class", pop.qualname, "returns self._stack.pop() (one element) or raises when empty", f"{file}:{pop.line}")
    else:
        rep.bad("C09.stack-class", pop.qualname, "pop-shape", f"Stack.pop is not `return self._stack.pop()` guarded by an emptiness raise (pops={len(pops)}, other mutators={other_mut})", file, pop.line)
    apps = only_stmt_calls(push, "append")
    other_mut = [m for _, r, m in mutator_calls(push.node) if m != "append"]
    g = CFG(push.node)
    ok_push = False
    if len(apps) == 1 and len(apps[0].args) == 1 and isinstance(apps[0].args[0], ast.Name) and apps[0].args[0].id in push.params() and not other_mut:
        n = g.node_of(apps[0])
        if n is not None and n.id in g.post_dominators().get(g.entry, set()):
            ok_push = True
    if ok_push:
        rep.ok("C09.stack-class", push.qualname, "self._stack.append(obj) unconditionally, once", f"{file}:{push.line}")
    else:
        rep.bad("C09.stack-class", push.qualname, "push-shape", "Stack.push does not unconditionally append exactly its argument", file, push.line)
    alias = c.attrs.get("append")
    if alias is not None and dotted(alias) == "push":
        rep.ok("C09.stack-class", c.qualname + ".append", "append = push", f"{file}:{c.node.lineno}")
    elif c.method("append") is None:
        rep.bad("C09.stack-class", c.qualname + ".append", "append-alias", "Stack.append is no longer an alias of push", file, c.node.lineno)
    for mname, needle in (("__getitem__", "self._stack"), ("__len__", "self._stack")):
        f = next((x for x in c.methods.get(mname, []) if not any((dotted(d) or "").endswith("overload") for d in x.node.decorator_list)), None)
        if f is None:
            raise AnalysisError(f"Stack.{mname} not found")
        rets = [n.value for n in body_walk(f.node) if isinstance(n, ast.Return)]
        if rets and all(any(dotted(x) == needle for x in ast.walk(r)) for r in rets):
            rep.ok("C09.stack-class", f.qualname, f"returns {src(rets[0])}", f"{file}:{f.line}")
        else:
            rep.bad("C09.stack-class", f.qualname, "view-shape", f"Stack.{mname} does not read self._stack", file, f.line)
    init = c.method("__init__")
    cp = [n for n in body_walk(init.node) if isinstance(n, (ast.Assign, ast.AnnAssign)) and dotted(n.targets[0] if isinstance(n, ast.Assign) else n.target) == "self._stack"]
    if len(cp) == 1 and isinstance(cp[0].value, ast.Call) and dotted(cp[0].value.func) == "list":
        rep.ok("C09.stack-class", init.qualname, "Stack(x) copies: self._stack = list(x)", f"{file}:{cp[0].lineno}")
    else:
        rep.bad("C09.stack-class", init.qualname, "snapshot-aliases", "Stack(initial_value) does not copy its argument: a snapshot would alias the live stack", file, init.line)


def _interp_aliases(fn: ast.AST) -> Set[str]:
    out = set()
    for n in body_walk(fn):
        if isinstance(n, ast.Assign) and dotted(n.value) in ("self.interpreter",):
            for t in n.targets:
                if isinstance(t, ast.Name):
                    out.add(t.id)
    return out


def check_trace_drives_given(repo: Repo, rep: Report, rule: str = "C09.trace-passive"):
    """The tracer steps the interpreter object it was handed - not a copy or a fresh one.  The caller (cli.main) reads the
    variable counter off ITS interpreter after tracing; a tracer that works on another object leaves that one un-run, so
    the next stacked pickle starts again at _var0 and the traced program differs from the untraced one."""
    c = repo.cls("fickling.tracing.Trace")
    init = c.method("__init__")
    if init is None:
        raise AnalysisError("Trace.__init__ not found")
    ps = [p for p in init.params() if p != "self"]
    stores = [n for n in body_walk(init.node) if isinstance(n, (ast.Assign, ast.AnnAssign)) and n.value is not None and any(dotted(t) == "self.interpreter" for t in store_targets(n))]
    others = [n for fs in c.methods.values() for f in fs if f is not init for n in body_walk(f.node) if isinstance(n, (ast.Assign, ast.AnnAssign, ast.AugAssign)) and any(dotted(t) == "self.interpreter" for t in store_targets(n))]
    if len(stores) == 1 and isinstance(stores[0].value, ast.Name) and stores[0].value.id in ps and not others:
        rep.ok(rule, init.qualname, f"self.interpreter is the interpreter passed in (`{src(stores[0])}`), never re-bound", f"{init.file}:{stores[0].lineno}")
    else:
        bad = (stores + others)[0] if (stores + others) else None
        rep.bad(rule, init.qualname, "traces-another-interpreter", f"Trace does not drive the interpreter object it was given ({'`' + src(bad) + '`' if bad is not None else 'self.interpreter is never set'}): the caller's interpreter is left un-run, its variable counter and module are not those of the traced run", init.file, bad.lineno if bad is not None else init.line)


def check_trace(repo: Repo, rep: Report):
    check_trace_drives_given(repo, rep)
    c = repo.cls("fickling.tracing.Trace")
    file = c.module.relpath
    # ---- no writes to interpreter / pickle state anywhere in the class
    clean = True
    for name, fs in c.methods.items():
        for f in fs:
            aliases = _interp_aliases(f.node)

            def rooted(e: ast.AST) -> bool:
                d = dotted(base_of(e)) or ""
                while True:
                    if d == "self.interpreter" or d.startswith("self.interpreter.") or any(d == a or d.startswith(a + ".") for a in aliases):
                        return True
                    return False

            for n in body_walk(f.node):
                if isinstance(n, (ast.Assign, ast.AugAssign, ast.AnnAssign, ast.Delete)):
                    for t in store_targets(n):
                        if isinstance(t, ast.Name):
                            continue
                        if name == "__init__" and dotted(t) == "self.interpreter":
                            continue
                        if rooted(t) or (isinstance(base_of(t), ast.Attribute) and base_of(t).attr in ("_ast", "_properties", "_opcodes", "memory", "stack", "module_body")):
                            clean = False
                            rep.bad("C09.trace-passive", f.qualname, f"store:{dotted(base_of(t)) or src(t)}", f"`{src(n)}` writes interpreter/pickle state from the tracer", file, n.lineno)
                if isinstance(n, ast.Call) and isinstance(n.func, ast.Attribute):
                    recv = n.func.value
                    if rooted(recv):
                        d = dotted(recv) or ""
                        is_interp = d == "self.interpreter" or d in aliases
                        if is_interp and n.func.attr in ("step", "to_ast"):
                            continue
                        if not is_interp and n.func.attr in ("items", "keys", "values", "get", "copy", "__len__", "__iter__", "index", "count"):
                            continue
                        clean = False
                        rep.bad("C09.trace-passive", f.qualname, f"call:{d}.{n.func.attr}", f"`{src(n)}` calls a method on interpreter state from the tracer (only step()/to_ast() and read-only views are passive)", file, n.lineno)
                if isinstance(n, ast.Call) and dotted(n.func) in ("setattr", "delattr") and n.args and rooted(n.args[0]):
                    clean = False
                    rep.bad("C09.trace-passive", f.qualname, f"setattr:{src(n.args[0])}", f"`{src(n)}` writes interpreter state from the tracer", file, n.lineno)
    if clean:
        rep.ok("C09.trace-passive", c.qualname, f"{sum(len(v) for v in c.methods.values())} methods: no store to / mutator call on interpreter, stack, memo, module body or pickle caches", file)
    # ---- Trace.run shape
    run = c.method("run")
    if run is None:
        raise AnalysisError("Trace.run not found")
    g = CFG(run.node)
    loops = [n for n in run.node.body if isinstance(n, ast.While)]
    if len(loops) != 1 or not (isinstance(loops[0].test, ast.Constant) and loops[0].test.value is True):
        # another driver: what each iteration reports must still be what step() executed in that iteration.  A loop that
        # takes the opcodes to report from somewhere else (the pickle's own opcode list, a counter) reports the wrong
        # opcodes as soon as the interpreter was stepped before tracing started, or when the two sequences differ
        others = [n for n in run.node.body if isinstance(n, (ast.For, ast.While)) and any(isinstance(x, ast.Call) and isinstance(x.func, ast.Attribute) and x.func.attr == "step" for x in ast.walk(n))]
        if len(others) == 1:
            lp0 = others[0]
            stepc = [x for x in ast.walk(lp0) if isinstance(x, ast.Call) and isinstance(x.func, ast.Attribute) and x.func.attr == "step"]
            ons0 = [x for x in ast.walk(lp0) if isinstance(x, ast.Call) and isinstance(x.func, ast.Attribute) and x.func.attr == "on_opcode"]
            step_targets = {t.id for x in ast.walk(lp0) if isinstance(x, ast.Assign) and any(x.value is sc for sc in stepc) for t in x.targets if isinstance(t, ast.Name)}
            from_step = bool(ons0) and all(o.args and isinstance(o.args[0], ast.Name) and o.args[0].id in step_targets for o in ons0)
            if not from_step:
                rep.bad("C09.trace-passive", run.qualname, "on-opcode-discipline", f"Trace.run reports `{src(ons0[0]) if ons0 else 'nothing'}` per iteration of `{src(lp0.iter) if isinstance(lp0, ast.For) else src(lp0.test)}`, not the opcode that step() returned in that iteration: the reported sequence and the executed sequence are two independent iterations that only coincide for a fresh interpreter", file, lp0.lineno)
                return
        raise AnalysisError("Trace.run: `while True` driver loop not recognised")
    lp = loops[0]
    steps = [n for n in walk_no_nested(lp) if isinstance(n, ast.Call) and isinstance(n.func, ast.Attribute) and n.func.attr == "step"]
    all_steps = [n for n in body_walk(run.node) if isinstance(n, ast.Call) and isinstance(n.func, ast.Attribute) and n.func.attr in ("step", "run", "interpret")]
    if len(steps) != 1 or len(all_steps) != 1:
        rep.bad("C09.trace-passive", run.qualname, f"step-count:{len(all_steps)}", f"Trace.run drives the interpreter {len(all_steps)} time(s) per iteration/run (step/run/interpret calls); exactly one step() per loop iteration is required", file, run.line)
    else:
        sn = g.node_of(steps[0])
        # step is executed on every iteration: it dominates the loop back edge sources
        tnode = next(x for x in g.find(lambda n: n.kind == "test" and n.ast is lp.test))
        back = [p for p, lab in g.pred[tnode.id] if lab == "loop" and p in g.dominators()]
        every_iter = all(sn.id in g.dominators()[b] for b in back) and back
        # the loop exits only through the StopIteration handler's break
        brks = [x for x in g.stmt_nodes(ast.Break) if any(g.nodes[m].kind == "loop_exit" and g.nodes[m].ast is lp for m, _ in g.succ[x.id])]
        handler_ok = True
        for b in brks:
            doms = [g.nodes[d] for d in g.dominators()[b.id]]
            if not any(d.kind == "handler" and d.ast.type is not None and dotted(d.ast.type) == "StopIteration" for d in doms):
                handler_ok = False
        rets = [x for x in g.stmt_nodes(ast.Return)]
        in_loop_ret = [r for r in rets if any(r.ast is y for y in ast.walk(lp))]
        if every_iter and handler_ok and brks and not in_loop_ret:
            rep.ok("C09.trace-passive", run.qualname, "one interpreter.step() per iteration; loop ends only on StopIteration", f"{file}:{sn.line}")
        else:
            rep.bad("C09.trace-passive", run.qualname, "loop-shape", f"Trace.run loop: step on every iteration={bool(every_iter)}, exits only via StopIteration={handler_ok and bool(brks)}, return inside loop={bool(in_loop_ret)}", file, lp.lineno)
        # on_opcode exactly once per iteration, after the step, unconditionally
        ons = [n for n in walk_no_nested(lp) if isinstance(n, ast.Call) and isinstance(n.func, ast.Attribute) and n.func.attr == "on_opcode"]
        if len(ons) == 1:
            on = g.node_of(ons[0])
            arg_ok = False
            if ons[0].args and isinstance(ons[0].args[0], ast.Name):
                # bound from the step call
                arg_ok = isinstance(sn.ast, ast.Assign) and any(isinstance(t, ast.Name) and t.id == ons[0].args[0].id for t in sn.ast.targets)
            after = sn.id in g.dominators()[on.id]
            uncond = all(on.id in g.dominators()[b] for b in back)
            in_inner_loop = any(isinstance(a, (ast.For, ast.While)) and a is not lp and any(ons[0] is y for y in ast.walk(a)) for a in ast.walk(lp))
            if arg_ok and after and uncond and not in_inner_loop:
                rep.ok("C09.trace-passive", run.qualname, "on_opcode(<the opcode step() returned>) exactly once per iteration, after the step", f"{file}:{on.line}")
            else:
                rep.bad("C09.trace-passive", run.qualname, "on-opcode-discipline", f"on_opcode: argument is step()'s result={arg_ok}, after step={after}, unconditional={bool(uncond)}, inside inner loop={in_inner_loop}", file, on.line)
        else:
            rep.bad("C09.trace-passive", run.qualname, f"on-opcode-count:{len(ons)}", f"on_opcode is called {len(ons)} time(s) per iteration", file, lp.lineno)
    rets = [n.value for n in body_walk(run.node) if isinstance(n, ast.Return)]
    if len(rets) == 1 and isinstance(rets[0], ast.Call) and dotted(rets[0].func) == "self.interpreter.to_ast" and not rets[0].args:
        rep.ok("C09.trace-passive", run.qualname, "returns self.interpreter.to_ast() (the same program as untraced decompilation)", f"{file}:{run.line}")
    else:
        rep.bad("C09.trace-passive", run.qualname, "return", f"Trace.run returns {[src(r) for r in rets]}, not self.interpreter.to_ast()", file, run.line)
    # snapshots are copies
    snaps = [n for n in body_walk(run.node) if isinstance(n, ast.Assign) and any(dotted(x) in ("self.interpreter.memory", "self.interpreter.stack") for x in ast.walk(n.value))]
    for n in snaps:
        v = n.value
        if isinstance(v, ast.Call) and dotted(v.func) in ("dict", "Stack", "list", "tuple", "copy.copy", "copy.deepcopy"):
            rep.ok("C09.trace-passive", run.qualname, f"snapshot `{src(n)}` is a copy", f"{file}:{n.lineno}")
        elif dotted(v) in ("self.interpreter.memory", "self.interpreter.stack", "self.interpreter.stack._stack"):
            rep.bad("C09.trace-passive", run.qualname, f"snapshot-alias:{src(n.targets[0])}", f"`{src(n)}` aliases live interpreter state instead of copying it", file, n.lineno)
    # to_ast after completion does not re-run: Interpreter.to_ast runs only when _module is None
    ta = repo.cls("fickling.fickle.Interpreter").method("to_ast")
    if ta is None:
        raise AnalysisError("Interpreter.to_ast not found")
    g2 = CFG(ta.node)
    runs = [g2.node_of(c) for c in body_walk(ta.node) if isinstance(c, ast.Call) and dotted(c.func) == "self.run"]
    guarded = True
    for x in runs:
        doms = [g2.nodes[d] for d in g2.dominators()[x.id] if g2.nodes[d].kind == "branch"]
        if not any(d.value is True and isinstance(d.ast, ast.Compare) and dotted(d.ast.left) == "self._module" and isinstance(d.ast.ops[0], ast.Is) for d in doms):
            guarded = False
    if runs and guarded:
        rep.ok("C09.trace-passive", ta.qualname, "to_ast re-runs the interpreter only while no module has been produced", f"{ta.file}:{ta.line}")
    elif runs:
        rep.bad("C09.trace-passive", ta.qualname, "to-ast-reruns", "Interpreter.to_ast may run the interpreter again after tracing finished it", ta.file, ta.line)


def check_step(repo: Repo, rep: Report):
    ic = repo.cls("fickling.fickle.Interpreter")
    step = ic.method("step")
    if step is None:
        raise AnalysisError("Interpreter.step not found")
    g = CFG(step.node)
    nexts = [n for n in body_walk(step.node) if isinstance(n, ast.Call) and dotted(n.func) == "next" and n.args and dotted(n.args[0]) == "self._opcodes"]
    runs = [n for n in body_walk(step.node) if isinstance(n, ast.Call) and isinstance(n.func, ast.Attribute) and n.func.attr == "run"]
    in_loop = any(isinstance(a, (ast.For, ast.While)) and any(x in nexts + runs for x in ast.walk(a)) for a in body_walk(step.node))
    ok = len(nexts) == 1 and len(runs) == 1 and not in_loop
    if ok:
        rn = g.node_of(runs[0])
        nx = g.node_of(nexts[0])
        # the run call takes the interpreter itself and the opcode just fetched
        recv = dotted(runs[0].func.value)
        bound = isinstance(nx.ast, ast.Assign) and any(isinstance(t, ast.Name) and t.id == recv for t in nx.ast.targets)
        arg_self = len(runs[0].args) == 1 and dotted(runs[0].args[0]) == "self"
        rets = [x for x in g.stmt_nodes(ast.Return)]
        ret_ok = all(dotted(r.ast.value) == recv for r in rets) and rets
        # every normal exit passes through the run call
        through = rn.id in g.post_dominators().get(nx.id, set()) or all(rn.id in g.dominators()[r.id] for r in rets)
        if bound and arg_self and ret_ok and through and nx.id in g.dominators()[rn.id]:
            rep.ok("C09.step-single", step.qualname, "one next(self._opcodes), one opcode.run(self) on every normal exit, returns that opcode", f"{step.file}:{step.line}")
        else:
            rep.bad("C09.step-single", step.qualname, "step-shape", f"step(): opcode bound from next()={bound}, run(self)={arg_self}, returns the opcode={bool(ret_ok)}, run on every normal exit={bool(through)}", step.file, step.line)
    else:
        rep.bad("C09.step-single", step.qualname, f"step-counts:{len(nexts)}:{len(runs)}", f"step() advances the iterator {len(nexts)} time(s) and runs {len(runs)} opcode handler(s){' inside a loop' if in_loop else ''}", step.file, step.line)
    run = ic.method("run")
    if run is None:
        raise AnalysisError("Interpreter.run not found")
    steps = [n for n in body_walk(run.node) if isinstance(n, ast.Call) and dotted(n.func) == "self.step"]
    loops = [n for n in run.node.body if isinstance(n, ast.While)]
    if len(steps) == 1 and len(loops) == 1:
        rep.ok("C09.step-single", run.qualname, "run() = repeat step() until StopIteration", f"{run.file}:{run.line}")
    else:
        rep.bad("C09.step-single", run.qualname, "run-shape", f"Interpreter.run calls step() at {len(steps)} site(s) in {len(loops)} loop(s)", run.file, run.line)
    # Trace.run drives step() itself and never calls run(): anything run() does to the interpreter besides stepping
    # (post-processing the finished module, resetting state) makes traced and untraced decompilation differ.
    def self_writes(fnode) -> List[str]:
        out = []
        for n in body_walk(fnode):
            if isinstance(n, (ast.Assign, ast.AugAssign, ast.AnnAssign, ast.Delete)):
                for t in store_targets(n):
                    if (dotted(base_of(t)) or "").split(".")[0] == "self" and not isinstance(t, ast.Name):
                        out.append(f"store:{dotted(base_of(t)) or src(t)}")
            if isinstance(n, ast.Call) and isinstance(n.func, ast.Attribute) and n.func.attr in MUTATORS and (dotted(base_of(n.func.value)) or "").split(".")[0] == "self":
                out.append(f"mutate:{dotted(n.func.value) or src(n.func.value)}.{n.func.attr}")
            if isinstance(n, ast.Call) and dotted(n.func) in ("setattr", "delattr") and n.args and (dotted(base_of(n.args[0])) or "").split(".")[0] == "self":
                out.append(f"setattr:{src(n.args[0])}")
        return out

    extra = self_writes(run.node)
    for n in body_walk(run.node):
        if isinstance(n, ast.Call) and isinstance(n.func, ast.Attribute) and dotted(n.func.value) == "self" and n.func.attr != "step":
            m = ic.method(n.func.attr)
            if m is None or self_writes(m.node):
                extra.append(f"call:self.{n.func.attr}")
    if extra:
        for e in sorted(set(extra)):
            rep.bad("C09.step-single", run.qualname, f"run-extra-effect:{e}", f"Interpreter.run changes interpreter state outside step() ({e}); Trace.run drives step() directly and never executes this, so the traced program differs from untraced decompilation", run.file, run.line)
    else:
        rep.ok("C09.step-single", run.qualname, "run() has no effect on the interpreter besides calling step(): stepping (what Trace does) and running produce the same module", f"{run.file}:{run.line}")
    # to_ast's `_module is None` branch is taken only by untraced decompilation (after tracing the module exists):
    # it may do nothing but run()
    ta = ic.method("to_ast")
    if ta is not None:
        for iff in [n for n in body_walk(ta.node) if isinstance(n, ast.If) and isinstance(n.test, ast.Compare) and dotted(n.test.left) == "self._module"]:
            only_untraced = iff.body if isinstance(iff.test.ops[0], ast.Is) else iff.orelse
            holder = ast.Module(body=list(only_untraced), type_ignores=[])
            ex = self_writes(holder)
            for n in ast.walk(holder):
                if isinstance(n, ast.Call) and isinstance(n.func, ast.Attribute) and dotted(n.func.value) == "self" and n.func.attr != "run":
                    m = ic.method(n.func.attr)
                    if m is None or self_writes(m.node):
                        ex.append(f"call:self.{n.func.attr}")
            for e in sorted(set(ex)):
                rep.bad("C09.step-single", ta.qualname, f"untraced-only-effect:{e}", f"Interpreter.to_ast changes interpreter state only when no module exists yet ({e}): after Trace.run the module exists, so traced and untraced decompilation differ", ta.file, iff.lineno)
    # the opcode iterator is created once from the pickled object
    init = ic.method("__init__")
    its = [n for n in body_walk(init.node) if isinstance(n, (ast.Assign, ast.AnnAssign)) and dotted(n.targets[0] if isinstance(n, ast.Assign) else n.target) == "self._opcodes"]
    if len(its) == 1 and isinstance(its[0].value, ast.Call) and dotted(its[0].value.func) == "iter" and isinstance(its[0].value.args[0], ast.Name) and its[0].value.args[0].id in init.params():
        rep.ok("C09.step-single", init.qualname, f"self._opcodes = {src(its[0].value)}: every opcode once, in order", f"{init.file}:{its[0].lineno}")
    else:
        rep.bad("C09.step-single", init.qualname, "iterator-init", f"Interpreter._opcodes is not `iter(<pickled>)` ({[src(i) for i in its]})", init.file, init.line)


def run(rep: Report, tier: str):
    repo = load_repo()
    rep.explanation = (
        "Abstract interpretation of every registered opcode handler (through StackSliceOpcode's wrapper and "
        "inlined Interpreter helpers) over a symbolic stack/memo, compared row by row with pickletools' "
        "declared stack_before/stack_after; structural rules for Stack, Interpreter.step/run and Trace. "
        "Exhaustive over the finite opcode set; no pickle is parsed or run."
    )
    rep.exhaustive = True
    rep.rule("C09.stack-effect", "opcode summary (mark, pops, pushes, peeks) equals pickletools' declared effect on every normal path", 61)
    rep.rule("C09.memo", "only PUT-family/MEMOIZE write (top of stack, VM's key) and GET-family read the memo", 9)
    rep.rule("C09.stack-class", "Stack operations are single-element list operations; snapshots copy", 6)
    rep.rule("C09.trace-passive", "Trace: one step + one on_opcode per iteration, no writes to interpreter/pickle state, returns to_ast()", 6)
    rep.rule("C09.step-single", "Interpreter.step advances once and runs the opcode once; run() is nothing but repeated step()", 4)
    rep.assume("pickletools.opcodes (CPython's declarative opcode table) is the specification of the pickle VM's stack effects")
    rep.assume("items listed before `mark` in stack_before lie below the mark and survive; mark and everything after it are consumed")
    # structural rules first: they do not need the opcode summaries and must be reported even when a handler uses an
    # operation the abstract interpreter does not model
    check_stack_class(repo, rep)
    from .c13 import check_class_level_state

    check_class_level_state(repo, rep, rule="C09.stack-class", only={"fickling.fickle.Stack", "fickling.fickle.Interpreter", "fickling.fickle.ModuleBody"})
    check_trace(repo, rep)
    check_step(repo, rep)
    from ..pitfalls import check_pitfalls, handler_functions

    check_pitfalls(repo, rep, "C09.stack-effect", handler_functions(repo))
    with rep.part("opcode summaries"):  # a handler written in a way the abstract interpreter does not model leaves this part
        # undecided; the step worlds below interpret the same handlers concretely
        sums = all_summaries(repo)
        rep.units = {"opcode_classes": len(sums), "paths": sum(len(s.paths) for s in sums), "pickletools_rows": len(pickletools.opcodes)}
        check_stack_effect(repo, rep, sums)
        check_memo(repo, rep, sums)

    # interpreted last: the rules above stand on their own if the decompiler cannot be interpreted over an input
    from ..vmworlds import C09_KEYS, report as _vm_report

    rep.rule("C09.step-worlds", "the interpreted Interpreter, stepped over the corpus, has the reference machine's stack depth, mark positions and memo keys after every opcode", 1)
    _vm_report(repo, rep, "C09.step-worlds", tier, C09_KEYS)

