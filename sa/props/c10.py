"""C10 -- all faces of the safety check agree on the same per-pickle severity.

* C10.order      the Severity members carry the documented ranking and each of the six comparison
                 operators, reduced over the finite member domain read from the enum body, equals its
                 mathematical meaning on all 36 ordered pairs.
* C10.aggregate  AnalysisResults.severity is LIKELY_SAFE for no findings and otherwise the max over
                 the severity of *all* collected findings; nothing filters findings on the way.
* C10.faces      every face (library verdict, boolean query, checked loader, CLI exit status, JSON
                 report, exception info) reads that same `.severity` with the required predicate.
"""

from __future__ import annotations

import ast
from typing import Dict, List, Optional, Tuple

from ..cfg import CFG
from ..minieval import PyRaise, Evaluator, Record, Unsupported
from ..model import ClassInfo, FuncInfo, Repo, dotted, load_repo
from ..report import AnalysisError, Report
from ..util import cli_args_name, body_walk, cmp_normal, cmp_oriented, kwarg, norm, src, walk_no_nested

DOCUMENTED_ORDER = [
    "LIKELY_SAFE",
    "POSSIBLY_UNSAFE",
    "SUSPICIOUS",
    "LIKELY_UNSAFE",
    "LIKELY_OVERTLY_MALICIOUS",
    "OVERTLY_MALICIOUS",
]
SEV = "fickling.analysis.Severity"
DUNDER = {"Lt": "__lt__", "LtE": "__le__", "Gt": "__gt__", "GtE": "__ge__", "Eq": "__eq__", "NotEq": "__ne__"}
REFLECT = {"__lt__": "__gt__", "__gt__": "__lt__", "__le__": "__ge__", "__ge__": "__le__", "__eq__": "__eq__", "__ne__": "__ne__"}
MEANING = {
    "__lt__": lambda a, b: a < b,
    "__le__": lambda a, b: a <= b,
    "__gt__": lambda a, b: a > b,
    "__ge__": lambda a, b: a >= b,
    "__eq__": lambda a, b: a == b,
    "__ne__": lambda a, b: a != b,
}


# --------------------------------------------------------------------------- C10.order
def severity_members(repo: Repo, rep: Report) -> List[Record]:
    c = repo.cls(SEV)
    if not any(b.endswith("Enum") for b in c.bases):
        raise AnalysisError(f"Severity is no longer an Enum (bases {c.bases})")
    init = c.method("__init__")
    members: List[Record] = []
    for st in c.node.body:
        if isinstance(st, ast.Assign) and len(st.targets) == 1 and isinstance(st.targets[0], ast.Name):
            name = st.targets[0].id
            if name.startswith("_"):
                continue
            try:
                val = ast.literal_eval(st.value)
            except Exception:
                raise AnalysisError(f"Severity.{name} value is not a literal: {src(st.value)}")
            fields = {"name": name, "value": val, "_value_": val}
            # attributes bound by Enum __init__(self, *value)
            if init is not None:
                params = [a.arg for a in init.node.args.args][1:]
                tup = val if isinstance(val, tuple) else (val,)
                if len(params) != len(tup):
                    raise AnalysisError(f"Severity.__init__ takes {len(params)} values but {name} has {len(tup)}")
                binding = dict(zip(params, tup))
                for n in body_walk(init.node):
                    if isinstance(n, (ast.Assign, ast.AnnAssign)):
                        tgt = n.targets[0] if isinstance(n, ast.Assign) else n.target
                        if isinstance(tgt, ast.Attribute) and dotted(tgt.value) == "self" and isinstance(n.value, ast.Name) and n.value.id in binding:
                            fields[tgt.attr] = binding[n.value.id]
            members.append(Record("Severity", fields))
    return members


class SevDomain:
    """The Severity members and operators as read from the enum body; comparisons between members
    are evaluated by interpreting the operator bodies (pure expression subset)."""

    def __init__(self, repo: Repo, rep: Report):
        self.c = repo.cls(SEV)
        self.members = severity_members(repo, rep)
        self.by_name = {m.fields["name"]: m for m in self.members}
        self.ns = {"__namespace__": True, **self.by_name}
        self.total_ordering = any((dotted(d) or "").endswith("total_ordering") for d in self.c.node.decorator_list)

    def method(self, name: str) -> Optional[FuncInfo]:
        return self.c.method(name)

    def call_op(self, dunder: str, a: Record, b, ev: Evaluator):
        if ev.depth > 12:
            raise Unsupported("operator recursion too deep (mutually recursive definitions?)")
        f = self.method(dunder)
        if f is None:
            if dunder == "__ne__":
                r = self.call_op("__eq__", a, b, ev)
                return r if r is NotImplemented else not ev.truth(r)
            if self.total_ordering and dunder in ("__le__", "__gt__", "__ge__", "__lt__"):
                if self.method("__lt__") is None:
                    raise Unsupported("total_ordering not rooted at __lt__")
                lt = ev.truth(self.call_op("__lt__", a, b, ev))
                eq = ev.truth(self.call_op("__eq__", a, b, ev))
                return {"__le__": lt or eq, "__gt__": not lt and not eq, "__ge__": not lt}[dunder]
            if dunder == "__eq__":
                return a is b  # Enum identity
            return NotImplemented
        params = [x.arg for x in f.node.args.args]
        if len(params) != 2:
            raise Unsupported(f"{dunder} has unexpected signature")
        sub = Evaluator({params[0]: a, params[1]: b, "Severity": self.ns}, record_compare=self.rec_cmp, isinstance_hook=self.isinst)
        sub.depth = ev.depth + 1
        return sub.run_body(f.node.body)

    def rec_cmp(self, opname: str, l, r, ev: Evaluator):
        d = DUNDER.get(opname)
        if d is None:
            raise Unsupported(f"record comparison {opname}")
        if isinstance(l, Record) and l.cls == "Severity":
            res = self.call_op(d, l, r, ev)
            if res is not NotImplemented:
                return res
        if isinstance(r, Record) and r.cls == "Severity":
            res = self.call_op(REFLECT[d], r, l, ev)
            if res is not NotImplemented:
                return res
        if d == "__eq__":
            return l is r
        if d == "__ne__":
            return l is not r
        raise Unsupported(f"no usable {d} between {l!r} and {r!r} (TypeError at run time)")

    @staticmethod
    def isinst(v, cls: str):
        if cls in ("Severity", "self.__class__", "type(self)"):
            return isinstance(v, Record) and v.cls == "Severity"
        return None

    def evaluator(self, env: dict, call_hook=None) -> Evaluator:
        e = Evaluator(dict(env, Severity=self.ns), record_compare=self.rec_cmp, isinstance_hook=self.isinst, call_hook=call_hook)
        return e


def check_order(repo: Repo, rep: Report) -> "SevDomain":
    dom = SevDomain(repo, rep)
    c = dom.c
    members = dom.members
    names = [m.fields["name"] for m in members]
    file = c.module.relpath
    if sorted(names) != sorted(DOCUMENTED_ORDER):
        rep.bad("C10.order", SEV, "members", f"Severity members {names} differ from the documented six {DOCUMENTED_ORDER}", file, c.node.lineno)
        return dom
    by_name = dom.by_name
    vals = [by_name[n].fields["value"] for n in DOCUMENTED_ORDER]
    try:
        increasing = all(vals[i] < vals[i + 1] for i in range(5))
        first_distinct = len({(v[0] if isinstance(v, tuple) else v) for v in vals}) == 6
    except TypeError:
        increasing, first_distinct = False, False
    if increasing and first_distinct:
        rep.ok("C10.order", SEV, f"member values strictly increasing in the documented order: {[v[0] if isinstance(v, tuple) else v for v in vals]}", f"{file}:{c.node.lineno}")
    else:
        rep.bad("C10.order", SEV, "ranks", f"Severity values {vals} are not strictly increasing (with distinct leading ranks) in the documented order {DOCUMENTED_ORDER}", file, c.node.lineno)
    rank = {n: i for i, n in enumerate(DOCUMENTED_ORDER)}
    top = dom.evaluator({})
    for d in ("__lt__", "__le__", "__gt__", "__ge__", "__eq__", "__ne__"):
        wrong: List[str] = []
        line = dom.method(d).line if dom.method(d) else c.node.lineno
        try:
            for a in members:
                for b in members:
                    got = dom.call_op(d, a, b, top)
                    if got is NotImplemented:
                        got = dom.call_op(REFLECT[d], b, a, top)
                    want = MEANING[d](rank[a.fields["name"]], rank[b.fields["name"]])
                    if got is NotImplemented or bool(top.truth(got)) != want:
                        wrong.append(f"{a.fields['name']} {d} {b.fields['name']} -> {got!r}, documented ranking says {want}")
        except Unsupported as e:
            raise AnalysisError(f"Severity.{d}: cannot reduce the operator body over the member domain: {e}")
        if wrong:
            rep.bad("C10.order", f"{SEV}.{d}", "disagrees-with-ranking", f"{len(wrong)} of 36 ordered pairs wrong, e.g. {wrong[0]}", file, line, what=f"{d}: {len(wrong)}/36 pairs wrong")
        else:
            rep.ok("C10.order", f"{SEV}.{d}", "36/36 ordered pairs agree with the documented ranking" + ("" if dom.method(d) else " (inherited/derived)"), f"{file}:{line}")
    return dom


# --------------------------------------------------------------------------- C10.aggregate
def _is_self_attr(e, attr):
    return isinstance(e, ast.Attribute) and e.attr == attr and dotted(e.value) == "self"


def check_aggregate(repo: Repo, rep: Report):
    ar = repo.cls("fickling.analysis.AnalysisResults")
    f = ar.method("severity", "property")
    if f is None:
        raise AnalysisError("AnalysisResults.severity property not found")
    file = f.file
    g = CFG(f.node)
    rets = [n for n in g.stmt_nodes(ast.Return)]
    ok_empty = False
    ok_max = False
    problems: List[str] = []
    for n in rets:
        v = n.ast.value
        if v is None:
            problems.append("bare return")
            continue
        if dotted(v) == "Severity.LIKELY_SAFE":
            # must be under `not self.results` (true edge) or `self.results` false edge / len()==0
            guarded = False
            for d in g.dominators()[n.id]:
                dn = g.nodes[d]
                if dn.kind == "branch":
                    t = dn.ast
                    neg = False
                    while isinstance(t, ast.UnaryOp) and isinstance(t.op, ast.Not):
                        neg = not neg
                        t = t.operand
                    is_results = _is_self_attr(t, "results")
                    c = cmp_normal(dn.ast)
                    if c and isinstance(c[0], ast.Call) and dotted(c[0].func) == "len" and _is_self_attr(c[0].args[0], "results") and isinstance(c[2], ast.Constant) and c[2].value == 0:
                        if (c[1] == "==" and dn.value is True) or (c[1] in ("!=", ">") and dn.value is False):
                            guarded = True
                    if is_results and ((neg and dn.value is True) or (not neg and dn.value is False)):
                        guarded = True
            if guarded:
                ok_empty = True
            else:
                problems.append("returns LIKELY_SAFE on a path not restricted to `no results`")
            continue
        # max(<gen of r.severity for r in self.results>[, default=Severity.LIKELY_SAFE])
        if isinstance(v, ast.Call) and dotted(v.func) == "max" and v.args:
            a0 = v.args[0]
            default = kwarg(v, "default")
            good = False
            if isinstance(a0, (ast.GeneratorExp, ast.ListComp)) and len(a0.generators) == 1:
                gen = a0.generators[0]
                if not gen.ifs and _is_self_attr(gen.iter, "results") and isinstance(gen.target, ast.Name):
                    if isinstance(a0.elt, ast.Attribute) and a0.elt.attr == "severity" and dotted(a0.elt.value) == gen.target.id:
                        good = True
                    else:
                        problems.append(f"max over `{src(a0.elt)}`, not over <finding>.severity")
                else:
                    problems.append(f"max over a filtered / partial view `{src(a0)}`")
            elif isinstance(a0, ast.Call) and dotted(a0.func) == "map" and len(a0.args) == 2 and _is_self_attr(a0.args[1], "results"):
                lam = a0.args[0]
                if isinstance(lam, ast.Lambda) and isinstance(lam.body, ast.Attribute) and lam.body.attr == "severity":
                    good = True
                else:
                    problems.append(f"max over map of `{src(lam)}`")
            else:
                problems.append(f"max over `{src(a0)}` (not all of self.results)")
            if good:
                ok_max = True
                if default is not None:
                    if dotted(default) == "Severity.LIKELY_SAFE":
                        ok_empty = True
                    else:
                        problems.append(f"max default is {src(default)}")
            continue
        problems.append(f"returns `{src(v)}`")
    if not rets:
        raise AnalysisError("AnalysisResults.severity has no return")
    if problems or not (ok_empty and ok_max):
        if not problems:
            problems.append("empty-case" if not ok_empty else "max-case missing")
        recognised_shape = all(("max over" in p or "returns LIKELY_SAFE" in p or "max default" in p or "empty-case" in p or "max-case" in p or p.startswith("returns `")) for p in problems)
        # an aggregate that is not max-of-all is a violation; an unrecognisable *shape* (loops etc.) is undecided
        if any(isinstance(n, (ast.For, ast.While)) for n in body_walk(f.node)):
            raise AnalysisError(f"AnalysisResults.severity uses a loop; aggregate idiom not recognised: {problems}")
        rep.bad("C10.aggregate", f.qualname, "not-max-of-all:" + ";".join(sorted(set(p.split('`')[0].strip() for p in problems))), "; ".join(problems), file, f.line)
    else:
        rep.ok("C10.aggregate", f.qualname, "LIKELY_SAFE iff no findings, else max(r.severity for all r in self.results)", f"{file}:{f.line}")

    # results stored unfiltered
    init = ar.method("__init__")
    if init is None:
        raise AnalysisError("AnalysisResults.__init__ not found")
    stores = [n for n in body_walk(init.node) if isinstance(n, (ast.Assign, ast.AnnAssign)) and _is_self_attr((n.targets[0] if isinstance(n, ast.Assign) else n.target), "results")]
    if len(stores) != 1:
        raise AnalysisError("AnalysisResults.__init__: expected exactly one store to self.results")
    val = stores[0].value
    inner = val.args[0] if isinstance(val, ast.Call) and dotted(val.func) in ("tuple", "list") and len(val.args) == 1 else val
    if isinstance(inner, ast.Name) and inner.id in [a.arg for a in init.node.args.args]:
        rep.ok("C10.aggregate", init.qualname, f"self.results = {src(val)} (every result kept)", f"{file}:{stores[0].lineno}")
    else:
        rep.bad("C10.aggregate", init.qualname, "results-filtered", f"self.results = `{src(val)}` is not the whole `results` argument", file, stores[0].lineno)

    # AnalysisContext.results passes every collected result
    ctx = repo.cls("fickling.analysis.AnalysisContext")
    rp = ctx.method("results", "property")
    if rp is None:
        raise AnalysisError("AnalysisContext.results property not found")
    rets = [n.value for n in body_walk(rp.node) if isinstance(n, ast.Return)]
    collected_attr = None
    if len(rets) == 1 and isinstance(rets[0], ast.Call) and dotted(rets[0].func) == "AnalysisResults":
        rarg = kwarg(rets[0], "results", 1)
        if rarg is not None and isinstance(rarg, ast.Attribute) and dotted(rarg.value) == "self":
            collected_attr = rarg.attr
            rep.ok("C10.aggregate", rp.qualname, f"AnalysisResults(results=self.{collected_attr}) unfiltered", f"{file}:{rp.line}")
        else:
            rep.bad("C10.aggregate", rp.qualname, "results-filtered", f"AnalysisContext.results passes `{src(rarg) if rarg is not None else '?'}`, not the whole collected list", file, rp.line)
    else:
        raise AnalysisError(f"AnalysisContext.results: unrecognised return {[src(r) for r in rets]}")
    # AnalysisContext.analyze extends the collection with every result of the analysis
    an = ctx.method("analyze")
    if an is None:
        raise AnalysisError("AnalysisContext.analyze not found")
    if collected_attr:
        g = CFG(an.node)
        # the name bound from list(analysis.analyze(self))
        res_names = set()
        for n in body_walk(an.node):
            if isinstance(n, ast.Assign) and isinstance(n.value, ast.Call):
                inner = n.value
                if dotted(inner.func) in ("list", "tuple") and inner.args:
                    inner = inner.args[0]
                if isinstance(inner, ast.Call) and isinstance(inner.func, ast.Attribute) and inner.func.attr == "analyze":
                    for t in n.targets:
                        if isinstance(t, ast.Name):
                            res_names.add(t.id)
        ext = []
        for node in g.stmt_nodes(ast.Expr):
            c = node.ast.value
            if isinstance(c, ast.Call) and isinstance(c.func, ast.Attribute) and c.func.attr in ("extend", "__iadd__") and _is_self_attr(c.func.value, collected_attr):
                ext.append((node, c))
        for node in g.stmt_nodes(ast.AugAssign):
            if _is_self_attr(node.ast.target, collected_attr):
                ext.append((node, node.ast))
        good = False
        for node, c in ext:
            arg = c.args[0] if isinstance(c, ast.Call) else c.value
            if isinstance(arg, ast.Name) and arg.id in res_names:
                # allowed guards: only "results non-empty"
                conds = [g.nodes[d] for d in g.dominators()[node.id] if g.nodes[d].kind == "branch"]
                fine = True
                for b in conds:
                    t = b.ast
                    neg = False
                    while isinstance(t, ast.UnaryOp) and isinstance(t.op, ast.Not):
                        neg = not neg
                        t = t.operand
                    if isinstance(t, ast.Name) and t.id in res_names and ((neg and b.value is False) or (not neg and b.value is True)):
                        continue
                    fine = False
                if fine:
                    good = True
        if good:
            rep.ok("C10.aggregate", an.qualname, f"every non-empty result list is appended whole to self.{collected_attr}", f"{file}:{an.line}")
        else:
            rep.bad("C10.aggregate", an.qualname, "results-dropped", f"AnalysisContext.analyze does not extend self.{collected_attr} with all results of the analysis on every path", file, an.line)
    # Analyzer.analyze runs every analysis into one context and returns context.results
    az = repo.cls("fickling.analysis.Analyzer").method("analyze")
    if az is None:
        raise AnalysisError("Analyzer.analyze not found")
    loops = [n for n in body_walk(az.node) if isinstance(n, ast.For)]
    ok_loop = False
    for lp in loops:
        if _is_self_attr(lp.iter, "analyses") and not any(isinstance(x, (ast.Break, ast.Continue, ast.Return, ast.If)) for x in ast.walk(lp)):
            calls = [x for x in ast.walk(lp) if isinstance(x, ast.Call) and isinstance(x.func, ast.Attribute) and x.func.attr == "analyze"]
            if calls:
                ok_loop = True
    rets = [n.value for n in body_walk(az.node) if isinstance(n, ast.Return)]
    ok_ret = len(rets) == 1 and isinstance(rets[0], ast.Attribute) and rets[0].attr == "results"
    if ok_loop and ok_ret:
        rep.ok("C10.aggregate", az.qualname, "unfiltered loop over self.analyses into one context; returns context.results", f"{file}:{az.line}")
    else:
        rep.bad("C10.aggregate", az.qualname, "analyses-filtered" if not ok_loop else "return-not-context-results", f"Analyzer.analyze does not run every analysis unconditionally / return context.results (loop ok={ok_loop}, return ok={ok_ret})", file, az.line)


# --------------------------------------------------------------------------- C10.faces
def _sev_of(e: ast.AST) -> Optional[ast.AST]:
    """If `e` is `<x>.severity`, return <x>."""
    if isinstance(e, ast.Attribute) and e.attr == "severity":
        return e.value
    return None


def _check_safety_call(e: ast.AST) -> bool:
    return isinstance(e, ast.Call) and (dotted(e.func) or "").split(".")[-1] == "check_safety"


def cli_arms(main: FuncInfo) -> Dict[str, ast.If]:
    """Locate the `if args.inject ... elif args.check_safety ... else` chain of cli.main."""
    an = cli_args_name(main.node)
    for n in body_walk(main.node):
        if isinstance(n, ast.If):
            c = cmp_normal(n.test)
            if c and dotted(c[0]) == f"{an}.inject" and c[1] in ("is not", "!="):
                chain = {"inject": n}
                nxt = n.orelse
                if nxt and isinstance(nxt[0], ast.If) and dotted(nxt[0].test) == f"{an}.check_safety" and (len(nxt) == 1 or not nxt[0].orelse):
                    chain["check_safety"] = nxt[0]
                    # `elif check_safety: ...; return` + else  ==  the same arm followed by the else statements
                    chain["decompile_body"] = nxt[0].orelse or nxt[1:]
                    return chain
    raise AnalysisError("cli.main: `if args.inject is not None ... elif args.check_safety ... else` chain not recognised")


def check_faces(repo: Repo, rep: Report, dom: "SevDomain", tier: str = "quick"):
    # --- library verdict
    cs = repo.func("fickling.analysis.check_safety")
    file = cs.file
    rets = [n.value for n in body_walk(cs.node) if isinstance(n, ast.Return)]
    res_name = None
    for n in body_walk(cs.node):
        if isinstance(n, ast.Assign) and isinstance(n.value, ast.Call) and isinstance(n.value.func, ast.Attribute) and n.value.func.attr == "analyze" and len(n.targets) == 1 and isinstance(n.targets[0], ast.Name):
            res_name = n.targets[0].id
            recv = dotted(n.value.func.value)
    if res_name is None:
        raise AnalysisError("check_safety: `results = analyzer.analyze(pickled)` not recognised")
    stores = [n for n in body_walk(cs.node) if isinstance(n, (ast.Assign, ast.AugAssign)) and any(isinstance(t, ast.Name) and t.id == res_name for t in (n.targets if isinstance(n, ast.Assign) else [n.target]))]
    if len(rets) == 1 and isinstance(rets[0], ast.Name) and rets[0].id == res_name and len(stores) == 1:
        rep.ok("C10.faces", cs.qualname, f"returns the AnalysisResults of {recv}.analyze(pickled) unchanged", f"{file}:{cs.line}")
    else:
        rep.bad("C10.faces", cs.qualname, "verdict-not-returned", f"check_safety returns {[src(r) for r in rets]} (expected the single binding `{res_name}`)", file, cs.line)
    # default analyzer = Analyzer.default_instance = Analyzer(Analysis.ALL)
    dflt = [n for n in body_walk(cs.node) if isinstance(n, ast.Assign) and dotted(n.value) == "Analyzer.default_instance"]
    meta = repo.cls("fickling.analysis.AnalyzerMeta").method("default_instance", "property")
    built = meta is not None and any(isinstance(n, ast.Call) and dotted(n.func) == "Analyzer" and len(n.args) == 1 and dotted(n.args[0]) == "Analysis.ALL" for n in body_walk(meta.node))
    if dflt and built:
        rep.ok("C10.faces", "fickling.analysis.AnalyzerMeta.default_instance", "default analyzer = Analyzer(Analysis.ALL), unfiltered", f"{file}:{meta.line}")
    else:
        rep.bad("C10.faces", "fickling.analysis.AnalyzerMeta.default_instance", "default-analyzer", "check_safety's default analyzer is not Analyzer(Analysis.ALL)", file, cs.line)

    # JSON report written from the same results
    dumps = [n for n in body_walk(cs.node) if isinstance(n, ast.Call) and dotted(n.func) in ("json.dump", "json.dumps")]
    todict = [n for n in body_walk(cs.node) if isinstance(n, ast.Assign) and isinstance(n.value, ast.Call) and isinstance(n.value.func, ast.Attribute) and n.value.func.attr == "to_dict" and dotted(n.value.func.value) == res_name]
    if dumps and todict and isinstance(dumps[0].args[0], ast.Name) and dumps[0].args[0].id == todict[0].targets[0].id:
        g = CFG(cs.node)
        dn = g.node_of(dumps[0])
        conds = [g.nodes[d] for d in g.dominators()[dn.id] if g.nodes[d].kind == "branch"]
        bad = [b for b in conds if not (isinstance(b.ast, ast.Name) and b.ast.id == "json_output_path" and b.value is True) and not (cmp_normal(b.ast) and dotted(cmp_normal(b.ast)[0]) == "json_output_path")]
        if bad:
            rep.bad("C10.faces", cs.qualname, "json-conditional", f"the JSON report is written only under `{src(bad[0].ast)}`", file, dn.line)
        else:
            rep.ok("C10.faces", cs.qualname, f"json.dump({res_name}.to_dict(...)) whenever a path is given", f"{file}:{dn.line}")
    else:
        rep.bad("C10.faces", cs.qualname, "json-not-from-results", "the JSON report is not `results.to_dict(...)` of the returned results", file, cs.line)

    # --- to_dict reports self.severity.name
    td = repo.cls("fickling.analysis.AnalysisResults").method("to_dict")
    if td is None:
        raise AnalysisError("AnalysisResults.to_dict not found")
    sev_vals = []
    for n in body_walk(td.node):
        if isinstance(n, ast.Dict):
            for k, v in zip(n.keys, n.values):
                if isinstance(k, ast.Constant) and k.value == "severity":
                    sev_vals.append(v)
        if isinstance(n, ast.Assign) and isinstance(n.targets[0], ast.Subscript) and isinstance(n.targets[0].slice, ast.Constant) and n.targets[0].slice.value == "severity":
            sev_vals.append(n.value)
    if len(sev_vals) == 1 and dotted(sev_vals[0]) in ("self.severity.name",):
        rep.ok("C10.faces", td.qualname, '"severity": self.severity.name', f"{file}:{td.line}")
    elif not sev_vals:
        raise AnalysisError("AnalysisResults.to_dict: no 'severity' key found")
    else:
        rep.bad("C10.faces", td.qualname, "report-severity", f"report 'severity' is `{[src(v) for v in sev_vals]}`, not self.severity.name", file, td.line)

    # --- boolean query
    ils = repo.func("fickling.analysis.is_likely_safe")
    rets = [n.value for n in body_walk(ils.node) if isinstance(n, ast.Return)]
    good = False
    why = ""
    if len(rets) == 1:
        c = cmp_oriented(rets[0], lambda e: _sev_of(e) is not None)
        if c:
            subj = _sev_of(c[0])
            is_cs = _check_safety_call(subj) or (isinstance(subj, ast.Name))
            if dotted(c[2]) == "Severity.LIKELY_SAFE" and c[1] in ("==", "<=", "is") and is_cs:
                good = True
            else:
                why = f"predicate `{src(rets[0])}`"
        else:
            why = f"returns `{src(rets[0])}`"
    if good:
        rep.ok("C10.faces", ils.qualname, f"`{src(rets[0])}`", f"{file}:{ils.line}")
    else:
        rep.bad("C10.faces", ils.qualname, "predicate", f"is_likely_safe is not `check_safety(...).severity == LIKELY_SAFE`: {why}", file, ils.line)

    # --- checked loader (shared with C02) and exception info
    ld = repo.func("fickling.loader.load")
    g = CFG(ld.node)
    tests = [n for n in g.find(lambda n: n.kind == "test")]
    params = ld.params()
    verdict_tests = []
    for t in tests:
        c = cmp_oriented(t.ast, lambda e: _sev_of(e) is not None)
        if c:
            verdict_tests.append((t, c))
    if len(verdict_tests) != 1:
        raise AnalysisError(f"loader.load: expected exactly one branch on <result>.severity, found {len(verdict_tests)}")
    t, (l, op, r) = verdict_tests[0]
    res = dotted(_sev_of(l))
    if op == "<=" and isinstance(r, ast.Name) and r.id in params:
        rep.ok("C10.faces", ld.qualname, f"loads iff `{res}.severity <= {r.id}`", f"{ld.file}:{t.line}")
    else:
        rep.bad("C10.faces", ld.qualname, f"threshold-predicate:{op}", f"checked loader branches on `{src(t.ast)}` (normal form `{res}.severity {op} {src(r)}`), not `severity <= threshold`", ld.file, t.line)
    raises = [n for n in g.stmt_nodes(ast.Raise)]
    ok_raise = False
    for n in raises:
        e = n.ast.exc
        if isinstance(e, ast.Call) and dotted(e.func) == "UnsafeFileError" and len(e.args) >= 2:
            a = e.args[1]
            if isinstance(a, ast.Call) and isinstance(a.func, ast.Attribute) and a.func.attr == "to_dict" and dotted(a.func.value) == res:
                ok_raise = True
    if ok_raise:
        rep.ok("C10.faces", ld.qualname, f"raise UnsafeFileError(_, {res}.to_dict()) of the same result", f"{ld.file}:{ld.line}")
    else:
        rep.bad("C10.faces", ld.qualname, "exception-info", f"UnsafeFileError is not raised with `{res}.to_dict()` of the analysed result", ld.file, ld.line)

    # --- CLI exit status: the --check-safety arm is interpreted over the finite domain of verdict
    # sequences (all 6 and 36 severity assignments for 1 and 2 stacked pickles, {safe, unsafe}^3 for 3),
    # with check_safety() abstracted to "returns an object whose .severity is that pickle's severity".
    main = repo.func("fickling.cli.main")
    arms = cli_arms(main)
    arm = arms["check_safety"]
    cfile = main.file
    stacked = None
    for n in body_walk(main.node):
        if isinstance(n, ast.Assign) and isinstance(n.value, ast.Call) and (dotted(n.value.func) or "").endswith("StackedPickle.load") and isinstance(n.targets[0], ast.Name):
            stacked = n.targets[0].id
    if stacked is None:
        raise AnalysisError("cli.main: binding from StackedPickle.load not found")
    import itertools

    members = dom.members
    safe = dom.by_name["LIKELY_SAFE"]
    reps3 = [safe, dom.by_name["LIKELY_UNSAFE"]]
    cases = [(m,) for m in members] + list(itertools.product(members, repeat=2)) + list(itertools.product(reps3, repeat=3))
    if tier == "thorough":
        cases += list(itertools.product(members, repeat=3)) + list(itertools.product(reps3, repeat=4)) + list(itertools.product(reps3, repeat=5))
        cases = list(dict.fromkeys(cases))
    # the value main() returns becomes the PROCESS exit status, of which only the low 8 bits survive: a status that is a
    # count (or any other unbounded number) wraps to 0 for 256 flagged pickles.  Long all-unsafe stacks decide that.
    unsafe_ = dom.by_name["LIKELY_UNSAFE"]
    cases += [(unsafe_,) * 256, (safe,) + (unsafe_,) * 256]
    if tier == "thorough":
        cases += [(unsafe_,) * 255, (unsafe_,) * 257, (unsafe_,) * 512, (dom.by_name["OVERTLY_MALICIOUS"],) * 256]
    module_consts = {k: ast.literal_eval(v[0]) for k, v in main.module.assigns.items() if len(v) == 1 and isinstance(v[0], ast.Constant)}
    wrong = []
    json_missing = []
    not_all_checked = []
    swallowed = []
    evaluations = 0
    # a report that cannot be written: check_safety writes the JSON report *before* it returns, so an OSError out of it means
    # that pickle's verdict never reached the caller; whatever the CLI does with the error, it must not report success
    fail_cases = [(case, k) for case in cases if len(case) <= 2 for k in range(len(case))]
    for case, fail_at in [(c, None) for c in cases] + fail_cases:
        for print_results in (False, True):
            for json_output in (None, "out.json") if fail_at is None else ("missing-dir/out.json",):
                pickles = [Record("Pickled", {"name": f"p{i}", "sev": sv, "idx": i}) for i, sv in enumerate(case)]
                checked = []

                def hook(name, args, kw, ev, _checked=checked, _fail_at=fail_at):
                    last = name.split(".")[-1]
                    if last == "check_safety":
                        subj = args[0] if args else kw.get("pickled")
                        if not (isinstance(subj, Record) and subj.cls == "Pickled"):
                            raise Unsupported("check_safety called on something that is not a stacked pickle")
                        jp = kw.get("json_output_path", args[3] if len(args) > 3 else None)
                        _checked.append((subj.fields["idx"], jp))
                        if _fail_at is not None and subj.fields["idx"] == _fail_at:
                            raise PyRaise("FileNotFoundError")
                        return Record("AnalysisResults", {"severity": subj.fields["sev"], "results": ()})
                    if last in ("print", "write", "to_string", "to_dict", "flush", "dump", "dumps", "isatty"):
                        return None
                    if last == "len" and args and isinstance(args[0], list):
                        return len(args[0])
                    from ..minieval import _MISSING
                    return _MISSING

                env = {
                    stacked: pickles,
                    cli_args_name(main.node): Record("args", {"print_results": print_results, "json_output": json_output, "check_safety": True, "inject": None, "trace": False, "PICKLE_FILE": "-"}),
                    "sys": Record("sys", {"stderr": Record("file", {}), "stdout": Record("file", {})}),
                    **module_consts,
                }
                ev = dom.evaluator(env, call_hook=hook)
                try:
                    code = ev.run_body(arm.body)
                except Unsupported as e:
                    raise AnalysisError(f"cli.main --check-safety arm: cannot interpret over the verdict domain: {e}")
                except PyRaise as pe:
                    if fail_at is None:
                        raise AnalysisError(f"cli.main --check-safety arm raises {pe.name} over the verdict domain")
                    continue  # the error propagates: a traceback and a non-zero exit status - not a success
                evaluations += 1
                all_safe = all(sv is safe for sv in case)
                if fail_at is not None:
                    zero = code is None or code is False or (isinstance(code, int) and not isinstance(code, bool) and (code & 0xFF) == 0)
                    if zero and case[fail_at] is not safe:
                        swallowed.append((tuple(sv.fields["name"] for sv in case), fail_at))
                    continue
                # what the operating system sees: sys.exit(None/False/0) -> 0, an int -> its low 8 bits
                zero = code is None or code is False or (isinstance(code, int) and not isinstance(code, bool) and (code & 0xFF) == 0)
                if zero != all_safe:
                    wrong.append((tuple(sv.fields["name"] for sv in case), code))
                if sorted(i for i, _ in checked) != list(range(len(case))):
                    not_all_checked.append((tuple(sv.fields["name"] for sv in case), [i for i, _ in checked]))
                if any(not jp for _, jp in checked):
                    json_missing.append(tuple(sv.fields["name"] for sv in case))
    rep.extra["cli_exit_evaluations"] = evaluations
    if wrong:
        ex = wrong[0]
        shown = list(ex[0]) if len(ex[0]) <= 6 else f"{len(ex[0])} stacked pickles, {sum(1 for x in ex[0] if x != 'LIKELY_SAFE')} of them flagged"
        rep.bad("C10.faces", main.qualname, "cli-exit-code", f"--check-safety exit status is not `0 iff every stacked pickle is LIKELY_SAFE`: {len(wrong)} of {evaluations} verdict sequences wrong, e.g. severities {shown} -> main() returns {ex[1]!r}, i.e. process exit status {(ex[1] & 0xFF) if isinstance(ex[1], int) and not isinstance(ex[1], bool) else ex[1]!r}", cfile, arm.lineno, what=f"exit status wrong on {len(wrong)}/{evaluations} verdict sequences")
    else:
        rep.ok("C10.faces", main.qualname, f"--check-safety exit status == 0 iff all stacked pickles LIKELY_SAFE on all {evaluations} verdict sequences x option settings", f"{cfile}:{arm.lineno}")
    if swallowed:
        ex = swallowed[0]
        rep.bad("C10.faces", main.qualname, "cli-verdict-lost-with-report-error", f"when the JSON report of stacked pickle #{ex[1]} (severities {list(ex[0])}) cannot be written, check_safety raises before it returns that pickle's verdict and --check-safety still exits 0: the error is swallowed together with the verdict of a flagged pickle", cfile, arm.lineno)
    if not_all_checked:
        ex = not_all_checked[0]
        rep.bad("C10.faces", main.qualname, "cli-not-all-checked", f"check_safety is not called exactly once per stacked pickle: for severities {list(ex[0])} it ran on indices {ex[1]}", cfile, arm.lineno)
    else:
        rep.ok("C10.faces", main.qualname, "check_safety runs exactly once on every stacked pickle", f"{cfile}:{arm.lineno}")
    if json_missing:
        rep.bad("C10.faces", main.qualname, "cli-json-missing", f"check_safety is called without a JSON output path for some pickle (e.g. severities {list(json_missing[0])})", cfile, arm.lineno)
    else:
        rep.ok("C10.faces", main.qualname, "a JSON report path is passed for every pickle", f"{cfile}:{arm.lineno}")


def run(rep: Report, tier: str):
    repo = load_repo()
    rep.explanation = (
        "Severity operators reduced by a pure-expression evaluator over the 6 members read from the "
        "enum body (36 ordered pairs x 6 operators, exhaustive); aggregate and every consumer face "
        "matched structurally (CFG dominance + comparison normal forms) against the required predicate."
    )
    rep.exhaustive = True
    rep.rule("C10.order", "Severity ranks follow the documented order and every comparison operator equals its meaning on all 36 pairs", 7)
    rep.rule("C10.aggregate", "severity = LIKELY_SAFE iff no findings else max over all findings; no finding is dropped between an analysis and the aggregate", 5)
    rep.rule("C10.faces", "each face reads <AnalysisResults>.severity with the required predicate", 9)
    rep.units = {"modules": ["fickling/analysis.py", "fickling/loader.py", "fickling/cli.py"]}
    rep.assume("comparisons are only ever between Severity members (isinstance(other, Severity) holds)")
    dom = check_order(repo, rep)
    check_aggregate(repo, rep)
    check_faces(repo, rep, dom, tier)

    # value level, interpreted last: the command-line face on stacks of real pickles against the library face
    from ..cliworlds import explore_safety as _cli_safety

    rep.rule("C10.faces-worlds", "on stacks of real pickles of every verdict class: the CLI's exit status is 0 iff every library verdict is LIKELY_SAFE, and its JSON report names exactly the library's severities, pickle by pickle", 1)
    found, n_worlds = _cli_safety(repo, tier)
    mainf = repo.func("fickling.cli.main")
    for key, (c, msg) in sorted(found.items()):
        rep.bad("C10.faces-worlds", mainf.qualname, key, f"{msg} [{c} world(s)]", mainf.file, mainf.line)
    # the checked loader's face, on the same pickles one by one: it raises exactly when the verdict is above LIKELY_SAFE
    from .. import loadworlds as _lw
    from ..cliworlds import _verdict_pickles
    from ..minieval import Unsupported as _Uns

    n_loader = 0
    for label, data in _verdict_pickles():
        for arming in ("checked loader", "global hook"):
            try:
                devs = _lw.run_world(repo, label, data, "LIKELY_SAFE", arming, "in-memory")
            except _Uns as e:
                raise AnalysisError(f"C10 loader face: cannot interpret the {arming} over {label}: {e}")
            n_loader += 1
            for key, msg in devs:
                if key.startswith(("loaded-above-threshold", "refused-below-threshold")):
                    rep.bad("C10.faces-worlds", "fickling.loader.load", "loader-face-disagrees:" + key.split(":")[0], f"{msg} - the library verdict and the loader disagree about the same bytes", "fickling/loader.py", 1)
    rep.ok("C10.faces-worlds", mainf.qualname, f"{n_loader} loader worlds (each verdict pickle through fickling.load and the hooked pickle.load: raises iff the verdict is above LIKELY_SAFE); {n_worlds} worlds (stacks of 1-3 pickles drawn from five verdict classes, with and without --print-results): cli.main --check-safety interpreted end to end, its exit status and the JSON documents it appends compared with check_safety(<each pickle>).severity computed by the same interpreted analyses", "", nontrivial=True)

