"""C11 -- user allowlist additions do not outlive or leak beyond their activation.

Ownership rule over two abstract locations of the built-in table: the outer dict `ML_ALLOWLIST` and
its inner per-module dicts `ML_ALLOWLIST.*`.

* C11.no-write-through  no store / mutating call reaches a location shared with ML_ALLOWLIST (or shared between
                        unpickler instances): every alias is classified by the depth of the copy it was made
                        with, and every write by the depth it writes at.
* C11.no-accumulator    hook.py / ml.py keep additions only in the closure / the instance: no function writes a
                        module global, a class attribute or a shared default-argument object.
* C11.per-activation    the hooks installed by an activation are closures created by that call and read that
                        call's `also_allow` parameter.
"""

from __future__ import annotations

import ast
from typing import Dict, List, Optional, Set, Tuple

from ..model import ClassInfo, FuncInfo, Repo, dotted, load_repo
from ..report import AnalysisError, Report
from ..util import MUTATORS, base_of, body_walk, src, store_targets

TABLE = "ML_ALLOWLIST"
SHARED, FRESH = "shared", "fresh"
SKIP_SEQUENCE_WORLDS = False  # set by C07, which runs the exploration itself
TABLE_INNER_SHARED: List[str] = []  # names bound to more than one key of the table literal (filled by run())


def copy_depth(e: ast.AST, aliases: Dict[str, Tuple[str, str]]) -> Optional[Tuple[str, str]]:
    """(outer, inner) sharing of the value `e` w.r.t. the protected table; None if unrelated."""
    d = dotted(e)
    if d in aliases:
        return aliases[d]
    if isinstance(e, ast.Call):
        fn = dotted(e.func) or ""
        if fn in ("dict", "copy.copy", "types.MappingProxyType", "collections.OrderedDict", "OrderedDict") and e.args:
            inner = copy_depth(e.args[0], aliases)
            if inner is not None:
                return (FRESH, inner[1]) if fn != "types.MappingProxyType" else (FRESH, inner[1])
        if fn in ("copy.deepcopy", "deepcopy") and e.args:
            inner = copy_depth(e.args[0], aliases)
            if inner is not None:
                # deepcopy keeps the sharing structure of what it copies: two keys bound to one inner dict in the table
                # are bound to one (new) inner dict in the copy
                return (FRESH, "aliased-inner" if TABLE_INNER_SHARED and inner[1] != FRESH else FRESH)
        if isinstance(e.func, ast.Attribute) and e.func.attr == "copy" and not e.args:
            inner = copy_depth(e.func.value, aliases)
            if inner is not None:
                return (FRESH, inner[1])
    if isinstance(e, ast.Dict) and any(k is None for k in e.keys):
        for k, v in zip(e.keys, e.values):
            if k is None:
                inner = copy_depth(v, aliases)
                if inner is not None:
                    return (FRESH, inner[1])
    if isinstance(e, ast.DictComp) and len(e.generators) == 1:
        g = e.generators[0]
        it = g.iter
        if isinstance(it, ast.Call) and isinstance(it.func, ast.Attribute) and it.func.attr == "items":
            src_d = copy_depth(it.func.value, aliases)
            if src_d is not None:
                # value expression copies the inner dict?
                tv = g.target.elts[1].id if isinstance(g.target, ast.Tuple) and len(g.target.elts) == 2 and isinstance(g.target.elts[1], ast.Name) else None
                v = e.value
                fresh_inner = False
                if tv:
                    if isinstance(v, ast.Call) and (dotted(v.func) in ("dict", "copy.copy", "copy.deepcopy") and v.args and dotted(v.args[0]) == tv):
                        fresh_inner = True
                    if isinstance(v, ast.Call) and isinstance(v.func, ast.Attribute) and v.func.attr == "copy" and dotted(v.func.value) == tv:
                        fresh_inner = True
                    if isinstance(v, ast.Dict) and any(k is None and dotted(x) == tv for k, x in zip(v.keys, v.values)):
                        fresh_inner = True
                    if isinstance(v, ast.DictComp):
                        fresh_inner = True
                return (FRESH, FRESH if fresh_inner else src_d[1])
    return None


def writes_in(fn: FuncInfo, aliases: Dict[str, Tuple[str, str]]):
    """(depth 'outer'|'inner', alias, node, text) for every write through an alias in fn."""
    out = []
    for n in body_walk(fn.node):
        if isinstance(n, (ast.Assign, ast.AugAssign, ast.Delete, ast.AnnAssign)):
            for t in store_targets(n):
                depth = 0
                b = t
                while isinstance(b, ast.Subscript):
                    depth += 1
                    b = b.value
                d = dotted(b)
                # `x |= {...}` / `x += [...]` updates the object x refers to IN PLACE (dict.__ior__, list.__iadd__): it is a
                # write one level below the target expression
                if isinstance(n, ast.AugAssign) and isinstance(n.op, (ast.BitOr, ast.Add)) and d in aliases:
                    depth += 1
                if d in aliases and depth >= 1:
                    out.append(("outer" if depth == 1 else "inner", d, n, src(t)))
        if isinstance(n, ast.Call) and isinstance(n.func, ast.Attribute) and n.func.attr in MUTATORS:
            recv = n.func.value
            depth = 0
            b = recv
            while isinstance(b, ast.Subscript) or (isinstance(b, ast.Call) and isinstance(b.func, ast.Attribute) and b.func.attr in ("get", "setdefault", "__getitem__")):
                depth += 1
                b = b.value if isinstance(b, ast.Subscript) else b.func.value
            d = dotted(b)
            if d in aliases:
                out.append(("outer" if depth == 0 else "inner", d, n, src(n)))
        # X.setdefault(m, {})[n] = ... handled as Subscript over a Call
        if isinstance(n, (ast.Assign, ast.AugAssign)):
            for t in store_targets(n):
                if isinstance(t, ast.Subscript) and isinstance(t.value, ast.Call) and isinstance(t.value.func, ast.Attribute) and t.value.func.attr in ("get", "setdefault"):
                    d = dotted(t.value.func.value)
                    if d in aliases:
                        out.append(("inner", d, n, src(t)))
    return out


def local_aliases(f: FuncInfo, base: Dict[str, Tuple[str, str]]) -> Dict[str, Tuple[str, str]]:
    """Aliases visible in f: `base` plus local names bound to (copies of) the table or to one of its inner dicts."""
    loc = dict(base)
    for n in body_walk(f.node):
        if isinstance(n, ast.Assign):
            for t in n.targets:
                if isinstance(t, ast.Name):
                    cd = copy_depth(n.value, loc)
                    if cd is not None:
                        loc[t.id] = cd
                    else:
                        sh = inner_share_of_value(n.value, loc)
                        if sh is not None:
                            # x = alias[k] / alias.get(k): x IS an inner dict
                            loc[t.id] = (sh, "leaf")
        if isinstance(n, (ast.For, ast.comprehension)):
            it = n.iter
            if isinstance(it, ast.Call) and isinstance(it.func, ast.Attribute) and it.func.attr in ("items", "values") and dotted(it.func.value) in loc:
                sh = loc[dotted(it.func.value)][1]
                tv = None
                if it.func.attr == "values" and isinstance(n.target, ast.Name):
                    tv = n.target.id
                if it.func.attr == "items" and isinstance(n.target, ast.Tuple) and len(n.target.elts) == 2 and isinstance(n.target.elts[1], ast.Name):
                    tv = n.target.elts[1].id
                if tv and sh != "leaf":
                    loc[tv] = (sh, "leaf")
    return loc


def inner_share_of_value(v: ast.AST, loc: Dict[str, Tuple[str, str]]) -> Optional[str]:
    """If the expression `v` evaluates to one of an alias's INNER dicts (not a copy of it), that dict's sharing."""
    if isinstance(v, ast.Subscript) and dotted(v.value) in loc and loc[dotted(v.value)][1] != "leaf":
        return loc[dotted(v.value)][1]
    if isinstance(v, ast.Call) and isinstance(v.func, ast.Attribute) and v.func.attr in ("get", "setdefault", "pop", "__getitem__") and dotted(v.func.value) in loc and loc[dotted(v.func.value)][1] != "leaf":
        return loc[dotted(v.func.value)][1]
    if isinstance(v, ast.Name) and v.id in loc and loc[v.id][1] == "leaf":
        return loc[v.id][0]
    if isinstance(v, ast.IfExp):
        a, b = inner_share_of_value(v.body, loc), inner_share_of_value(v.orelse, loc)
        return SHARED if SHARED in (a, b) else (a or b)
    if isinstance(v, ast.BoolOp):
        xs = [inner_share_of_value(x, loc) for x in v.values]
        return SHARED if SHARED in xs else next((x for x in xs if x), None)
    return None


def inner_taints(f: FuncInfo, loc: Dict[str, Tuple[str, str]]):
    """(alias, share, node, text): stores that put an existing inner dict INTO the outer level of an alias.  After
    such a store the alias's inner level is (at least partly) that dict: a later inner write reaches it."""
    out = []
    for n in body_walk(f.node):
        if isinstance(n, (ast.Assign, ast.AnnAssign)) and n.value is not None:
            for t in store_targets(n):
                if isinstance(t, ast.Subscript) and dotted(t.value) in loc and loc[dotted(t.value)][1] != "leaf":
                    sh = inner_share_of_value(n.value, loc)
                    if sh is not None:
                        out.append((dotted(t.value), sh, n, src(n)))
        if isinstance(n, ast.Call) and isinstance(n.func, ast.Attribute) and dotted(n.func.value) in loc and loc[dotted(n.func.value)][1] != "leaf":
            d = dotted(n.func.value)
            vals: List[ast.AST] = []
            whole: List[ast.AST] = []
            if n.func.attr == "setdefault" and len(n.args) == 2:
                vals.append(n.args[1])
            if n.func.attr == "update":
                for a in n.args:
                    if isinstance(a, ast.Dict):
                        vals.extend(x for k, x in zip(a.keys, a.values) if k is not None)
                        whole.extend(x for k, x in zip(a.keys, a.values) if k is None)
                    else:
                        whole.append(a)
                vals.extend(k.value for k in n.keywords if k.arg is not None)
                whole.extend(k.value for k in n.keywords if k.arg is None)
            for v in vals:
                sh = inner_share_of_value(v, loc)
                if sh is not None:
                    out.append((d, sh, n, src(n)))
            for w in whole:
                # alias.update(other_table): the inner dicts of other_table become inner dicts of alias
                cd = copy_depth(w, loc)
                if cd is not None and cd[1] != FRESH:
                    out.append((d, cd[1], n, src(n)))
    return out


def run(rep: Report, tier: str):
    repo = load_repo()
    rep.explanation = (
        "Points-to over two abstract locations per nested dict (outer table, inner per-module dicts): every alias of "
        "ML_ALLOWLIST is classified by the depth of the copy that created it and by its lifetime (module / class / "
        "instance / local), every write by the depth it writes at; plus an effect scan of hook.py and ml.py for writes to "
        "module globals, class attributes and shared defaults."
    )
    rep.rule("C11.sequence-worlds", "after every operation sequence the permitted globals are exactly built-in + current additions; table untouched", 0 if SKIP_SEQUENCE_WORLDS else 1)
    rep.rule("C11.no-write-through", "no write reaches the built-in table, its inner dicts, or any allowlist object shared between instances/activations", 3)
    rep.rule("C11.no-accumulator", "no function of hook.py/ml.py writes a module global, class attribute or shared default", 2)
    rep.rule("C11.per-activation", "installed hooks are closures of this activation reading its own also_allow", 2)
    ml = repo.module("fickling.ml")
    hook = repo.module("fickling.hook")
    if TABLE not in ml.assigns or not isinstance(ml.assigns[TABLE][0], ast.Dict):
        raise AnalysisError("fickling.ml.ML_ALLOWLIST dict literal not found")
    table = ml.assigns[TABLE][0]
    inner_n = sum(1 for v in table.values if isinstance(v, ast.Dict))
    TABLE_INNER_SHARED.clear()
    seen_names: Dict[str, int] = {}
    for v in table.values:
        d = dotted(v)
        if d:
            seen_names[d] = seen_names.get(d, 0) + 1
    TABLE_INNER_SHARED.extend(sorted(k for k, n in seen_names.items() if n > 1))
    if TABLE_INNER_SHARED:
        rep.info(f"the table binds one inner dict object to several module keys: {TABLE_INNER_SHARED}")
    rep.units = {"ML_ALLOWLIST_modules": len(table.keys), "inner_dict_literals": inner_n}
    if len(ml.assigns[TABLE]) != 1:
        rep.bad("C11.no-write-through", "fickling.ml.ML_ALLOWLIST", "table-reassigned", "ML_ALLOWLIST is assigned more than once at module level", "fickling/ml.py", 1)

    # ---- aliases: module level, class level, instance level, local
    n_writes = 0
    for m in repo.modules.values():
        imported = {a for a, q in m.imports.items() if q == f"fickling.ml.{TABLE}"}
        base_names = set(imported) | ({TABLE} if m is ml else set())
        # module-qualified access: ml.ML_ALLOWLIST / fickling.ml.ML_ALLOWLIST
        for a, q in m.imports.items():
            if q == "fickling.ml":
                base_names.add(f"{a}.{TABLE}")
        if not base_names and m is not ml:
            continue
        mod_aliases: Dict[str, Tuple[str, str]] = {b: (SHARED, SHARED) for b in base_names}
        lifetime: Dict[str, str] = {b: "module" for b in base_names}
        # module-level aliases
        for name, vals in m.assigns.items():
            for v in vals:
                cd = copy_depth(v, mod_aliases) if name != TABLE else None
                if cd is not None:
                    mod_aliases[name] = cd
                    lifetime[name] = "module"
        for c in m.classes.values():
            cls_aliases = dict(mod_aliases)
            cls_life = dict(lifetime)
            for attr, v in c.attrs.items():
                cd = copy_depth(v, mod_aliases)
                if cd is not None:
                    # a class-level object is shared by every instance: both levels are shared between unpicklers
                    cls_aliases[f"self.{attr}"] = (SHARED, SHARED if cd[1] == SHARED else "class-shared")
                    cls_aliases[f"self.{attr}"] = ("class-shared", cd[1] if cd[1] == SHARED else "class-shared")
                    cls_aliases[f"cls.{attr}"] = cls_aliases[f"self.{attr}"]
                    cls_aliases[f"{c.name}.{attr}"] = cls_aliases[f"self.{attr}"]
                    cls_life[f"self.{attr}"] = "class"
            # instance attributes assigned in any method
            inst: Dict[str, Tuple[str, str]] = {}
            tainted: Dict[str, tuple] = {}
            for name, fs in c.methods.items():
                for f in fs:
                    for n in body_walk(f.node):
                        if isinstance(n, (ast.Assign, ast.AnnAssign)) and n.value is not None:
                            for t in store_targets(n):
                                d = dotted(t)
                                if d and d.startswith("self.") and d.count(".") == 1:
                                    cd = copy_depth(n.value, {**cls_aliases, **inst})
                                    if cd is not None:
                                        inst[d] = cd
                                        cls_life[d] = "instance"
                                        rep.ok("C11.no-write-through", f.qualname, f"alias {d} = {src(n.value)} -> outer {cd[0]}, inner {cd[1]}", f"{f.file}:{n.lineno}")
            allal = {**cls_aliases, **inst}
            # stores that put a shared inner dict into a (fresh) instance-level table make that table's inner level shared
            for name, fs in c.methods.items():
                for f in fs:
                    for alias, sh, node, text in inner_taints(f, local_aliases(f, allal)):
                        if alias in allal and sh in (SHARED, "class-shared") and allal[alias][1] == FRESH:
                            allal[alias] = (allal[alias][0], sh)
                            tainted[alias] = (f, node, text)
            for name, fs in c.methods.items():
                for f in fs:
                    # local aliases
                    loc = local_aliases(f, allal)
                    for depth, alias, node, text in writes_in(f, loc):
                        n_writes += 1
                        share = loc[alias][0] if depth == "outer" else loc[alias][1]
                        if share == "aliased-inner":
                            rep.bad("C11.no-write-through", f.qualname, f"{depth}-write-to-aliased-inner:{alias}", f"`{text}` writes one inner dict of `{alias}`, a deepcopy of a table in which several module keys are bound to the same inner dict object ({TABLE_INNER_SHARED}): deepcopy preserves that sharing, so an addition to one of those modules is also in force for the others, which were never passed", f.file, node.lineno)
                            continue
                        if share in (SHARED, "class-shared"):
                            what = "the built-in ML_ALLOWLIST" if share == SHARED else "an allowlist object shared by all unpickler instances (class attribute)"
                            how = f"alias created with a {'shallow' if loc[alias][0] == FRESH else 'non-'}copy"
                            if alias in tainted and depth == "inner":
                                tf, tn, tt = tainted[alias]
                                how = f"`{tt}` at {tf.file}:{tn.lineno} stores one of the built-in table's own inner dicts into it"
                            rep.bad(
                                "C11.no-write-through",
                                f.qualname,
                                f"{depth}-write-to-{share}:{alias}",
                                f"`{text}` writes the {depth} level of `{alias}`, which is {what} ({how}): the addition outlives this unpickler / activation and is also seen by the MLAllowlist analysis",
                                f.file,
                                node.lineno,
                            )
                        else:
                            rep.ok("C11.no-write-through", f.qualname, f"`{text}` writes a per-instance {depth} dict", f"{f.file}:{node.lineno}")
        # module-level functions
        for f in m.functions.values():
            loc = local_aliases(f, mod_aliases)
            for alias, sh, node, text in inner_taints(f, loc):
                if sh == SHARED and loc[alias][1] == FRESH:
                    loc[alias] = (loc[alias][0], SHARED)
            for depth, alias, node, text in writes_in(f, loc):
                n_writes += 1
                share = loc[alias][0] if depth == "outer" else loc[alias][1]
                if share == SHARED:
                    rep.bad("C11.no-write-through", f.qualname, f"{depth}-write-to-shared:{alias}", f"`{text}` writes the built-in ML_ALLOWLIST ({depth} level)", f.file, node.lineno)
    rep.ok("C11.no-write-through", "fickling/*", f"{len(repo.modules)} modules scanned for aliases of ML_ALLOWLIST; {n_writes} write(s) through aliases classified", "")

    # ---- C11.no-accumulator
    n_funcs = 0
    for m in (ml, hook):
        module_names = set(m.assigns) | set(m.imports)
        for f in [x for x in repo.functions.values() if x.module is m and x.kind != "module"]:
            n_funcs += 1
            globs = {g for n in body_walk(f.node) if isinstance(n, (ast.Global,)) for g in n.names}
            nonloc = {g for n in body_walk(f.node) if isinstance(n, ast.Nonlocal) for g in n.names}
            params = set(f.params())
            local_assigned = {x.id for n in body_walk(f.node) if isinstance(n, (ast.Assign, ast.AnnAssign, ast.AugAssign, ast.For)) for t in store_targets(n) for x in [t] if isinstance(x, ast.Name)}
            for n in body_walk(f.node):
                if isinstance(n, (ast.Assign, ast.AugAssign, ast.AnnAssign, ast.Delete)):
                    for t in store_targets(n):
                        if isinstance(t, ast.Name) and t.id in globs | nonloc:
                            rep.bad("C11.no-accumulator", f.qualname, f"global-write:{t.id}", f"`{src(n)}` stores into the {'module-level' if t.id in globs else 'enclosing'} name `{t.id}`: state that survives this activation / instance", f.file, n.lineno)
                        b = base_of(t)
                        d = dotted(b) or ""
                        root = d.split(".")[0]
                        if d and root in module_names and root not in params and root not in local_assigned and root not in ("pickle", "_pickle") and (isinstance(t, ast.Subscript) or "." in d):
                            rep.bad("C11.no-accumulator", f.qualname, f"module-object-write:{d}", f"`{src(n)}` writes into the module-level object `{d}`", f.file, n.lineno)
                        if d and (root == "cls" or d.startswith("self.__class__") or (f.cls is not None and root == f.cls.name) or d.startswith("type(self)")):
                            rep.bad("C11.no-accumulator", f.qualname, f"class-attr-write:{d}", f"`{src(n)}` writes a class attribute: shared by every unpickler / activation", f.file, n.lineno)
                        aug_inplace = isinstance(n, ast.AugAssign) and isinstance(t, ast.Attribute) and d.count(".") == 1
                        if f.cls is not None and d.startswith("self.") and (isinstance(t, ast.Subscript) or aug_inplace):
                            attr = d.split(".")[1]
                            found = repo.find_attr(f.cls, attr)
                            inst_assigned = any(
                                isinstance(x, (ast.Assign, ast.AnnAssign)) and any(dotted(tt) == f"self.{attr}" for tt in store_targets(x))
                                for fs in f.cls.methods.values() for ff in fs for x in body_walk(ff.node)
                            )
                            if aug_inplace:
                                # `self.x += [...]` on a class-level list extends the class's own list in place (and
                                # then binds the same object on the instance): the plain Assign forms that would make it
                                # per-instance must come from somewhere else than this very statement
                                inst_assigned = any(
                                    isinstance(x, (ast.Assign, ast.AnnAssign)) and any(dotted(tt) == f"self.{attr}" for tt in store_targets(x))
                                    for fs in f.cls.methods.values() for ff in fs for x in body_walk(ff.node)
                                )
                                mutable_cls = found is not None and (isinstance(found[1], (ast.List, ast.Dict, ast.Set)) or (isinstance(found[1], ast.Call) and dotted(found[1].func) in ("list", "dict", "set", "collections.defaultdict", "defaultdict")))
                                if not mutable_cls:
                                    continue
                            if found is not None and not inst_assigned:
                                rep.bad("C11.no-accumulator", f.qualname, f"class-attr-mutation:self.{attr}", f"`{src(n)}` mutates `{attr}`, a class-level object reached through self: shared by every instance", f.file, n.lineno)
                if isinstance(n, ast.Call) and isinstance(n.func, ast.Attribute) and n.func.attr in MUTATORS:
                    d = dotted(base_of(n.func.value)) or ""
                    root = d.split(".")[0]
                    if d and root in module_names and root not in params and root not in local_assigned and root not in ("pickle", "_pickle", "self"):
                        rep.bad("C11.no-accumulator", f.qualname, f"module-object-mutation:{d}", f"`{src(n)}` mutates the module-level object `{d}`", f.file, n.lineno)
                    if f.cls is not None and d.startswith("self.") and d.count(".") == 1:
                        attr = d.split(".")[1]
                        found = repo.find_attr(f.cls, attr)
                        inst_assigned = any(
                            isinstance(x, (ast.Assign, ast.AnnAssign)) and any(dotted(tt) == f"self.{attr}" for tt in store_targets(x))
                            for fs in f.cls.methods.values() for ff in fs for x in body_walk(ff.node)
                        )
                        if found is not None and not inst_assigned:
                            rep.bad("C11.no-accumulator", f.qualname, f"class-attr-mutation:self.{attr}", f"`{src(n)}` mutates `{attr}`, a class-level object reached through self", f.file, n.lineno)
            # mutable defaults that are stored or mutated
            a = f.node.args if hasattr(f.node, "args") else None
            if a is not None and f.kind != "lambda":
                pos = a.posonlyargs + a.args
                pairs = list(zip(pos[len(pos) - len(a.defaults):], a.defaults)) + [(k, d) for k, d in zip(a.kwonlyargs, a.kw_defaults) if d is not None]
                for arg, d in pairs:
                    if isinstance(d, (ast.List, ast.Dict, ast.Set)) or (isinstance(d, ast.Call) and dotted(d.func) in ("list", "dict", "set")):
                        used_mut = any(isinstance(x, ast.Call) and isinstance(x.func, ast.Attribute) and x.func.attr in MUTATORS and dotted(x.func.value) == arg.arg for x in body_walk(f.node))
                        stored = any(isinstance(x, ast.Assign) and isinstance(x.value, ast.Name) and x.value.id == arg.arg and any(not isinstance(t, ast.Name) for t in x.targets) for x in body_walk(f.node))
                        if used_mut or stored:
                            rep.bad("C11.no-accumulator", f.qualname, f"mutable-default:{arg.arg}", f"parameter `{arg.arg}={src(d)}` is a mutable default that is stored/mutated: additions accumulate across activations", f.file, f.line)
    rep.ok("C11.no-accumulator", "fickling/{ml,hook}.py", f"{n_funcs} functions scanned for writes to module globals / class attributes / shared defaults", "")
    # class-level mutable objects in the unpickler class (would be shared): only constants allowed
    up = repo.cls("fickling.ml.FicklingMLUnpickler")
    for attr, v in up.attrs.items():
        if isinstance(v, (ast.Dict, ast.List, ast.Set)) or (isinstance(v, ast.Call) and (dotted(v.func) or "") in ("dict", "list", "set", "defaultdict", "collections.defaultdict")):
            mutated = any(
                (isinstance(x, ast.Call) and isinstance(x.func, ast.Attribute) and x.func.attr in MUTATORS and (dotted(base_of(x.func.value)) or "").endswith("." + attr))
                or (isinstance(x, (ast.Assign, ast.AugAssign)) and any(isinstance(t, ast.Subscript) and (dotted(base_of(t)) or "").endswith("." + attr) for t in store_targets(x)))
                for fs in up.methods.values() for ff in fs for x in body_walk(ff.node)
            )
            if mutated:
                rep.bad("C11.no-accumulator", up.qualname, f"class-level-mutable:{attr}", f"`{attr} = {src(v)}` is a class-level mutable object that methods write to: one object for all unpickler instances and activations", up.module.relpath, up.node.lineno)
    rep.ok("C11.no-accumulator", up.qualname, "no class-level mutable object is written by its methods", f"{up.module.relpath}:{up.node.lineno}")

    # ---- C11.per-activation
    act = repo.func("fickling.hook.activate_safe_ml_environment")
    nested = {f.name: f for f in repo.nested_of(act)}
    if "also_allow" not in act.params():
        raise AnalysisError("activate_safe_ml_environment has no also_allow parameter")
    reassigned = [n for n in body_walk(act.node) if isinstance(n, (ast.Assign, ast.AugAssign)) and any(isinstance(t, ast.Name) and t.id == "also_allow" for t in store_targets(n))]
    for f in nested.values():
        ctor = [n for n in body_walk(f.node) if isinstance(n, ast.Call) and (repo.resolve_expr(f.module, n.func, set(f.params())) or "") == "fickling.ml.FicklingMLUnpickler"]
        for c in ctor:
            kw = next((k.value for k in c.keywords if k.arg == "also_allow"), None)
            if isinstance(kw, ast.Name) and kw.id == "also_allow" and "also_allow" not in f.params() and not reassigned:
                rep.ok("C11.per-activation", f.qualname, "FicklingMLUnpickler(..., also_allow=<this activation's parameter>)", f"{f.file}:{c.lineno}")
            else:
                rep.bad("C11.per-activation", f.qualname, "additions-not-from-activation", f"the installed hook passes also_allow=`{src(kw) if kw is not None else None}`, which is not (only) the parameter of the activation that installed it", f.file, c.lineno)
        if not ctor:
            rep.bad("C11.per-activation", f.qualname, "no-unpickler", "installed hook does not construct FicklingMLUnpickler", f.file, f.line)
    # FicklingMLUnpickler.__init__ uses its also_allow only for this instance
    init = up.method("__init__")
    if init is None:
        raise AnalysisError("FicklingMLUnpickler.__init__ not found")
    esc = [n for n in body_walk(init.node) if isinstance(n, ast.Assign) and isinstance(n.value, ast.Name) and n.value.id == "also_allow" and any(not (dotted(t) or "").startswith("self.") for t in n.targets)]
    if esc:
        rep.bad("C11.per-activation", init.qualname, "additions-escape", f"`{src(esc[0])}` stores the additions outside the instance", init.file, esc[0].lineno)
    else:
        rep.ok("C11.per-activation", init.qualname, "also_allow is only folded into this instance's allowlist", f"{init.file}:{init.line}")
    # interpreted last: the structural rules above stand on their own if a sequence cannot be interpreted
    from ..envworlds import C11_KEYS, report_sequence_worlds

    if not SKIP_SEQUENCE_WORLDS:
        report_sequence_worlds(repo, rep, "C11.sequence-worlds", tier, C11_KEYS, nested=False)
