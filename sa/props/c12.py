"""C12 -- hook lifecycle: protection holds while armed and is restored exactly on exit.

Typestate over the bindings pickle.load / pickle.loads / _pickle.load / _pickle.loads: for every lifecycle
operation the (transitive) write set W and the source of each written value are computed from the source.

* C12.remove-complete             everything any arming operation can rebind is restored by remove_hook, from a
                                  module-level name captured exactly once at import from that binding (or its
                                  accelerator twin, a fact checked in Lib/pickle.py).
* C12.exit-unconditional          __exit__ restores on every path and cannot swallow the exception.
* C12.ctx-restores-what-it-clobbers   W(__enter__) is within what the context manager saved and restores.
* C12.ctx-restores-what-can-change    every binding any lifecycle operation may change while a context is open is
                                  saved on entry and restored on exit (else a protection is left behind / dropped).
* C12.armed-means-checked         every value an arming operation binds is a checker (C02 / C07).
* C12.nested-protection           the checked loader performs its real load through the hooked entry point
                                  pickle.loads, so an enclosing safe-ML environment still mediates it.
* C12.single-owner                only hook.py / context.py rebind the pickle module's entry points.
"""

from __future__ import annotations

import ast
import sysconfig
from pathlib import Path
from typing import Dict, List, Optional, Set, Tuple

from ..cfg import CFG
from ..model import FuncInfo, Repo, dotted, load_repo
from ..report import AnalysisError, Report
from ..util import body_walk, src, store_targets, walk_no_nested
from .c02 import is_checked_loader, unpickler_calls

BINDINGS = ["pickle.load", "pickle.loads", "_pickle.load", "_pickle.loads"]
TWIN = {"pickle.load": "_pickle.load", "_pickle.load": "pickle.load", "pickle.loads": "_pickle.loads", "_pickle.loads": "pickle.loads"}
ENTRY_ATTRS = {"load", "loads", "Unpickler", "_Unpickler", "_load", "_loads"}


def binding_stores(fn: FuncInfo) -> List[Tuple[str, ast.AST, ast.stmt]]:
    """(binding, value expression, statement) for each store to a pickle-module entry point in fn's own body.  The pickle
    module is recognised through whatever name it was imported under (module-level or function-local import)."""
    alias = {"pickle": "pickle", "_pickle": "_pickle"}
    for a, q in fn.module.imports.items():
        if q in ("pickle", "_pickle"):
            alias[a] = q
    for n in ast.walk(fn.node):
        if isinstance(n, ast.Import):
            for al in n.names:
                if al.name in ("pickle", "_pickle"):
                    alias[al.asname or al.name] = al.name

    def canon(d: Optional[str]) -> Optional[str]:
        if not d:
            return None
        parts = d.split(".")
        if parts[0] in alias and len(parts) == 2 and parts[1] in ENTRY_ATTRS:
            return f"{alias[parts[0]]}.{parts[1]}"
        return None

    out = []
    for n in body_walk(fn.node):
        if isinstance(n, ast.Assign):
            for t in n.targets:
                if isinstance(t, (ast.Tuple, ast.List)) and isinstance(n.value, (ast.Tuple, ast.List)) and len(t.elts) == len(n.value.elts):
                    for te, ve in zip(t.elts, n.value.elts):
                        d = canon(dotted(te))
                        if d:
                            out.append((d, ve, n))
                elif isinstance(t, (ast.Tuple, ast.List)):
                    for i, te in enumerate(t.elts):
                        d = canon(dotted(te))
                        if d:
                            out.append((d, ast.Subscript(value=n.value, slice=ast.Constant(i), ctx=ast.Load()), n))
                else:
                    d = canon(dotted(t))
                    if d:
                        out.append((d, n.value, n))
        if isinstance(n, ast.Call) and dotted(n.func) == "setattr" and len(n.args) == 3 and dotted(n.args[0]) in alias:
            if isinstance(n.args[1], ast.Constant):
                out.append((f"{alias[dotted(n.args[0])]}.{n.args[1].value}", n.args[2], n))
            else:
                out.append((f"{alias[dotted(n.args[0])]}.?", n.args[2], n))
    return out


def write_set(repo: Repo, fn: FuncInfo, seen: Optional[Set[str]] = None) -> Dict[str, List[Tuple[FuncInfo, ast.AST, ast.stmt]]]:
    """Transitive write set over calls that resolve to fickling functions."""
    seen = seen if seen is not None else set()
    if fn.qualname in seen:
        return {}
    seen.add(fn.qualname)
    out: Dict[str, List] = {}
    for b, v, st in binding_stores(fn):
        out.setdefault(b, []).append((fn, v, st))
    for n in body_walk(fn.node):
        if isinstance(n, ast.Call):
            q = repo.resolve_expr(fn.module, n.func, set(fn.params()))
            tgt = repo.lookup(q) if q else None
            if isinstance(tgt, FuncInfo) and tgt.module.name.startswith("fickling"):
                for b, lst in write_set(repo, tgt, seen).items():
                    out.setdefault(b, []).extend(lst)
    return out


def run(rep: Report, tier: str):
    repo = load_repo()
    rep.explanation = (
        "Typestate over the four hooked bindings: transitive write sets of every lifecycle operation computed from the "
        "source, the provenance of each written value (import-time capture, fresh closure, value saved in the context "
        "manager), post-dominance of the restoring stores in __exit__, and a package-wide scan for other writers."
    )
    rep.rule("C12.sequence-worlds", "over every operation sequence: flagged pickles refused while armed, exits restore the entry state, removal restores the originals", 1)
    rep.rule("C12.remove-complete", "remove_hook restores every binding any arming operation may change, from import-time captures", 4)
    rep.rule("C12.exit-unconditional", "__exit__ restores on all paths and never swallows the exception", 2)
    rep.rule("C12.ctx-restores-what-it-clobbers", "the context manager restores what its own __enter__ rebinds", 1)
    rep.rule("C12.ctx-restores-what-can-change", "the context manager saves/restores every binding a lifecycle operation may change while it is open", 1)
    rep.rule("C12.armed-means-checked", "every value an arming operation binds is a checker", 3)
    rep.rule("C12.nested-protection", "the checked loader's real load goes through the hooked pickle.loads; the context factory hands out a new manager per use", 1)
    rep.rule("C12.single-owner", "only hook.py/context.py rebind pickle entry points", 1)
    # the restore discipline is decided by interpretation over operation sequences; where that completes, the rules below that
    # match the shape of the restoring code (write sets, post-dominating stores) are kept as pointers, not verdicts
    from ..envworlds import C12_KEYS, report_sequence_worlds
    from ..report import Demoter

    worlds_error = None
    try:
        report_sequence_worlds(repo, rep, "C12.sequence-worlds", tier, C12_KEYS, nested=False)
    except AnalysisError as e:
        worlds_error = e
    if worlds_error is None:
        rep = Demoter(rep, {"C12.remove-complete", "C12.exit-unconditional", "C12.ctx-restores-what-it-clobbers", "C12.ctx-restores-what-can-change"}, "C12.sequence-worlds")

    hook = repo.module("fickling.hook")
    ops = {
        "run_hook": repo.func("fickling.hook.run_hook"),
        "always_check_safety": repo.func("fickling.hook.always_check_safety"),
        "activate_safe_ml_environment": repo.func("fickling.hook.activate_safe_ml_environment"),
        "remove_hook": repo.func("fickling.hook.remove_hook"),
    }
    ctx = repo.cls("fickling.context.FicklingContextManager")
    enter, exit_, init = ctx.method("__enter__"), ctx.method("__exit__"), ctx.method("__init__")
    if enter is None or exit_ is None:
        raise AnalysisError("FicklingContextManager.__enter__/__exit__ not found")
    W = {k: write_set(repo, f) for k, f in ops.items()}
    W["ctx.__enter__"] = write_set(repo, enter)
    W["ctx.__exit__"] = write_set(repo, exit_)
    rep.units = {"write_sets": {k: sorted(v) for k, v in W.items()}}
    for k, v in W.items():
        rep.info(f"W({k}) = {sorted(v)}")
    if "deactivate_safe_ml_environment" in hook.assigns and dotted(hook.assigns["deactivate_safe_ml_environment"][0]) != "remove_hook":
        rep.bad("C12.remove-complete", "fickling.hook.deactivate_safe_ml_environment", "alias-changed", "deactivate_safe_ml_environment is no longer remove_hook", "fickling/hook.py", 1)
    unknown = [b for k in W for b in W[k] if b.endswith(".?")]
    if unknown:
        raise AnalysisError("setattr(pickle, <non-literal>, ...) in a lifecycle operation: write set not decidable")

    arming = ["run_hook", "always_check_safety", "activate_safe_ml_environment", "ctx.__enter__"]
    armed: Set[str] = set().union(*[set(W[k]) for k in arming])
    if len(armed) < 1:
        raise AnalysisError("no arming operation rebinds anything (anchors vanished)")
    # ---- C12.remove-complete
    rm = ops["remove_hook"]
    twin_fact = _pickle_twin_fact()
    for b in sorted(armed):
        if b not in W["remove_hook"]:
            who = [k for k in arming if b in W[k]]
            rep.bad("C12.remove-complete", rm.qualname, f"not-restored:{b}", f"{', '.join(who)} can rebind {b} but remove_hook never restores it: after removal a load through {b} is still hooked", rm.file, rm.line)
            continue
        for fn, v, st in W["remove_hook"][b]:
            name = dotted(v)
            caps = hook.assigns.get(name or "", []) if fn.module is hook else []
            ok = False
            why = ""
            if name and len(caps) == 1:
                src_b = dotted(caps[0])
                if src_b == b or (src_b == TWIN[b] and twin_fact):
                    # captured at import, and nowhere else assigned (no `global name` writers)
                    writers = [f for f in repo.functions.values() if f.module is hook and f.kind != "module" and any(isinstance(n, ast.Global) and name in n.names for n in body_walk(f.node))]
                    if writers:
                        why = f"`{name}` is reassigned in {writers[0].qualname}: it may hold an already hooked function"
                    else:
                        ok = True
                else:
                    why = f"`{name}` was captured from {src_b}, not from {b}"
            else:
                why = f"restored from `{src(v)}`, which is not a module-level name assigned exactly once at import from {b}"
            if ok:
                rep.ok("C12.remove-complete", rm.qualname, f"{b} <- {name} (captured at import from {dotted(caps[0])})", f"{rm.file}:{st.lineno}")
            else:
                rep.bad("C12.remove-complete", rm.qualname, f"restored-from-non-original:{b}", f"remove_hook sets {b} = {src(v)}: {why}; after removal the binding need not be the original function", rm.file, st.lineno)
    g = CFG(rm.node)
    pd = g.post_dominators().get(g.entry, set())
    for b, lst in W["remove_hook"].items():
        for fn, v, st in lst:
            if fn is rm:
                if not g.always_passes(st):
                    rep.bad("C12.remove-complete", rm.qualname, f"conditional-restore:{b}", f"remove_hook restores {b} only on some paths", rm.file, st.lineno)

    # ---- context manager: what is saved, what is restored
    saved: Dict[str, str] = {}  # self attribute (or attr[i]) -> binding it was saved from
    saved_where: Dict[str, set] = {}  # slot -> {"init", "enter" (on every path), "enter?" (on some paths)}
    for m in (init, enter):
        if m is None:
            continue
        gm = CFG(m.node)
        for n in body_walk(m.node):
            if isinstance(n, ast.Assign):
                tag = "init" if m is init else ("enter" if gm.always_passes(n) else "enter?")
                for t in n.targets:
                    d = dotted(t)
                    if d and d.startswith("self."):
                        if dotted(n.value) in BINDINGS:
                            saved[d] = dotted(n.value)
                            saved_where.setdefault(d, set()).add(tag)
                        elif isinstance(n.value, (ast.Tuple, ast.List)):
                            for i, e in enumerate(n.value.elts):
                                if dotted(e) in BINDINGS:
                                    saved[f"{d}[{i}]"] = dotted(e)
                                    saved_where.setdefault(f"{d}[{i}]", set()).add(tag)
                        elif isinstance(n.value, ast.Dict):
                            for k, e in zip(n.value.keys, n.value.values):
                                if dotted(e) in BINDINGS and isinstance(k, ast.Constant):
                                    saved[f"{d}[{k.value!r}]"] = dotted(e)
                                    saved_where.setdefault(f"{d}[{k.value!r}]", set()).add(tag)
    restored: Dict[str, str] = {}  # binding -> saved slot it is restored from
    gx = CFG(exit_.node)
    pdx = gx.post_dominators().get(gx.entry, set())
    for b, lst in W["ctx.__exit__"].items():
        for fn, v, st in lst:
            slot = None
            if isinstance(v, ast.Subscript) and isinstance(v.slice, ast.Constant):
                slot = f"{dotted(v.value)}[{v.slice.value!r}]" if isinstance(v.slice.value, str) else f"{dotted(v.value)}[{v.slice.value}]"
            else:
                slot = dotted(v)
            if fn is exit_ and slot in saved:
                if saved[slot] == b:
                    restored[b] = slot
                    if not gx.always_passes(st):
                        rep.bad("C12.exit-unconditional", exit_.qualname, f"conditional-restore:{b}", f"`{src(st)}` does not run on every path through __exit__ (e.g. only on a clean exit): leaving the context by exception leaves the hook armed", exit_.file, st.lineno)
                    else:
                        rep.ok("C12.exit-unconditional", exit_.qualname, f"{b} restored from {slot} on every path", f"{exit_.file}:{st.lineno}")
                else:
                    rep.bad("C12.ctx-restores-what-it-clobbers", exit_.qualname, f"restores-wrong-slot:{b}", f"__exit__ sets {b} from {slot}, which was saved from {saved[slot]}", exit_.file, st.lineno)
            else:
                # restoring via remove_hook() or a constant: drops an enclosing protection
                rep.bad("C12.ctx-restores-what-it-clobbers", exit_.qualname, f"restores-non-saved:{b}", f"leaving the context sets {b} = `{src(v)}` (in {fn.qualname}) rather than the value saved on entry: an enclosing global check / ML environment is dropped", fn.file, st.lineno)
    if not restored and not any(f.rule.startswith("C12.ctx") or f.rule == "C12.exit-unconditional" for f in rep.findings):
        rep.bad("C12.exit-unconditional", exit_.qualname, "restores-nothing", "__exit__ restores none of the bindings the context manager saved", exit_.file, exit_.line)
    # __exit__ must not swallow exceptions
    truthy = [n for n in body_walk(exit_.node) if isinstance(n, ast.Return) and n.value is not None and not (isinstance(n.value, ast.Constant) and not n.value.value)]
    if truthy:
        rep.bad("C12.exit-unconditional", exit_.qualname, "swallows-exception", f"__exit__ may return `{src(truthy[0].value)}`: a truthy value suppresses the exception raised inside the context (e.g. UnsafeFileError)", exit_.file, truthy[0].lineno)
    else:
        rep.ok("C12.exit-unconditional", exit_.qualname, "__exit__ returns None/False: exceptions propagate", f"{exit_.file}:{exit_.line}")
    # where the save happens: the snapshot must be what is in force when the context is ENTERED.  A manager object can be
    # created long before it is used (`cm = fickling.check_safety(); activate_safe_ml_environment(); with cm: ...`): a
    # snapshot taken at construction restores the bindings of that earlier moment and drops whatever was armed in between.
    stale = sorted(b for b, slot in restored.items() if "enter" not in saved_where.get(slot, set()))
    if stale:
        rep.bad("C12.ctx-restores-what-can-change", ctx.qualname, "snapshot-not-at-entry:" + ",".join(stale), f"{stale} are restored on exit from a snapshot that is not (always) taken in __enter__ (taken in: {sorted(set().union(*[saved_where.get(restored[b], set()) for b in stale]))}): `cm = check_safety(); activate_safe_ml_environment(); with cm: ...` leaves the block with the ML environment silently removed", ctx.module.relpath, enter.line)
    elif restored:
        rep.ok("C12.ctx-restores-what-can-change", ctx.qualname, "the restored snapshot is taken in __enter__ on every path (what was in force on entry)", f"{ctx.module.relpath}:{enter.line}")
    clob = set(W["ctx.__enter__"])
    miss = sorted(clob - set(restored))
    if miss:
        rep.bad("C12.ctx-restores-what-it-clobbers", ctx.qualname, "clobbers-unrestored:" + ",".join(miss), f"__enter__ rebinds {miss} but the context manager does not save and restore them", ctx.module.relpath, enter.line)
    else:
        rep.ok("C12.ctx-restores-what-it-clobbers", ctx.qualname, f"W(__enter__) = {sorted(clob)} is within the saved-and-restored set {sorted(restored)}", f"{ctx.module.relpath}:{enter.line}")
    may_change = set().union(*[set(W[k]) for k in ("run_hook", "always_check_safety", "activate_safe_ml_environment", "remove_hook", "ctx.__enter__")])
    miss = sorted(may_change - set(restored))
    if miss:
        rep.bad(
            "C12.ctx-restores-what-can-change",
            ctx.qualname,
            "unsaved:" + ",".join(miss),
            f"while a context is open, lifecycle operations can rebind {sorted(may_change)} but the context manager saves/restores only {sorted(restored)}: "
            f"e.g. `enter; activate_safe_ml_environment(); leave` ends with {miss} still hooked (a protection left behind), and `activate; enter; remove_hook; leave` restores only part of what was in force on entry",
            ctx.module.relpath,
            exit_.line,
        )
    else:
        rep.ok("C12.ctx-restores-what-can-change", ctx.qualname, f"all of {sorted(may_change)} saved on entry and restored on exit", f"{ctx.module.relpath}:{exit_.line}")

    # ---- armed means checked
    for fn, v, st in [x for lst in W["run_hook"].values() for x in lst]:
        why = is_checked_loader(repo, fn.module, v, fn)
        if why is None:
            rep.ok("C12.armed-means-checked", fn.qualname, f"`{src(st)}` binds the checked loader", f"{fn.file}:{st.lineno}")
        else:
            rep.bad("C12.armed-means-checked", fn.qualname, "binds-unchecked", f"`{src(st)}`: {why}", fn.file, st.lineno)
    act = ops["activate_safe_ml_environment"]
    nested = {f.name: f for f in repo.nested_of(act)}
    for b, lst in W["activate_safe_ml_environment"].items():
        for fn, v, st in lst:
            f2 = nested.get(dotted(v) or "")
            if f2 is None:
                rep.bad("C12.armed-means-checked", act.qualname, f"binds-non-closure:{b}", f"`{src(st)}` does not bind a closure created by this activation", act.file, st.lineno)
                continue
            ctor = [n for n in body_walk(f2.node) if isinstance(n, ast.Call) and (repo.resolve_expr(f2.module, n.func, set(f2.params())) or "") == "fickling.ml.FicklingMLUnpickler"]
            rets = [n for n in body_walk(f2.node) if isinstance(n, ast.Return)]
            good = bool(ctor) and rets and all(isinstance(r.value, ast.Call) and isinstance(r.value.func, ast.Attribute) and r.value.func.attr == "load" and any(c is r.value.func.value for c in ctor) for r in rets)
            if good:
                rep.ok("C12.armed-means-checked", f2.qualname, f"{b} -> FicklingMLUnpickler(...).load on every return", f"{f2.file}:{f2.line}")
            else:
                rep.bad("C12.armed-means-checked", f2.qualname, f"closure-not-mediating:{b}", f"the function bound to {b} does not return FicklingMLUnpickler(...).load() on every path (C07.closures has the details)", f2.file, f2.line)

    # entering a context / arming always arms (no path through the operation skips the rebinding)
    for label, fn in (("ctx.__enter__", enter), ("always_check_safety", ops["always_check_safety"]), ("run_hook", ops["run_hook"]), ("activate_safe_ml_environment", act)):
        gg = CFG(fn.node)
        arms = [st for lst in W[label].values() for (f0, v, st) in lst if f0 is fn]
        calls = [n for n in body_walk(fn.node) if isinstance(n, ast.Call) and isinstance(repo.lookup(repo.resolve_expr(fn.module, n.func, set(fn.params())) or ""), FuncInfo) and write_set(repo, repo.lookup(repo.resolve_expr(fn.module, n.func, set(fn.params()))))]
        sites = arms + calls
        if not sites:
            rep.bad("C12.armed-means-checked", fn.qualname, "never-arms", f"{label} rebinds nothing", fn.file, fn.line)
        elif all(gg.always_passes(x) for x in sites) or any(gg.always_passes(x) for x in calls) or (arms and all(gg.always_passes(x) for x in arms)):
            rep.ok("C12.armed-means-checked", fn.qualname, f"{label} arms on every path", f"{fn.file}:{fn.line}")
        else:
            rep.bad("C12.armed-means-checked", fn.qualname, "arms-conditionally", f"{label} does not rebind the entry point(s) on every path: protection may silently not be in force while the caller believes it is", fn.file, fn.line)

    # ---- nested protection
    ld = repo.func("fickling.loader.load")
    ups = unpickler_calls(repo, ld)
    for c in ups:
        q = repo.resolve_expr(ld.module, c.func, set(ld.params())) or src(c.func)
        f0 = c.func
        if isinstance(f0, ast.Name):
            # a function-local rebinding executed on this call is still a call-time lookup
            loc = [st.value for st in body_walk(ld.node) if isinstance(st, ast.Assign) and any(isinstance(t, ast.Name) and t.id == f0.id for t in st.targets)]
            if len(loc) == 1:
                f0 = loc[0]
                q = repo.resolve_expr(ld.module, f0, set(ld.params())) or q
        at_call_time = isinstance(f0, ast.Attribute) and isinstance(f0.value, ast.Name) and f0.value.id not in ld.params() and (repo.resolve_expr(ld.module, f0.value, set(ld.params())) or "") in ("pickle", "_pickle")
        if q in ("pickle.loads", "_pickle.loads") and q in W["activate_safe_ml_environment"] and not at_call_time:
            rep.bad("C12.nested-protection", ld.qualname, f"import-time-bound-real-load:{q}", f"the checked loader unpickles through `{src(c.func)}`, a name bound to {q} when the module was imported (or imported by value), not looked up on the pickle module at call time: it is always the ORIGINAL function, so with the safe ML environment armed underneath, entering a safety context (or arming the global check) bypasses the allowlist - an enclosing protection is dropped", ld.file, c.lineno)
        elif q in ("pickle.loads", "_pickle.loads") and q in W["activate_safe_ml_environment"]:
            rep.ok("C12.nested-protection", ld.qualname, f"real load via {q}, an entry point the safe ML environment mediates (looked up at call time)", f"{ld.file}:{c.lineno}")
        else:
            rep.bad("C12.nested-protection", ld.qualname, f"unmediated-real-load:{q if isinstance(q, str) else '?'}", f"the checked loader unpickles through `{src(c.func)}`; with the safe ML environment armed underneath, entering a safety context (or arming the global check) then bypasses the allowlist - an enclosing protection is dropped", ld.file, c.lineno)

    # the context manager keeps its snapshot on the instance: nested `with fickling.check_safety():` blocks are only
    # independent if every call of the factory hands out a new manager
    fac = repo.lookup("fickling.context.check_safety")
    if isinstance(fac, FuncInfo):
        rets = [n.value for n in body_walk(fac.node) if isinstance(n, ast.Return)]
        fresh = bool(rets) and all(isinstance(r, ast.Call) and (repo.resolve_expr(fac.module, r.func, set(fac.params())) or "") == ctx.qualname for r in rets)
        if fresh:
            rep.ok("C12.nested-protection", fac.qualname, "every call returns a new FicklingContextManager (nested blocks keep separate snapshots)", f"{fac.file}:{fac.line}")
        else:
            rep.bad("C12.nested-protection", fac.qualname, "factory-returns-shared-manager", f"check_safety() returns {[src(r) for r in rets]}, not a new FicklingContextManager per call: nested `with fickling.check_safety():` blocks share one snapshot slot, the inner entry overwrites the outer's saved bindings with the already-hooked ones, and the outermost exit leaves the hook armed", fac.file, fac.line)
    # ---- single owner
    owners = {"fickling.hook", "fickling.context"}
    n_other = 0
    for f in repo.functions.values():
        if f.module.name in owners:
            continue
        for b, v, st in binding_stores(f):
            n_other += 1
            rep.bad("C12.single-owner", f.qualname, f"foreign-writer:{b}", f"`{src(st)}` rebinds {b} outside hook.py/context.py: the lifecycle operations neither know nor restore it", f.file, st.lineno)
    rep.ok("C12.single-owner", "fickling/*", f"{len(repo.functions)} functions scanned; writers of pickle entry points outside hook.py/context.py: {n_other} (import_hook.py builds a replacement module object, not a rebinding)", "")
    if worlds_error is not None:
        raise worlds_error  # the shape rules above decided alone (their findings stand); the run is partially undecided


def _pickle_twin_fact() -> bool:
    """`pickle.load is _pickle.load` in CPython: Lib/pickle.py does `from _pickle import ... load, loads`."""
    p = Path(sysconfig.get_paths()["stdlib"]) / "pickle.py"
    try:
        tree = ast.parse(p.read_text())
    except Exception as e:
        raise AnalysisError(f"cannot parse {p}: {e}")
    for n in ast.walk(tree):
        if isinstance(n, ast.ImportFrom) and n.module == "_pickle":
            names = {a.name for a in n.names}
            if {"load", "loads"} <= names:
                return True
    return False
