"""C13 -- answers depend only on the bytes: deterministic, repeatable, no observer effect.

Only the known sources of non-determinism / observer effects are excluded structurally:

* C13.no-one-shot        no AST field (or Pickled attribute) holds a one-shot iterator.
* C13.read-only-queries  observers do not write shared state: opcode handlers never write `self` (opcodes are
                         shared by every run), analyses never write their (process-wide singleton) instance or
                         the nodes/opcodes they inspect, Interpreter/Trace never write the Pickled they read,
                         Pickled's read-only queries write nothing but the two caches.
* C13.cache-atomic       a cache attribute is only assigned once its value is completely computed (an exception
                         half-way must not leave a partial value that later queries return).
* C13.no-hash-order      no ordered output is produced by iterating a set.
* C13.no-shared-default  no mutable default argument is stored or mutated (state shared across calls).
* C13.registry-complete  importing the package registers every Analysis before any verdict can be asked.
* C13.no-process-state   nothing reachable from a read-only query (parse, decompile, analyse, trace, summaries)
                         changes a process-wide setting (recursion limit, environment, cwd, warning filters, ...):
                         such a change - even if restored afterwards - makes one query succeed where the same
                         query asked directly fails, and what it caches then answers the later ones.
"""

from __future__ import annotations

import ast
from typing import Dict, List, Optional, Set

from ..cfg import CFG
from ..model import ClassInfo, FuncInfo, Repo, dotted, load_repo
from ..opsummary import all_summaries
from ..report import AnalysisError, Report
from ..util import MUTATORS, base_of, body_walk, mutator_calls, src, store_targets, walk_no_nested
from .c05 import check_ast_fields

PICKLED = "fickling.fickle.Pickled"
FRESH_CTORS = {"set", "list", "dict", "defaultdict", "collections.defaultdict", "bytearray", "tuple", "frozenset", "OrderedDict", "collections.OrderedDict", "Counter"}


def _fresh_locals(fn: ast.AST) -> Set[str]:
    """Local names bound (only) to fresh containers created in this function."""
    fresh: Set[str] = set()
    other: Set[str] = set()
    for n in body_walk(fn):
        tgt_val = []
        if isinstance(n, ast.Assign):
            tgt_val = [(t, n.value) for t in n.targets]
        elif isinstance(n, ast.AnnAssign) and n.value is not None:
            tgt_val = [(n.target, n.value)]
        for t, v in tgt_val:
            if isinstance(t, ast.Name):
                is_fresh = isinstance(v, (ast.List, ast.Dict, ast.Set, ast.ListComp, ast.DictComp, ast.SetComp)) or (
                    isinstance(v, ast.Call) and (dotted(v.func) or "") in FRESH_CTORS
                )
                (fresh if is_fresh else other).add(t.id)
    return fresh - other


def _writes(fn: FuncInfo, allow_self_attrs: Optional[Set[str]] = None, self_is_fresh: bool = False):
    """(node, description, root) for every attribute/subscript store and mutator call in fn whose target
    is not a fresh local container."""
    out = []
    fresh = _fresh_locals(fn.node)
    params = set(fn.params())
    for n in body_walk(fn.node):
        if isinstance(n, (ast.Assign, ast.AugAssign, ast.AnnAssign, ast.Delete)):
            if isinstance(n, ast.AnnAssign) and n.value is None:
                continue
            for t in store_targets(n):
                if isinstance(t, ast.Name):
                    continue
                b = base_of(t)
                chain = dotted(b) or (dotted(b.value) + "." + b.attr if isinstance(b, ast.Attribute) and dotted(b.value) else None)
                root = (chain or src(b)).split(".")[0]
                if root in fresh:
                    continue
                if root == "self":
                    attr = (chain or "").split(".")[1] if chain and "." in chain else ""
                    if self_is_fresh and not (chain or "").count(".") > 1:
                        continue
                    if allow_self_attrs is not None and attr in allow_self_attrs and (chain or "").count(".") == 1:
                        continue
                out.append((n, f"store to `{src(t)}`", chain or src(b)))
        if isinstance(n, ast.Call) and isinstance(n.func, ast.Attribute) and n.func.attr in MUTATORS:
            recv = n.func.value
            chain = dotted(base_of(recv))
            if chain is None:
                continue
            root = chain.split(".")[0]
            if root in fresh:
                continue
            if root == "self":
                if self_is_fresh and chain.count(".") <= 1:
                    continue
                attr = chain.split(".")[1] if "." in chain else ""
                if allow_self_attrs is not None and attr in allow_self_attrs and chain.count(".") == 1:
                    continue
            elif "." not in chain and isinstance(recv, ast.Name) and root not in params:
                # a plain local that is not provably fresh: decide by how it was bound
                bound_from_shared = False
                for m in body_walk(fn.node):
                    if isinstance(m, ast.Assign) and any(isinstance(t, ast.Name) and t.id == root for t in m.targets):
                        v = m.value
                        if isinstance(v, (ast.Attribute, ast.Subscript, ast.Name)):
                            bound_from_shared = True
                    if isinstance(m, (ast.For, ast.comprehension)) and any(isinstance(x, ast.Name) and x.id == root for x in ast.walk(m.target)):
                        bound_from_shared = True
                if not bound_from_shared:
                    continue
            out.append((n, f"`{src(n)}`", chain))
        if isinstance(n, ast.Call) and dotted(n.func) in ("setattr", "delattr") and n.args:
            root = (dotted(n.args[0]) or "?").split(".")[0]
            if root in fresh or (root == "self" and self_is_fresh):
                continue
            out.append((n, f"`{src(n)}`", dotted(n.args[0]) or "?"))
    return out


def check_read_only(repo: Repo, rep: Report):
    sums = all_summaries(repo)
    # (1) opcode handlers never write the opcode object
    bad_ops = 0
    for s in sums:
        for p in s.paths:
            if p.state.self_writes:
                bad_ops += 1
                attr, line = p.state.self_writes[0]
                rep.bad("C13.read-only-queries", s.oc.cls.qualname + ".run", f"opcode-self-write:{attr}", f"{s.name}.run stores to self.{attr}: opcode objects are shared by every interpreter run over the same Pickled, so a later decompile/analysis sees the residue", s.run.file, line)
                break
    rep.ok("C13.read-only-queries", "fickling.fickle.Opcode.*.run", f"{len(sums) - bad_ops} opcode handlers write nothing on `self`", "")
    # property getters / helpers of opcode classes
    opbase = repo.cls("fickling.fickle.Opcode")
    for c in repo.subclasses(opbase):
        for name, fs in c.methods.items():
            for f in fs:
                if name in ("__init__", "__init_subclass__", "__new__") or f.kind == "setter":
                    continue
                if name == "run":
                    continue
                for n, what, chain in _writes(f):
                    if chain.split(".")[0] in ("self", "cls") and name not in ("validate", "new", "create"):
                        rep.bad("C13.read-only-queries", f.qualname, f"opcode-write:{chain}", f"{what} in {f.qualname}: writes opcode state from a query", f.file, n.lineno)
    # (2) analyses: singletons, and they must not touch what they inspect
    ab = repo.cls("fickling.analysis.Analysis")
    n_an = 0
    for c in repo.subclasses(ab, strict=True):
        n_an += 1
        clean = True
        for name, fs in c.methods.items():
            for f in fs:
                if name == "__init__":
                    continue
                for n, what, chain in _writes(f):
                    clean = False
                    root = chain.split(".")[0]
                    why = (
                        "analysis instances are process-wide singletons (Analysis.ALL): state kept on them leaks from one check_safety() call into the next"
                        if root == "self"
                        else "an analysis mutates the object it inspects: later queries on the same pickle see the change"
                    )
                    rep.bad("C13.read-only-queries", f.qualname, f"analysis-write:{chain}", f"{what} in {f.qualname}: {why}", f.file, n.lineno)
        if clean:
            rep.ok("C13.read-only-queries", c.qualname, "no store / mutator call on self, context.pickled, properties or inspected nodes", f"{c.module.relpath}:{c.node.lineno}")
    if n_an < 9:
        raise AnalysisError(f"only {n_an} Analysis subclasses found (9 on the pinned tree)")
    # AnalysisContext: its own fields only (fresh per Analyzer.analyze)
    ctx = repo.cls("fickling.analysis.AnalysisContext")
    for name, fs in ctx.methods.items():
        for f in fs:
            for n, what, chain in _writes(f, self_is_fresh=True):
                rep.bad("C13.read-only-queries", f.qualname, f"context-write:{chain}", f"{what}: AnalysisContext writes beyond its own per-run fields", f.file, n.lineno)
    an = repo.cls("fickling.analysis.Analyzer").method("analyze")
    fresh_ctx = any(isinstance(n, ast.Assign) and isinstance(n.value, ast.Call) and dotted(n.value.func) == "AnalysisContext" for n in body_walk(an.node))
    wr = _writes(an)
    if fresh_ctx and not wr:
        rep.ok("C13.read-only-queries", an.qualname, "fresh AnalysisContext per run; Analyzer keeps no per-pickle state", f"{an.file}:{an.line}")
    else:
        rep.bad("C13.read-only-queries", an.qualname, "analyzer-state", f"Analyzer.analyze {'does not build a fresh AnalysisContext' if not fresh_ctx else 'writes ' + wr[0][2]}: results of one run can influence the next", an.file, an.line)
    for f in [repo.cls("fickling.analysis.Analyzer").method("__init__")]:
        pass
    # functools caches anywhere on the analysis path
    for f in repo.functions.values():
        if f.module.name in ("fickling.fickle", "fickling.analysis", "fickling.tracing", "fickling.ml", "fickling.loader"):
            for d in getattr(f.node, "decorator_list", []):
                dn = dotted(d) or (dotted(d.func) if isinstance(d, ast.Call) else "") or ""
                if dn.split(".")[-1] == "cached_property" and f.cls is not None:
                    # a per-instance cache with an explicit drop (`del self.<name>` / `self.__dict__.pop("<name>", ...)`) in
                    # the same class is the class's own cache discipline: whether every edit drops it is C14.invalidate's job
                    dropped = any(
                        (isinstance(x, ast.Delete) and any(dotted(t) == f"self.{f.name}" for t in x.targets))
                        or (isinstance(x, ast.Call) and isinstance(x.func, ast.Attribute) and x.func.attr == "pop" and x.args and isinstance(x.args[0], ast.Constant) and x.args[0].value == f.name)
                        for fs in f.cls.methods.values() for g_ in fs for x in body_walk(g_.node)
                    )
                    if dropped:
                        continue
                if dn.split(".")[-1] in ("lru_cache", "cache", "cached_property"):
                    rep.bad("C13.read-only-queries", f.qualname, f"memoised:{dn.split('.')[-1]}", f"{f.qualname} is memoised with @{dn}: answers come from an earlier call's arguments' identity, not from the bytes", f.file, f.line)
    # the same memoisation applied by hand at module level: X = functools.lru_cache(...)(f)
    for mn in ("fickling.fickle", "fickling.analysis", "fickling.tracing", "fickling.ml", "fickling.loader"):
        m = repo.modules.get(mn)
        if m is None:
            continue
        for name, vals in m.assigns.items():
            for v in vals:
                if isinstance(v, ast.Call) and any((dotted(x) or "").split(".")[-1] in ("lru_cache", "cache") for x in ast.walk(v.func) if isinstance(x, (ast.Name, ast.Attribute))):
                    rep.bad("C13.read-only-queries", f"{mn}.{name}", "memoised:lru_cache", f"`{name} = {src(v)}` is a process-wide memo: answers come from an earlier call's arguments (equal under ==/hash), not from the bytes in front of it, and objects it returns are shared between pickles", m.relpath, v.lineno)
    # (3) Interpreter / Trace / ASTProperties never write the Pickled they read
    for cq in ("fickling.fickle.Interpreter", "fickling.tracing.Trace", "fickling.fickle.ASTProperties", "fickling.fickle.ModuleBody", "fickling.fickle.Stack"):
        c = repo.cls(cq)
        ok = True
        for name, fs in c.methods.items():
            for f in fs:
                for n, what, chain in _writes(f, self_is_fresh=True):
                    parts = chain.split(".")
                    if "pickled" in parts or parts[0] in ("pickled",) or any(p in ("_ast", "_properties", "_opcodes") and parts[0] != "self" for p in parts) or (parts[0] == "self" and len(parts) > 2 and parts[1] in ("pickled", "interpreter")):
                        ok = False
                        rep.bad("C13.read-only-queries", f.qualname, f"observer-writes-pickle:{chain}", f"{what} in {f.qualname}: a decompile/trace writes into the Pickled (or interpreter) it observes, so a later query answers from that residue instead of from the bytes", f.file, n.lineno)
        if ok:
            rep.ok("C13.read-only-queries", cq, "never writes the Pickled object it reads", f"{c.module.relpath}:{c.node.lineno}")
    # (3b) the summariser visits the CACHED decompiled program (Pickled.ast): writing into a visited node changes what
    # every later decompile / analysis of the same object sees
    ap = repo.cls("fickling.fickle.ASTProperties")
    ap_clean = True
    for name, fs in ap.methods.items():
        for f in fs:
            if name == "__init__":
                continue
            ps = [p for p in f.params() if p != "self"]
            for n, what, chain in _writes(f):
                root = chain.split(".")[0]
                if root in ps:
                    ap_clean = False
                    rep.bad("C13.read-only-queries", f.qualname, f"summary-writes-ast:{chain}", f"{what} in {f.qualname}: computing the import/call summaries rewrites a node of the cached decompiled program, so a later decompile (or analysis) of the same object differs from the first and from a fresh parse", f.file, n.lineno)
    if ap_clean:
        rep.ok("C13.read-only-queries", ap.qualname, "the summariser never writes into the nodes it visits", f"{ap.module.relpath}:{ap.node.lineno}")
    # (4) Pickled's read-only queries
    pk = repo.cls(PICKLED)
    ro = ["properties", "ast", "has_import", "has_call", "has_non_setstate_call", "unsafe_imports", "non_standard_imports", "dumps", "dump", "dumps_partial", "opcodes", "nb_opcodes", "__iter__", "__len__", "__getitem__"]
    for name in ro:
        for f in pk.methods.get(name, []):
            if f.kind == "setter":
                continue
            w = _writes(f, allow_self_attrs={"_ast", "_properties"})
            if w:
                n, what, chain = w[0]
                rep.bad("C13.read-only-queries", f.qualname, f"query-writes:{chain}", f"{what} in read-only query {f.qualname}", f.file, n.lineno)
            else:
                rep.ok("C13.read-only-queries", f.qualname, "writes nothing but the _ast/_properties caches", f"{f.file}:{f.line}")


def check_cache_atomic(repo: Repo, rep: Report):
    pk = repo.cls(PICKLED)
    for name, cache in (("ast", "_ast"), ("properties", "_properties")):
        f = pk.method(name, "property")
        if f is None:
            raise AnalysisError(f"Pickled.{name} not found")
        g = CFG(f.node)
        stores = [n for n in g.stmt_nodes((ast.Assign, ast.AnnAssign)) if any(dotted(t) == f"self.{cache}" for t in store_targets(n.ast)) and not (isinstance(n.ast.value, ast.Constant) and n.ast.value.value is None)]
        if not stores:
            if any((dotted(d) or "").split(".")[-1] == "cached_property" for d in f.node.decorator_list):
                # functools.cached_property stores the value only after the getter returned: atomic by construction
                rep.ok("C13.cache-atomic", f.qualname, "functools.cached_property: the value is stored only once the getter has returned", f"{f.file}:{f.line}")
                continue
            raise AnalysisError(f"Pickled.{name}: no cache fill found")
        for sn in stores:
            # statements that can run after the store and may raise (contain a call or attribute getter on self)
            after: List = []
            seen = set()
            todo = [m for m, _ in g.succ[sn.id]]
            while todo:
                x = todo.pop()
                if x in seen:
                    continue
                seen.add(x)
                nd = g.nodes[x]
                if nd.kind in ("stmt", "test", "for", "with") and nd.ast is not None and not isinstance(nd.ast, ast.Return):
                    if any(isinstance(y, ast.Call) for y in ast.walk(nd.ast)):
                        after.append(nd)
                todo.extend(m for m, _ in g.succ[x])
            if after:
                rep.bad(
                    "C13.cache-atomic",
                    f.qualname,
                    f"partial-cache:{cache}",
                    f"self.{cache} is assigned at line {sn.line} before `{src(after[0].ast)}` (line {after[0].line}) has run; if that raises, the half-built value stays cached and the next query returns it instead of raising again (ask twice, get two answers)",
                    f.file,
                    sn.line,
                )
            else:
                rep.ok("C13.cache-atomic", f.qualname, f"self.{cache} assigned only after its computation completed", f"{f.file}:{sn.line}")


def _set_names(fn: ast.AST) -> Set[str]:
    out = set()
    for n in body_walk(fn):
        if isinstance(n, ast.AnnAssign) and isinstance(n.target, ast.Name):
            a = ast.unparse(n.annotation)
            if a.startswith(("Set[", "set[", "FrozenSet[", "frozenset[", "typing.Set[")) or a in ("set", "frozenset", "Set"):
                out.add(n.target.id)
        if isinstance(n, ast.Assign) and isinstance(n.value, (ast.Set, ast.SetComp)) or (isinstance(n, ast.Assign) and isinstance(n.value, ast.Call) and dotted(n.value.func) in ("set", "frozenset")):
            for t in n.targets:
                if isinstance(t, ast.Name):
                    out.add(t.id)
    return out


def _is_set_expr(e: ast.AST, names: Set[str]) -> bool:
    if isinstance(e, (ast.Set, ast.SetComp)):
        return True
    if isinstance(e, ast.Name):
        return e.id in names
    if isinstance(e, ast.Call) and dotted(e.func) in ("set", "frozenset"):
        return True
    if isinstance(e, ast.BinOp) and isinstance(e.op, (ast.Sub, ast.BitOr, ast.BitAnd, ast.BitXor)):
        return _is_set_expr(e.left, names) or _is_set_expr(e.right, names)
    if isinstance(e, ast.Call) and isinstance(e.func, ast.Attribute) and e.func.attr in ("union", "intersection", "difference", "symmetric_difference") and _is_set_expr(e.func.value, names):
        return True
    return False


def check_hash_order(repo: Repo, rep: Report):
    scanned = 0
    for f in repo.functions.values():
        if f.module.name not in ("fickling.fickle", "fickling.analysis", "fickling.tracing", "fickling.ml"):
            continue
        scanned += 1
        names = _set_names(f.node)
        for n in body_walk(f.node):
            iters = []
            if isinstance(n, ast.For):
                iters.append((n.iter, n))
            if isinstance(n, (ast.ListComp, ast.DictComp, ast.GeneratorExp)):
                for g in n.generators:
                    iters.append((g.iter, n))
            if isinstance(n, ast.Call) and dotted(n.func) in ("list", "tuple", "enumerate", "iter", "next") and n.args:
                iters.append((n.args[0], n))
            if isinstance(n, ast.Call) and isinstance(n.func, ast.Attribute) and n.func.attr in ("join", "extend") and n.args:
                iters.append((n.args[0], n))
            for it, node in iters:
                if _is_set_expr(it, names):
                    # order-insensitive consumers are fine
                    if isinstance(node, ast.GeneratorExp):
                        continue  # judged at its consumer (any/all/sum/min/max/set are order-insensitive; list/join are caught above)
                    rep.bad(
                        "C13.no-hash-order",
                        f.qualname,
                        f"set-iteration:{src(it)}",
                        f"`{src(node)}` iterates the set `{src(it)}` into an ordered result: for string elements the order depends on PYTHONHASHSEED, so the order of what is produced (findings, and through last-one-wins `detailed_results` the report) differs between processes",
                        f.file,
                        node.lineno,
                    )
    rep.ok("C13.no-hash-order", "fickling/{fickle,analysis,tracing,ml}.py", f"{scanned} functions scanned for ordered iteration over set-valued expressions", "")


def check_shared_default(repo: Repo, rep: Report):
    n = 0
    for f in repo.functions.values():
        if f.kind == "lambda" or not f.module.name.startswith("fickling"):
            continue
        a = f.node.args
        pos = a.posonlyargs + a.args
        pairs = list(zip(pos[len(pos) - len(a.defaults):], a.defaults)) + [(k, d) for k, d in zip(a.kwonlyargs, a.kw_defaults) if d is not None]
        for arg, d in pairs:
            mutable = isinstance(d, (ast.List, ast.Dict, ast.Set)) or (isinstance(d, ast.Call) and (dotted(d.func) or "") in FRESH_CTORS and (dotted(d.func) or "") not in ("tuple", "frozenset"))
            if not mutable:
                continue
            n += 1
            name = arg.arg
            escapes = False
            for x in body_walk(f.node):
                if isinstance(x, (ast.Assign, ast.AnnAssign)) and isinstance(x.value, ast.Name) and x.value.id == name and any(not isinstance(t, ast.Name) for t in store_targets(x)):
                    escapes = True
                if isinstance(x, ast.Call) and isinstance(x.func, ast.Attribute) and x.func.attr in MUTATORS and dotted(x.func.value) == name:
                    escapes = True
                if isinstance(x, ast.Return) and isinstance(x.value, ast.Name) and x.value.id == name:
                    escapes = True
            if escapes:
                rep.bad("C13.no-shared-default", f.qualname, f"mutable-default:{name}", f"parameter `{name}={src(d)}` is a mutable default that is stored or mutated: every call that omits it shares one object, so one analysis/activation leaks state into the next", f.file, f.line)
    rep.ok("C13.no-shared-default", "fickling/*", f"{len(repo.functions)} functions scanned; {n} mutable default(s) examined", "")


# class-level containers that are registries by design (filled at import, never per pickle)
CLASS_LEVEL_REGISTRIES = {("fickling.fickle.ConstantOpcode", "ConstantOpcodePriorities"), ("fickling.analysis.Analysis", "ALL")}


def check_class_level_state(repo: Repo, rep: Report, rule: str = "C13.no-shared-default", only: Optional[Set[str]] = None):
    """A mutable object bound at class level is ONE object for every instance.  On the decompile / analysis path, any method
    that mutates it through `self.<attr>` makes two live objects (two interpreters stepped alternately, an interpreter
    abandoned half-way, a second pickle analysed later) interfere: answers then depend on history, not on the bytes."""
    n_cls = n_attr = 0
    for c in repo.classes.values():
        if c.module.name not in ("fickling.fickle", "fickling.analysis", "fickling.tracing", "fickling.loader"):
            continue
        if only is not None and c.qualname not in only:
            continue
        n_cls += 1
        for attr, v in c.attrs.items():
            mutable = isinstance(v, (ast.List, ast.Dict, ast.Set, ast.ListComp, ast.DictComp, ast.SetComp)) or (isinstance(v, ast.Call) and (dotted(v.func) or "") in FRESH_CTORS and (dotted(v.func) or "") not in ("tuple", "frozenset"))
            if not mutable or (c.qualname, attr) in CLASS_LEVEL_REGISTRIES:
                continue
            n_attr += 1
            # shadowed per instance in __init__ ? then the class-level object is only a default nobody shares
            owners = [k for k in repo.subclasses(c)]
            shadowed = all(any(isinstance(n, (ast.Assign, ast.AnnAssign)) and any(dotted(t) == f"self.{attr}" for t in store_targets(n)) for n in body_walk(k.method("__init__").node)) for k in owners if k.method("__init__") is not None) and any(k.method("__init__") is not None for k in owners)
            writers = []
            for k in owners:
                for fs in k.methods.values():
                    for f in fs:
                        for n in body_walk(f.node):
                            if isinstance(n, ast.Call) and isinstance(n.func, ast.Attribute) and n.func.attr in MUTATORS and (dotted(base_of(n.func.value)) or "") in (f"self.{attr}", f"cls.{attr}", f"{k.name}.{attr}", f"{c.name}.{attr}"):
                                writers.append((f, n))
                            if isinstance(n, (ast.Assign, ast.AugAssign, ast.Delete)):
                                for t in store_targets(n):
                                    if isinstance(t, ast.Subscript) and (dotted(base_of(t)) or "") in (f"self.{attr}", f"cls.{attr}", f"{c.name}.{attr}"):
                                        writers.append((f, n))
                                    if isinstance(n, ast.AugAssign) and (dotted(t) or "") in (f"self.{attr}", f"cls.{attr}", f"{c.name}.{attr}"):
                                        writers.append((f, n))  # in-place += on the shared object
            # ... and from anywhere else in the package, by the class's name or through a local alias of the shared object
            # (`x = K.ATTR; x += [...]` extends K.ATTR itself)
            owner_names = {k.qualname for k in owners}
            for f in repo.functions.values():
                if f.kind == "module" or f.name == "__init_subclass__" or not f.module.name.startswith("fickling"):
                    continue

                def is_shared(e):
                    return isinstance(e, ast.Attribute) and e.attr == attr and isinstance(e.value, ast.Name) and e.value.id not in ("self", "cls") and repo.resolve_expr(f.module, e.value, ()) in owner_names

                binds: Dict[str, list] = {}
                for n in body_walk(f.node):
                    if isinstance(n, (ast.Assign, ast.AnnAssign, ast.AugAssign, ast.For, ast.NamedExpr)):
                        for t in store_targets(n) if not isinstance(n, ast.NamedExpr) else [n.target]:
                            if isinstance(t, ast.Name) and not isinstance(n, ast.AugAssign):
                                binds.setdefault(t.id, []).append(n.value if isinstance(n, (ast.Assign, ast.AnnAssign, ast.NamedExpr)) and not isinstance(getattr(n, "targets", [None])[0], (ast.Tuple, ast.List)) else None)
                aliases = {nm for nm, vs in binds.items() if vs and all(v is not None and (is_shared(v) or (isinstance(v, ast.Attribute) and (dotted(v) or "") in (f"self.{attr}", f"cls.{attr}") and f.cls is not None and f.cls.qualname in owner_names)) for v in vs) and nm not in f.params()}

                def hits(e):
                    return is_shared(e) or (isinstance(e, ast.Name) and e.id in aliases)

                for n in body_walk(f.node):
                    if isinstance(n, ast.Call) and isinstance(n.func, ast.Attribute) and n.func.attr in MUTATORS and hits(base_of(n.func.value)):
                        writers.append((f, n))
                    if isinstance(n, (ast.Assign, ast.AugAssign, ast.Delete)):
                        for t in store_targets(n):
                            if isinstance(t, ast.Subscript) and hits(t.value):
                                writers.append((f, n))
                            if isinstance(n, ast.AugAssign) and hits(t):
                                writers.append((f, n))
            if writers and not shadowed:
                f, n = writers[0]
                rep.bad(rule, c.qualname, f"class-level-mutable:{attr}", f"`{attr} = {src(v)}` is bound at class level and mutated through the instance in {f.qualname} (`{src(n)[:60]}`): every {c.name} shares that one object, so two live instances (or one abandoned half-way) corrupt each other's state", c.module.relpath, v.lineno)
            else:
                rep.ok(rule, c.qualname, f"class-level `{attr}` is never mutated through an instance" if not writers else f"class-level `{attr}` is re-bound per instance in __init__", f"{c.module.relpath}:{v.lineno}", nontrivial=False)
    # a one-shot iterator bound at class or module level (a generator expression, map/filter/zip/iter/reversed/enumerate
    # object) is state as well: the first code that iterates it uses it up, every later reader - the next call, the next
    # pickle - finds it empty
    from ..pitfalls import ONE_SHOT

    def one_shot(v):
        return isinstance(v, ast.GeneratorExp) or (isinstance(v, ast.Call) and (dotted(v.func) or "") in ONE_SHOT)

    n_it = 0
    for c in repo.classes.values():
        if not c.module.name.startswith("fickling") or (only is not None and c.qualname not in only):
            continue
        for attr, v in c.attrs.items():
            if one_shot(v):
                n_it += 1
                rep.bad(rule, c.qualname, f"class-level-one-shot-iterator:{attr}", f"`{attr} = {src(v)[:70]}` binds ONE iterator object at class level: the first iteration over it (first call, first pickle) exhausts it and every later reader sees nothing, so what a query answers depends on what ran before it", c.module.relpath, v.lineno)
    if only is None:
        for m in repo.modules.values():
            if not m.name.startswith("fickling"):
                continue
            for name, vals in m.assigns.items():
                for v in vals:
                    if one_shot(v):
                        n_it += 1
                        rep.bad(rule, f"{m.name}.{name}", f"module-level-one-shot-iterator:{name}", f"`{name} = {src(v)[:70]}` binds ONE iterator object at import: the first iteration exhausts it for the rest of the process", m.relpath, v.lineno)
    rep.ok(rule, "fickling/* classes", f"{n_cls} classes on the decompile/analysis path scanned; {n_attr} class-level mutable attribute(s) besides the import-time registries; {n_it} one-shot iterators bound at class/module level", "", nontrivial=False)


# module-level containers that are registries filled while classes are being created (import time), never per pickle
MODULE_LEVEL_REGISTRIES = {("fickling.fickle", "OPCODES_BY_NAME"), ("fickling.fickle", "OPCODE_INFO_BY_NAME")}


def check_module_level_state(repo: Repo, rep: Report):
    """A mutable object bound at module level and mutated from inside a function is process-wide state: caches keyed by
    path/mtime, memo tables, 'already seen' sets.  Whatever a query answers from it depends on what was asked before."""
    n_obj = 0
    for m in repo.modules.values():
        if m.name not in ("fickling.fickle", "fickling.analysis", "fickling.tracing", "fickling.loader", "fickling.pytorch", "fickling.exception"):
            continue
        for name, vals in m.assigns.items():
            mutable = any(isinstance(v, (ast.List, ast.Dict, ast.Set, ast.ListComp, ast.DictComp, ast.SetComp)) or (isinstance(v, ast.Call) and ((dotted(v.func) or "") in FRESH_CTORS or (dotted(v.func) or "").split(".")[-1] in ("WeakKeyDictionary", "WeakValueDictionary", "OrderedDict", "defaultdict", "Counter", "deque")) and (dotted(v.func) or "") not in ("tuple", "frozenset")) for v in vals)
            if not mutable or (m.name, name) in MODULE_LEVEL_REGISTRIES:
                continue
            n_obj += 1
            writers = []
            for f in repo.functions.values():
                if f.kind == "module" or f.name == "__init_subclass__":
                    continue
                local = set(f.params()) | {t.id for n in body_walk(f.node) if isinstance(n, (ast.Assign, ast.AnnAssign, ast.For)) for t in store_targets(n) if isinstance(t, ast.Name)}
                globs = {g for n in body_walk(f.node) if isinstance(n, ast.Global) for g in n.names}
                for n in body_walk(f.node):
                    hit = None
                    if isinstance(n, ast.Call) and isinstance(n.func, ast.Attribute) and n.func.attr in MUTATORS:
                        b = base_of(n.func.value)
                        if isinstance(b, ast.Name) and b.id == name and (name not in local or name in globs) and repo.resolve_expr(f.module, b, ()) == f"{m.name}.{name}":
                            hit = n
                    if isinstance(n, (ast.Assign, ast.AugAssign, ast.Delete)):
                        for t in store_targets(n):
                            b = base_of(t)
                            if isinstance(t, ast.Subscript) and isinstance(b, ast.Name) and b.id == name and (name not in local or name in globs) and repo.resolve_expr(f.module, b, ()) == f"{m.name}.{name}":
                                hit = n
                            if isinstance(t, ast.Name) and t.id == name and name in globs:
                                hit = n
                    if hit is not None:
                        writers.append((f, hit))
            if writers:
                f, n = writers[0]
                rep.bad("C13.no-shared-default", f"{m.name}.{name}", f"module-level-mutable:{name}", f"`{name}` is a module-level mutable object written from {f.qualname} (`{src(n)[:70]}`): state kept for the life of the process, so a later query (another pickle, the same file after it changed, another activation) is answered from what an earlier one left there", m.relpath, n.lineno)
            else:
                rep.ok("C13.no-shared-default", f"{m.name}.{name}", "module-level container never written from inside a function", f"{m.relpath}:{vals[0].lineno}", nontrivial=False)
    rep.ok("C13.no-shared-default", "fickling/* modules", f"{n_obj} module-level mutable object(s) besides the import-time registries examined", "", nontrivial=False)


def check_registry(repo: Repo, rep: Report):
    ab = repo.cls("fickling.analysis.Analysis")
    defining = sorted({c.module.name for c in repo.subclasses(ab, strict=True)})
    # import-time import graph from the package __init__
    graph: Dict[str, Set[str]] = {}
    for m in repo.modules.values():
        deps = set()
        for st in m.tree.body:
            if isinstance(st, ast.Import):
                for a in st.names:
                    deps.add(a.name)
            elif isinstance(st, ast.ImportFrom):
                src_mod = repo._abs_import(m, st.level, st.module)
                deps.add(src_mod)
                for a in st.names:
                    deps.add(f"{src_mod}.{a.name}")
        graph[m.name] = {d for d in deps if d in repo.modules}
    seen = set()
    todo = ["fickling"]
    while todo:
        x = todo.pop()
        if x in seen:
            continue
        seen.add(x)
        todo.extend(graph.get(x, ()))
    missing = [d for d in defining if d not in seen]
    if missing:
        rep.bad("C13.registry-complete", "fickling.__init__", f"analysis-module-not-imported:{','.join(missing)}", f"importing the package does not import {missing}, which define(s) Analysis subclasses: whether those analyses are in Analysis.ALL (hence the verdict) depends on what else the process imported before the default Analyzer was first built", "fickling/__init__.py", 1)
    else:
        rep.ok("C13.registry-complete", "fickling.__init__", f"package import reaches every module defining an Analysis: {defining}", "fickling/__init__.py:1")
    isc = ab.method("__init_subclass__")
    appends = [n for n in body_walk(isc.node) if isinstance(n, ast.Call) and dotted(n.func) == "Analysis.ALL.append"] if isc else []
    g = CFG(isc.node) if isc else None
    if appends and g.node_of(appends[0]).id in g.post_dominators().get(g.entry, set()):
        rep.ok("C13.registry-complete", isc.qualname, "every Analysis subclass is registered unconditionally at class creation", f"{isc.file}:{isc.line}")
    else:
        rep.bad("C13.registry-complete", ab.qualname + ".__init_subclass__", "conditional-registration", "Analysis subclasses are not registered unconditionally at class creation", ab.module.relpath, ab.node.lineno)


def check_one_shot(repo: Repo, rep: Report):
    sums = all_summaries(repo)
    check_ast_fields(repo, rep, sums, rule="C13.no-one-shot", only_kinds={"iterator-for-sequence"})
    # attributes of long-lived objects holding iterators
    pk = repo.cls(PICKLED)
    for name, fs in pk.methods.items():
        for f in fs:
            for n in body_walk(f.node):
                if isinstance(n, (ast.Assign, ast.AnnAssign)) and n.value is not None:
                    v = n.value
                    is_iter = isinstance(v, ast.GeneratorExp) or (isinstance(v, ast.Call) and dotted(v.func) in ("iter", "reversed", "map", "filter", "zip", "enumerate"))
                    if is_iter and any(dotted(t) and dotted(t).startswith("self.") for t in store_targets(n)):
                        rep.bad("C13.no-one-shot", f.qualname, f"iterator-attribute:{src(store_targets(n)[0])}", f"`{src(n)}` keeps a one-shot iterator on the Pickled object: the second reader finds it exhausted", f.file, n.lineno)


def check_process_state(repo: Repo, rep: Report):
    from ..callgraph import CallGraph
    from ..effects import PROCESS_STATE_SETTERS
    from .c01 import analysis_reach, entry_points

    cg = CallGraph(repo)
    reached, parent, sites = analysis_reach(repo, cg, entry_points(repo))
    if len(reached) < 150:
        raise AnalysisError(f"only {len(reached)} functions reached from the query entry points (about 200 on the pinned tree)")
    n = 0
    for s0 in sites:
        for q in sorted(s0.externals):
            if q in PROCESS_STATE_SETTERS:
                n += 1
                rep.bad("C13.no-process-state", s0.func.qualname, f"process-setting:{q}", f"`{src(s0.node)}` changes a process-wide setting from inside a read-only query (reached via {' -> '.join(cg.path_to(parent, s0.func.qualname)[-4:])}): whether a later (or the same) question succeeds now depends on which query was asked first, and results computed under the changed setting are cached", s0.func.file, s0.line)
    # stores to sys.* / os.environ[...] in reached functions
    for qn, f in reached.items():
        local_imports = {}
        for st in body_walk(f.node):
            if isinstance(st, ast.Import):
                for a in st.names:
                    local_imports[(a.asname or a.name).split(".")[0]] = a.name if a.asname else a.name.split(".")[0]
            if isinstance(st, ast.ImportFrom) and st.module and not st.level:
                for a in st.names:
                    local_imports[a.asname or a.name] = f"{st.module}.{a.name}"
        for st in body_walk(f.node):
            if isinstance(st, (ast.Assign, ast.AugAssign, ast.AnnAssign, ast.Delete)):
                for t in store_targets(st):
                    b = base_of(t)
                    d = dotted(b) or ""
                    root = d.split(".")[0]
                    if root in f.params() or not d:
                        continue
                    tgt = local_imports.get(root) or (repo.resolve_expr(f.module, ast.Name(id=root, ctx=ast.Load()), set(f.params())) if root in f.module.imports else "") or ""
                    tgt = tgt.split(".")[0] if tgt.split(".")[0] in ("sys", "os", "locale", "gc", "warnings", "builtins") else tgt
                    if tgt in ("sys", "os", "locale", "gc", "warnings", "builtins") and (isinstance(t, ast.Subscript) or "." in d):
                        n += 1
                        rep.bad("C13.no-process-state", qn, f"process-store:{d}", f"`{src(st)}` writes `{d}` (process-wide state) from inside a read-only query", f.file, st.lineno)
    # import-time module code: a setting changed when the package is imported holds for the whole process
    for m in repo.modules.values():
        if not m.name.startswith("fickling"):
            continue
        for st in m.tree.body:
            if isinstance(st, (ast.FunctionDef, ast.AsyncFunctionDef, ast.ClassDef)):
                continue
            for c0 in ast.walk(st):
                if isinstance(c0, ast.Call):
                    q = repo.resolve_expr(m, c0.func) or ""
                    if q in PROCESS_STATE_SETTERS:
                        n += 1
                        rep.bad("C13.no-process-state", f"{m.name} (import time)", f"process-setting:{q}", f"`{src(c0)}` runs when {m.name} is imported and changes a process-wide setting for everything else in the process: what fickling (and the program embedding it) accepts, refuses or renders now differs from a process that has not imported it - e.g. integers the default configuration refuses to print are written into pickles that a default-configured reader cannot load", m.relpath, c0.lineno)
    rep.ok("C13.no-process-state", "fickling/* (query entry points)", f"{len(reached)} reached functions, {len(sites)} call sites: {n} change(s) of process-wide settings", "")


def run(rep: Report, tier: str):
    repo = load_repo()
    rep.explanation = (
        "Structural exclusion of the known sources of non-determinism and observer effects: one-shot iterators in AST "
        "fields (E5/E6), writes by observers to shared state (opcode objects, singleton analyses, inspected nodes, the Pickled "
        "behind an Interpreter/Trace), partially filled caches, ordered iteration over sets, shared mutable defaults, "
        "import-order dependence of the analysis registry. Equality of answers across processes as such is not claimed."
    )
    rep.rule("C13.no-one-shot", "no AST field / Pickled attribute holds an iterator", 40)
    rep.rule("C13.read-only-queries", "observers write no shared state", 25)
    rep.rule("C13.cache-atomic", "caches are assigned only completely computed values", 2)
    rep.rule("C13.no-hash-order", "no ordered output from iterating a set", 1)
    rep.rule("C13.no-shared-default", "no mutable default argument is stored or mutated; no class-level mutable object is mutated through instances", 1)
    rep.rule("C13.registry-complete", "the analysis registry is complete after importing the package", 2)
    rep.rule("C13.no-process-state", "no read-only query changes a process-wide setting (recursion limit, environment, cwd, filters)", 1)
    # rules that do not need the opcode summaries first (they stand even if a handler defeats the abstract interpreter)
    for rule_fn in (check_cache_atomic, check_hash_order, check_shared_default, check_class_level_state, check_module_level_state, check_registry, check_process_state, check_one_shot, check_read_only):
        with rep.part(rule_fn.__name__):  # one rule the analyser cannot decide does not silence the others
            rule_fn(repo, rep)

    # value level, interpreted last: the same pickle analysed in a fresh process and after something else happened in the process
    from ..editworlds import explore_history

    rep.rule("C13.history-worlds", "program, summaries, verdict and bytes of a pickle are the same in a fresh process, after another pickle was analysed or half decompiled, and when asked twice", 1)
    found, n_worlds = explore_history(repo, tier)
    pkc = repo.cls("fickling.fickle.Pickled")
    for key, (c, msg) in sorted(found.items()):
        rep.bad("C13.history-worlds", pkc.qualname, key, f"{msg} [{c} world(s)]", pkc.module.relpath, pkc.node.lineno)
    rep.ok("C13.history-worlds", pkc.qualname, f"{n_worlds} worlds (7 pickles: every ordered pair with the other one fully analysed or half decompiled and abandoned before, and each one asked twice) interpreted in one interpreter each (class-level, module-level and cached state persists as in a process) and compared with a fresh one", "", nontrivial=True)

