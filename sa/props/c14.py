"""C14 -- edits through the sequence interface keep every derived view coherent.

Cache-invalidation discipline of `fickle.Pickled` (and subclasses), decided from the source:

* C14.invalidate   every method that mutates `self._opcodes` has, on every normal path after the
                   mutation, a reset (`= None`) of every derived cache attribute.
* C14.single-writer no code outside the class stores to / mutates the opcode list or the caches; the
                   caches are only ever assigned `None` or a fresh computation.
* C14.mixins       the MutableSequence mix-ins route through insert/__setitem__/__delitem__
                   (checked in Lib/_collections_abc.py's source).
* C14.views        every derived view is computed from the live list (no private copy survives).
"""

from __future__ import annotations

import ast
import sysconfig
from pathlib import Path
from typing import Dict, List, Optional, Set

from ..cfg import CFG
from ..model import ClassInfo, FuncInfo, Repo, dotted, load_repo
from ..report import AnalysisError, Report
from ..util import MUTATORS, base_of, body_walk, mutator_calls, norm, src, store_targets, walk_no_nested

PICKLED = "fickling.fickle.Pickled"
LIST_ATTR = "_opcodes"


def _self_attr(e: ast.AST, attr: Optional[str] = None) -> Optional[str]:
    if isinstance(e, ast.Attribute) and isinstance(e.value, ast.Name) and e.value.id == "self":
        if attr is None or e.attr == attr:
            return e.attr
    return None


def _aliases_of_list(fn: ast.AST) -> Set[str]:
    """Local names bound to `self._opcodes` itself (not to a copy)."""
    out: Set[str] = set()
    for n in body_walk(fn):
        if isinstance(n, ast.Assign) and _self_attr(n.value, LIST_ATTR):
            for t in n.targets:
                if isinstance(t, ast.Name):
                    out.add(t.id)
        if isinstance(n, ast.NamedExpr) and _self_attr(n.value, LIST_ATTR):
            out.add(n.target.id)
    return out


def _is_list_ref(e: ast.AST, aliases: Set[str]) -> bool:
    return bool(_self_attr(e, LIST_ATTR)) or (isinstance(e, ast.Name) and e.id in aliases)


def mutation_kind(st_or_expr: ast.AST, aliases: Set[str]) -> Optional[str]:
    """How (if at all) this CFG node's own statement mutates the opcode list."""
    if isinstance(st_or_expr, ast.stmt):
        for t in store_targets(st_or_expr) if not isinstance(st_or_expr, (ast.For, ast.With)) else []:
            if isinstance(t, ast.Subscript) and _is_list_ref(base_of(t), aliases):
                return "del-item" if isinstance(st_or_expr, ast.Delete) else "item-store"
            if _self_attr(t, LIST_ATTR):
                if isinstance(st_or_expr, ast.AugAssign):
                    return "aug-assign"
                return "rebind"
    for call, recv, meth in mutator_calls(st_or_expr):
        if _is_list_ref(recv, aliases):
            return f"call:{meth}"
    return None


def resets_in_stmt(st: ast.AST, cls: ClassInfo, repo: Repo, depth: int = 0) -> Set[str]:
    """Cache attributes that this single statement certainly resets to None."""
    out: Set[str] = set()
    if isinstance(st, ast.Assign) and isinstance(st.value, ast.Constant) and st.value.value is None:
        for t in store_targets(st):
            a = _self_attr(t)
            if a:
                out.add(a)
    if isinstance(st, ast.AnnAssign) and isinstance(st.value, ast.Constant) and st.value.value is None:
        a = _self_attr(st.target)
        if a:
            out.add(a)
    # `del self.x` / `self.__dict__.pop("x", None)`: how a functools.cached_property value is dropped
    if isinstance(st, ast.Delete):
        for t in st.targets:
            a = _self_attr(t)
            if a:
                out.add(a)
    if isinstance(st, ast.Expr) and isinstance(st.value, ast.Call) and isinstance(st.value.func, ast.Attribute) and st.value.func.attr == "pop" and st.value.args and isinstance(st.value.args[0], ast.Constant):
        recv = st.value.func.value
        if (dotted(recv) == "self.__dict__" or (isinstance(recv, ast.Call) and dotted(recv.func) == "vars" and recv.args and dotted(recv.args[0]) == "self")) and len(st.value.args) == 2:
            out.add(str(st.value.args[0].value))
    # helper call `self._invalidate()` whose every normal path resets
    if isinstance(st, ast.Expr) and isinstance(st.value, ast.Call) and depth < 3:
        f = st.value.func
        if isinstance(f, ast.Attribute) and isinstance(f.value, ast.Name) and f.value.id == "self":
            m = repo.find_method(cls, f.attr)
            if m is not None and m.kind == "method":
                out |= always_resets(m, cls, repo, depth + 1)
    return out


def always_resets(m: FuncInfo, cls: ClassInfo, repo: Repo, depth: int) -> Set[str]:
    g = CFG(m.node)
    pd = g.post_dominators()
    ent = pd.get(g.entry, set())
    out: Set[str] = set()
    for nid in ent:
        n = g.nodes[nid]
        if n.kind == "stmt" and n.ast is not None:
            out |= resets_in_stmt(n.ast, cls, repo, depth)
    return out


def run(rep: Report, tier: str):
    repo = load_repo()
    base = repo.cls(PICKLED)
    rep.explanation = (
        "Cache-invalidation discipline of fickle.Pickled decided on the parsed source: per-method "
        "CFG + post-dominators for 'every mutation of the opcode list is followed by a reset of every "
        "derived cache on all normal paths'; whole-package scan for outside writers; "
        "Lib/_collections_abc.py parsed for the MutableSequence mix-in routing."
    )
    rep.rule(
        "C14.invalidate",
        "each mutation site of self._opcodes is post-dominated (normal exits) by a reset of every cache attribute",
        3,
    )
    rep.rule(
        "C14.single-writer",
        "no store/mutation of _opcodes/_ast/_properties outside the class; caches assigned only None or a fresh computation",
        5,
    )
    rep.rule("C14.mixins", "MutableSequence mix-ins mutate only through insert/__setitem__/__delitem__", 7)
    rep.rule("C14.views", "derived views read the live opcode list / current caches", 6)

    classes = repo.subclasses(base)
    rep.units = {"classes": [c.qualname for c in classes], "modules_scanned": len(repo.modules)}

    # ---- which attributes are caches: assigned a non-None value outside __init__ in the class
    caches: Dict[str, List[str]] = {}
    for c in classes:
        for name, fs in c.methods.items():
            for f in fs:
                if name == "__init__":
                    continue
                for n in body_walk(f.node):
                    if isinstance(n, (ast.Assign, ast.AnnAssign, ast.AugAssign)):
                        val = n.value
                        for t in store_targets(n):
                            a = _self_attr(t)
                            # a cache holds something COMPUTED from the object; a flag or counter set to a literal is state of
                            # its own kind (e.g. an 'edited' marker) and not a derived view
                            if a and a != LIST_ATTR and not isinstance(val, ast.Constant):
                                caches.setdefault(a, []).append(f.qualname)
                    # setattr(self, "x", v)
                    if (
                        isinstance(n, ast.Call)
                        and dotted(n.func) == "setattr"
                        and len(n.args) == 3
                        and isinstance(n.args[0], ast.Name)
                        and n.args[0].id == "self"
                    ):
                        if isinstance(n.args[1], ast.Constant):
                            if n.args[1].value != LIST_ATTR:
                                caches.setdefault(n.args[1].value, []).append(f.qualname)
                        else:
                            raise AnalysisError(f"{f.qualname}: setattr(self, <non-literal>, ...) not understood")
    # functools.cached_property stores its value in the instance dict under the property's own name: that name is a cache
    # attribute too, reset by `del self.<name>` / `self.__dict__.pop("<name>", None)`
    cached_props: Set[str] = set()
    for c in classes:
        for name, fs in c.methods.items():
            for f in fs:
                for d in f.node.decorator_list:
                    dn = dotted(d) or (dotted(d.func) if isinstance(d, ast.Call) else "") or ""
                    if dn.split(".")[-1] == "cached_property":
                        cached_props.add(name)
                        caches.setdefault(name, []).append(f.qualname)
    for must, alt in (("_ast", "ast"), ("_properties", "properties")):
        if must not in caches and alt not in cached_props:
            raise AnalysisError(f"anchor: Pickled no longer fills the cache attribute {must}")
    rep.info(f"cache attributes of Pickled: {sorted(caches)} (filled in {sorted({q for v in caches.values() for q in v})})")
    # functools caches on methods are caches nothing resets
    for c in classes:
        for name, fs in c.methods.items():
            for f in fs:
                for d in f.node.decorator_list:
                    dn = dotted(d) or (dotted(d.func) if isinstance(d, ast.Call) else "")
                    if dn and dn.split(".")[-1] in ("lru_cache", "cache"):
                        rep.bad(
                            "C14.invalidate",
                            f.qualname,
                            f"decorator:{dn.split('.')[-1]}",
                            f"{f.qualname} is memoised with @{dn}; no edit of the opcode list resets that cache",
                            f.file,
                            f.line,
                        )

    # ---- C14.invalidate
    mutators_found = 0
    for c in classes:
        for name, fs in c.methods.items():
            for f in fs:
                if name == "__init__":
                    continue
                aliases = _aliases_of_list(f.node)
                g = CFG(f.node)
                pd = g.post_dominators()
                for n in g.find(lambda n: n.kind in ("stmt", "test", "for", "with") and n.ast is not None):
                    stn = n.ast
                    kind = mutation_kind(stn, aliases) if not isinstance(stn, (ast.FunctionDef, ast.ClassDef)) else None
                    if kind is None:
                        continue
                    mutators_found += 1
                    # list.extend / += consume their argument item by item: an iterable that raises part-way leaves the
                    # items delivered so far in the list, and the exception skips any reset that follows the statement
                    if kind in ("call:extend", "aug-assign"):
                        srcs = [c.args[0] for c, recv, meth in mutator_calls(stn) if meth == "extend" and c.args and _is_list_ref(recv, aliases)] if kind == "call:extend" else [stn.value]
                        binds = {}
                        for m_ in body_walk(f.node):
                            if isinstance(m_, ast.Assign):
                                for t_ in m_.targets:
                                    if isinstance(t_, ast.Name):
                                        binds.setdefault(t_.id, []).append(m_.value)

                        def materialised(e, depth=0):
                            if isinstance(e, (ast.List, ast.Tuple, ast.ListComp, ast.Constant)):
                                return True
                            if isinstance(e, ast.Call) and dotted(e.func) in ("list", "tuple", "sorted"):
                                return True
                            if isinstance(e, ast.Name) and e.id not in f.params() and e.id in binds and depth < 3:
                                return all(materialised(b, depth + 1) for b in binds[e.id])
                            return False

                        in_finally = False
                        for t_ in ast.walk(f.node):
                            if isinstance(t_, ast.Try) and any(stn is y for b_ in t_.body for y in ast.walk(b_)):
                                done_f: Set[str] = set()
                                for fs_ in t_.finalbody:
                                    done_f |= resets_in_stmt(fs_, c, repo)
                                if set(caches) <= done_f:
                                    in_finally = True
                        if srcs and not all(materialised(e) for e in srcs) and not in_finally:
                            rep.bad("C14.invalidate", f.qualname, f"{kind}:partial-on-exception", f"`{src(stn)}` consumes an arbitrary iterable item by item: if it raises part-way (a generator that fails, a lazily validated argument list) the opcodes delivered so far stay in the list while {', '.join('self.' + m for m in sorted(caches))} keep describing the old program - the reset after the statement is skipped by the exception. Materialise the argument first or reset in a `finally`", f.file, n.line)
                    if n.id not in pd:
                        # the mutation cannot reach a normal exit: nothing observable afterwards
                        rep.ok("C14.invalidate", f.qualname, f"{kind}: no normal exit after it", f"{f.file}:{n.line}")
                        continue
                    done: Set[str] = set()
                    for pid_ in pd[n.id]:
                        pn = g.nodes[pid_]
                        if pn.kind == "stmt" and pn.ast is not None and pid_ != n.id:
                            done |= resets_in_stmt(pn.ast, c, repo)
                    missing = sorted(set(caches) - done)
                    if missing:
                        rep.bad(
                            "C14.invalidate",
                            f.qualname,
                            f"{kind}:missing-reset:{','.join(missing)}",
                            f"`{src(stn)}` mutates the opcode list but {', '.join('self.' + m for m in missing)} "
                            f"is not reset to None on every normal path afterwards: a stale derived view survives the edit",
                            f.file,
                            n.line,
                        )
                    else:
                        rep.ok("C14.invalidate", f.qualname, f"{kind} followed by reset of {sorted(caches)}", f"{f.file}:{n.line}")
    if mutators_found < 3:
        raise AnalysisError(f"only {mutators_found} mutation sites of self._opcodes found in Pickled (expected insert/__setitem__/__delitem__)")

    # ---- C14.single-writer: (a) cache assignments inside the class
    for c in classes:
        for name, fs in c.methods.items():
            for f in fs:
                for n in body_walk(f.node):
                    if not isinstance(n, (ast.Assign, ast.AnnAssign, ast.AugAssign)):
                        continue
                    for t in store_targets(n):
                        a = _self_attr(t)
                        if a not in caches:
                            continue
                        val = n.value
                        if isinstance(val, ast.Constant) and val.value is None:
                            rep.ok("C14.single-writer", f.qualname, f"self.{a} = None", f"{f.file}:{n.lineno}")
                            continue
                        # must be a fresh computation (recomputing more often than needed is harmless;
                        # copying some other stored value is not)
                        fresh = isinstance(val, ast.Call)
                        if isinstance(val, ast.Name):
                            # a local bound (only) to a fresh computation in this very function
                            binds = [m.value for m in body_walk(f.node) if isinstance(m, ast.Assign) and any(isinstance(t, ast.Name) and t.id == val.id for t in m.targets)]
                            fresh = bool(binds) and all(isinstance(b, ast.Call) for b in binds) and val.id not in f.params()
                        if fresh:
                            rep.ok("C14.single-writer", f.qualname, f"self.{a} = {src(val)} (fresh computation)", f"{f.file}:{n.lineno}")
                        else:
                            rep.bad(
                                "C14.single-writer",
                                f.qualname,
                                f"cache-fill:{a}:not-fresh",
                                f"self.{a} is assigned `{src(val)}` which is not a fresh computation",
                                f.file,
                                n.lineno,
                            )
    # (a2) the opcode list is owned: what the class stores in self._opcodes is a container it created itself, and no
    # method hands the live list out.  A list shared with the caller (or with another Pickled built from the same list)
    # is edited behind this object's back: its caches are never reset.
    def fresh_container(v: ast.AST, f: FuncInfo) -> bool:
        if isinstance(v, (ast.List, ast.ListComp)):
            return True
        if isinstance(v, ast.Call) and dotted(v.func) in ("list", "copy.copy", "copy.deepcopy", "sorted"):
            return True
        if isinstance(v, ast.Call) and isinstance(v.func, ast.Attribute) and v.func.attr == "copy" and not v.args:
            return True
        if isinstance(v, ast.Subscript) and isinstance(v.slice, ast.Slice) and v.slice.lower is None and v.slice.upper is None and v.slice.step is None:
            return True
        if isinstance(v, ast.BinOp) and isinstance(v.op, ast.Add):
            return fresh_container(v.left, f) or fresh_container(v.right, f)
        if isinstance(v, ast.IfExp):
            return fresh_container(v.body, f) and fresh_container(v.orelse, f)
        if isinstance(v, ast.BoolOp):
            return all(fresh_container(x, f) for x in v.values)
        return False

    # the base class supplies append / extend / pop / remove / clear / reverse / += ...: collections.abc.MutableSequence
    # implements every one of them through insert / __setitem__ / __delitem__, which Pickled overrides (and which reset the
    # caches).  A concrete container base (list, UserList, deque) implements them directly on its own storage: those edits
    # never reach the overrides.
    CONCRETE = {"list", "builtins.list", "collections.UserList", "UserList", "collections.deque", "deque", "array.array"}
    pk_cls = repo.cls("fickling.fickle.Pickled")
    ext = [b for b in repo.mro(pk_cls) if not b.startswith("fickling.")]
    conc = [b for b in ext if b in CONCRETE or b.split("[")[0] in CONCRETE]
    if conc:
        rep.bad("C14.single-writer", pk_cls.qualname, f"base-mutators-bypass-overrides:{conc[0]}", f"Pickled derives from {conc[0]}, whose append/extend/pop/remove/clear/reverse/sort/+= work directly on its own storage instead of going through the overridden insert/__setitem__/__delitem__: edits made through them leave the cached program and import/call summaries stale", pk_cls.module.relpath, pk_cls.node.lineno)
        return
    if any(b.split("[")[0] in ("collections.abc.MutableSequence", "typing.MutableSequence") for b in ext):
        rep.ok("C14.single-writer", pk_cls.qualname, "mixin mutators come from collections.abc.MutableSequence (all routed through insert/__setitem__/__delitem__)", f"{pk_cls.module.relpath}:{pk_cls.node.lineno}")
    n_owned = 0
    for c in classes:
        for name, fs in c.methods.items():
            for f in fs:
                for n in body_walk(f.node):
                    if isinstance(n, (ast.Assign, ast.AnnAssign)) and n.value is not None:
                        for t in store_targets(n):
                            if _self_attr(t) == LIST_ATTR:
                                n_owned += 1
                                if fresh_container(n.value, f):
                                    rep.ok("C14.single-writer", f.qualname, f"self.{LIST_ATTR} = {src(n.value)} (a container this object created)", f"{f.file}:{n.lineno}")
                                else:
                                    rep.bad("C14.single-writer", f.qualname, f"list-not-owned:{LIST_ATTR}", f"`{src(n)}` may store a list the caller (or another Pickled) also holds: edits made through the other reference change this pickle's opcodes without resetting its caches", f.file, n.lineno)
                    if isinstance(n, (ast.Return, ast.Yield)) and n.value is not None and _self_attr(n.value) == LIST_ATTR:
                        rep.bad("C14.single-writer", f.qualname, f"list-leaked:{LIST_ATTR}", f"`{src(n)}` hands out the live opcode list: edits made through it bypass cache invalidation", f.file, n.lineno)
    if n_owned == 0:
        raise AnalysisError("Pickled never assigns self._opcodes (anchor vanished)")
    # (b) writers outside the class
    protected = set(caches) | {LIST_ATTR}
    class_funcs = {f.qualname for c in classes for fs in c.methods.values() for f in fs}
    pickled_like = {"pickled", "pickled_data", "p", "pickle", "stacked"}
    for f in repo.functions.values():
        owner = f
        while owner.parent is not None:
            owner = owner.parent
        if owner.qualname in class_funcs:
            continue
        in_other_class = f.cls is not None and not repo.is_subclass(f.cls, PICKLED)
        for n in body_walk(f.node):
            tgts = store_targets(n) if isinstance(n, (ast.Assign, ast.AugAssign, ast.AnnAssign, ast.Delete)) else []
            for t in tgts:
                b = base_of(t)
                if isinstance(b, ast.Attribute) and b.attr in protected:
                    recv = dotted(b.value)
                    if recv == "self" and in_other_class:
                        # a different class's own attribute that happens to share the name
                        rep.ok("C14.single-writer", f.qualname, f"self.{b.attr} of {f.cls.name} (unrelated attribute)", f"{f.file}:{n.lineno}", nontrivial=False)
                        continue
                    rep.bad(
                        "C14.single-writer",
                        f.qualname,
                        f"outside-store:{b.attr}",
                        f"`{src(n)}` writes {b.attr} of a Pickled from outside the class, bypassing cache invalidation",
                        f.file,
                        n.lineno,
                    )
            for call, recv, meth in (mutator_calls(n) if isinstance(n, ast.stmt) else []):
                if isinstance(recv, ast.Attribute) and recv.attr in protected:
                    r = dotted(recv.value)
                    if r == "self" and in_other_class:
                        continue
                    rep.bad(
                        "C14.single-writer",
                        f.qualname,
                        f"outside-mutation:{recv.attr}.{meth}",
                        f"`{src(call)}` mutates {recv.attr} of a Pickled from outside the class, bypassing cache invalidation",
                        f.file,
                        call.lineno,
                    )
            if isinstance(n, ast.Call) and dotted(n.func) == "setattr" and len(n.args) == 3:
                if isinstance(n.args[1], ast.Constant) and n.args[1].value in protected and not (
                    dotted(n.args[0]) == "self" and in_other_class
                ):
                    rep.bad(
                        "C14.single-writer",
                        f.qualname,
                        f"outside-setattr:{n.args[1].value}",
                        f"`{src(n)}` writes {n.args[1].value} from outside the class",
                        f.file,
                        n.lineno,
                    )
    rep.ok("C14.single-writer", "fickling/*", f"{len(repo.functions)} functions scanned for outside writers of {sorted(protected)}", "")

    # ---- C14.mixins
    if "collections.abc.MutableSequence" not in repo.mro(base):
        rep.bad(
            "C14.mixins",
            base.qualname,
            "not-mutable-sequence",
            f"Pickled no longer derives from collections.abc.MutableSequence (bases: {base.bases}); append/extend/pop/remove are not the audited mix-ins",
            base.module.relpath,
            base.node.lineno,
        )
    else:
        stdlib = Path(sysconfig.get_paths()["stdlib"]) / "_collections_abc.py"
        try:
            tree = ast.parse(stdlib.read_text())
        except Exception as e:
            raise AnalysisError(f"cannot parse {stdlib}: {e}")
        ms = next((n for n in tree.body if isinstance(n, ast.ClassDef) and n.name == "MutableSequence"), None)
        if ms is None:
            raise AnalysisError("MutableSequence not found in Lib/_collections_abc.py")
        mixins = ["append", "clear", "reverse", "extend", "pop", "remove", "__iadd__"]
        routed = {"insert", "__setitem__", "__delitem__"} | set(mixins)
        for mname in mixins:
            fn = next((n for n in ms.body if isinstance(n, ast.FunctionDef) and n.name == mname), None)
            if fn is None:
                raise AnalysisError(f"MutableSequence.{mname} not found in Lib/_collections_abc.py")
            okay = True
            for n in ast.walk(fn):
                # any attribute store / private state access on self would bypass the abstract interface
                if isinstance(n, ast.Attribute) and isinstance(n.value, ast.Name) and n.value.id == "self":
                    if n.attr not in routed and n.attr not in ("__class__", "pop", "index"):
                        okay = False
            overridden = any(c.method(mname) for c in classes)
            if overridden:
                rep.ok("C14.mixins", f"{base.qualname}.{mname}", "overridden in Pickled: subject to C14.invalidate directly", "")
            elif okay:
                rep.ok("C14.mixins", f"collections.abc.MutableSequence.{mname}", "mutates only via self.insert / self[i] = / del self[i] / other mix-ins", str(stdlib))
            else:
                raise AnalysisError(f"Lib/_collections_abc.py MutableSequence.{mname} touches unexpected attributes")
        for need in ("insert", "__setitem__", "__delitem__", "__getitem__", "__len__"):
            if repo.find_method(base, need) is None:
                rep.bad("C14.mixins", f"{base.qualname}.{need}", "missing-abstract", f"Pickled does not define {need}", base.module.relpath, base.node.lineno)

    # ---- C14.views
    def ret_exprs(f: FuncInfo) -> List[ast.AST]:
        return [n.value for n in body_walk(f.node) if isinstance(n, ast.Return) and n.value is not None]

    def live_iter(e: ast.AST) -> bool:
        # iter(self._opcodes) / self._opcodes[...] / len(self._opcodes) / iter(self)
        for n in ast.walk(e):
            if _self_attr(n, LIST_ATTR) or (isinstance(n, ast.Name) and n.id == "self"):
                return True
        return False

    for mname in ("__iter__", "__getitem__", "__len__"):
        f = repo.find_method(base, mname)
        if f is None:
            raise AnalysisError(f"Pickled.{mname} not found")
        rets = ret_exprs(f)
        bad = [r for r in rets if not any(_self_attr(n, LIST_ATTR) for n in ast.walk(r))]
        if not rets or bad:
            rep.bad("C14.views", f.qualname, "not-live-list", f"{f.qualname} does not return a view of self._opcodes ({[src(b) for b in bad]})", f.file, f.line)
        else:
            rep.ok("C14.views", f.qualname, f"returns {src(rets[0])}", f"{f.file}:{f.line}")
    # ast / properties getters: return the cache attribute that was filled from the current object
    for pname, cache, needle in (("ast", "_ast", "interpret"), ("properties", "_properties", "visit")):
        f = repo.find_method(base, pname, "property")
        if f is None:
            raise AnalysisError(f"Pickled.{pname} property not found")
        rets = ret_exprs(f)
        if pname in cached_props:
            # functools.cached_property: the getter runs once per (re)computation and must derive its value from self;
            # the caching and the reset (`del self.<name>`) are C14.invalidate's subject
            if rets and all(any((isinstance(a, ast.Name) and a.id == "self") or _self_attr(a) for c0 in ast.walk(r) if isinstance(c0, ast.Call) for a in c0.args) for r in rets):
                rep.ok("C14.views", f.qualname, f"cached_property computed from the current object: {src(rets[0])}", f"{f.file}:{f.line}")
            else:
                rep.bad("C14.views", f.qualname, "not-from-self", f"{f.qualname} (cached_property) does not compute its value from the current object", f.file, f.line)
            continue
        if not rets or any(not _self_attr(r, cache) for r in rets):
            rep.bad("C14.views", f.qualname, "not-from-cache", f"{f.qualname} returns {[src(r) for r in rets]}, not self.{cache}", f.file, f.line)
        else:
            # the computation must take self (the live object) as its source
            calls = [n for n in body_walk(f.node) if isinstance(n, ast.Call)]
            uses_self = any(
                any((isinstance(a, ast.Name) and a.id == "self") or _self_attr(a) for a in c.args) for c in calls
            )
            if uses_self:
                rep.ok("C14.views", f.qualname, f"self.{cache} computed from the current object", f"{f.file}:{f.line}")
            else:
                rep.bad("C14.views", f.qualname, "not-from-self", f"{f.qualname} does not compute self.{cache} from the current object", f.file, f.line)
    # "the serialised form is the concatenation of the current opcodes' encodings in order": the serialisers emit every
    # opcode of the live list, unfiltered and unmodified (same structural rule as C06.concat, under this property's name)
    from .c06 import check_concat

    check_concat(repo, rep, rule="C14.views")
    # the verdict is recomputed from the current object: fresh context, no memo of earlier results
    az = repo.cls("fickling.analysis.Analyzer")
    an = az.method("analyze")
    if an is None:
        raise AnalysisError("Analyzer.analyze not found")
    self_attrs = {n.attr for n in body_walk(an.node) if isinstance(n, ast.Attribute) and isinstance(n.value, ast.Name) and n.value.id == "self"}
    rets = [n.value for n in body_walk(an.node) if isinstance(n, ast.Return)]
    ctx_names = {t.id for n in body_walk(an.node) if isinstance(n, ast.Assign) and isinstance(n.value, ast.Call) and dotted(n.value.func) == "AnalysisContext" for t in n.targets if isinstance(t, ast.Name)}
    fresh_ctx = bool(ctx_names)
    decorated = [dotted(d) or (dotted(d.func) if isinstance(d, ast.Call) else "") for d in an.node.decorator_list]
    if fresh_ctx and self_attrs <= {"analyses"} and len(rets) == 1 and isinstance(rets[0], ast.Attribute) and rets[0].attr == "results" and isinstance(rets[0].value, ast.Name) and rets[0].value.id in ctx_names and not decorated:
        rep.ok("C14.views", an.qualname, "verdict computed in a fresh AnalysisContext from the current object; no stored results consulted", f"{an.file}:{an.line}")
    else:
        rep.bad("C14.views", an.qualname, "verdict-cached", f"Analyzer.analyze may answer from state kept between calls (self attributes used: {sorted(self_attrs)}, returns {[src(r) for r in rets]}, decorators {decorated}): after an edit of the opcode list the safety verdict can be the pre-edit one", an.file, an.line)
    cs = repo.func("fickling.analysis.check_safety")
    calls = [n for n in body_walk(cs.node) if isinstance(n, ast.Call) and isinstance(n.func, ast.Attribute) and n.func.attr == "analyze"]
    if len(calls) == 1 and not any(isinstance(n, ast.Attribute) and n.attr.startswith("_") and dotted(n.value) == "pickled" for n in body_walk(cs.node)):
        rep.ok("C14.views", cs.qualname, "check_safety always runs the analyzer on the object it is given", f"{cs.file}:{cs.line}")
    else:
        rep.bad("C14.views", cs.qualname, "verdict-cached", "check_safety does not unconditionally analyse the object it is given", cs.file, cs.line)
    # serialisers iterate the live list (full concat discipline is C06.concat)
    for mname in ("dumps", "dump"):
        f = repo.find_method(base, mname)
        if f is None:
            raise AnalysisError(f"Pickled.{mname} not found")
        loops = [n for n in body_walk(f.node) if isinstance(n, (ast.For, ast.comprehension))]
        iters = [l.iter for l in loops]
        good = [i for i in iters if (isinstance(i, ast.Name) and i.id == "self") or _self_attr(i, LIST_ATTR) or _self_attr(base_of(i), LIST_ATTR)]
        if good:
            rep.ok("C14.views", f.qualname, f"iterates {src(good[0])}", f"{f.file}:{f.line}")
        else:
            rep.bad("C14.views", f.qualname, "not-live-iteration", f"{f.qualname} does not iterate the live opcode list (iterates {[src(i) for i in iters]})", f.file, f.line)

    # value level, interpreted last: edit sequences with every view read before and after each edit
    from ..editworlds import explore as _edit_explore

    rep.rule("C14.edit-worlds", "after every edit of every sequence, program / summaries / verdict / bytes equal those of a fresh Pickled with the same opcodes; dumps() is the concatenation of the opcodes' data", 1)
    found, n_seq = _edit_explore(repo, tier)
    pkc = repo.cls("fickling.fickle.Pickled")
    for key, (c, msg) in sorted(found.items()):
        rep.bad("C14.edit-worlds", pkc.qualname, key, f"{msg} [{c} sequence(s)]", pkc.module.relpath, pkc.node.lineno)
    rep.ok("C14.edit-worlds", pkc.qualname, f"{n_seq} edit sequences (3 base pickles x every sequence of 1-2 of 11 operations: insert / delete / replace / append / extend / pop and four injection-helper calls; thorough: also of 3) interpreted with all four derived views read before the first and after each edit and compared with a freshly constructed Pickled of the same opcodes", "", nontrivial=True)

