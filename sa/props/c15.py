"""C15 -- injected constants and constructed opcodes mean what was asked, or are refused.

* C15.capture      type-lattice analysis of `ConstantOpcode.new`: classes are tried in ascending folded priority
                   (ties in definition order); for every input kind (bool, int, float, str, bytes, other) every class
                   that can win has a decoded kind (pickletools stack_after) equal to the input kind.
* C15.range        the value range a fixed-width integer class admits lies inside what its struct format can hold.
* C15.wire-format  for each registered opcode class the shape its effective encode path writes agrees with the shape
                   the pickletools argument descriptor reads, or the class refuses to encode.
"""

from __future__ import annotations

import ast
import pickletools
import struct
from typing import Dict, List, Optional, Set, Tuple

from ..minieval import _MISSING, Evaluator, PyRaise, Record, Unsupported
from ..model import ClassInfo, FuncInfo, Repo, dotted, load_repo, opcode_registry
from ..report import AnalysisError, Report
from ..util import body_walk, src

KINDS = ["true", "false", "int", "float", "str", "bytes", "other"]  # the two booleans are singleton kinds: identity tests decide them exactly
CO = "fickling.fickle.ConstantOpcode"
DECODED = {"bool": {"bool"}, "int": {"int"}, "int_or_bool": {"int"}, "float": {"float"}, "str": {"str"}, "bytes": {"bytes"}, "bytes_or_str": {"str"}, "bytearray": {"bytes"}}


def fold_attr(repo: Repo, c: ClassInfo, name: str, depth: int = 0):
    """Constant-fold a class attribute (through `Other.attr + 1` references)."""
    if depth > 20:
        raise Unsupported("attribute chain too deep")
    found = repo.find_attr(c, name)
    if found is None:
        raise Unsupported(f"{c.name}.{name} undefined")
    owner, e = found

    class Ev(Evaluator):
        def ev(self, x):
            if isinstance(x, ast.Attribute) and isinstance(x.value, ast.Name):
                k = repo.classes.get(repo.resolve_qual(repo.resolve_expr(owner.module, x.value) or ""))
                if k is not None:
                    return fold_attr(repo, k, x.attr, depth + 1)
                if x.value.id == "Endianness":
                    return {"Little": "<", "Big": ">"}.get(x.attr)
            if isinstance(x, ast.Name) and x.id not in self.env:
                # a sibling class attribute used in the class body
                try:
                    return fold_attr(repo, owner, x.id, depth + 1)
                except Unsupported:
                    pass
            return super().ev(x)

    return Ev({}).ev(e)


def constant_registry(repo: Repo) -> List[Tuple[ClassInfo, int]]:
    base = repo.cls(CO)
    isc = base.method("__init_subclass__")
    if isc is None or "ConstantInt" not in ast.unparse(isc.node):
        raise AnalysisError("ConstantOpcode.__init_subclass__ registration idiom not recognised")
    out = []
    for c in repo.subclasses(base, strict=True):
        if c.name == "ConstantInt":
            continue
        try:
            pr = fold_attr(repo, c, "priority")
        except Unsupported as e:
            raise AnalysisError(f"{c.qualname}.priority cannot be folded: {e}")
        if not isinstance(pr, int):
            raise AnalysisError(f"{c.qualname}.priority folds to {pr!r}")
        out.append((c, pr))
    out.sort(key=lambda t: (t[1], t[0].order))
    return out


# ------------------------------------------------------------------ admission by kind
def admits(repo: Repo, c: ClassInfo, kind: str, start: Optional[ClassInfo] = None, depth: int = 0) -> Set[str]:
    """Possible outcomes of `cls.validate(obj)` for an obj of this kind: subset of {accept, reject, error}."""
    mro = repo.mro_classes(c)
    if start is not None:
        mro = mro[mro.index(start) + 1:]
    f = None
    for k in mro:
        f = k.method("validate")
        if f is not None:
            owner = k
            break
    if f is None:
        return {"error"}
    if depth > 6:
        raise AnalysisError("validate chain too deep")
    out: Set[str] = set()

    def is_inst(kind: str, tnames: List[str]) -> Optional[bool]:
        table = {"true": {"bool", "int"}, "false": {"bool", "int"}, "int": {"int"}, "float": {"float"}, "str": {"str"}, "bytes": {"bytes"}, "other": set()}
        if kind == "other":
            return False if all(t in ("int", "float", "str", "bytes", "bool", "bytearray") for t in tnames) else None
        return any(t in table[kind] for t in tnames)

    def test(t: ast.AST, kind: str, objname: str) -> Optional[bool]:
        if isinstance(t, ast.UnaryOp) and isinstance(t.op, ast.Not):
            r = test(t.operand, kind, objname)
            return None if r is None else not r
        if isinstance(t, ast.Call) and dotted(t.func) == "isinstance" and len(t.args) == 2 and dotted(t.args[0]) == objname:
            tn = t.args[1]
            names = [dotted(x) for x in tn.elts] if isinstance(tn, ast.Tuple) else [dotted(tn)]
            return is_inst(kind, [n or "?" for n in names])
        if isinstance(t, ast.Compare) and len(t.ops) == 1 and isinstance(t.ops[0], (ast.Is, ast.IsNot)) and dotted(t.left) == objname and isinstance(t.comparators[0], ast.Constant) and (t.comparators[0].value is None or isinstance(t.comparators[0].value, bool)):
            cv = t.comparators[0].value
            same = (cv is True and kind == "true") or (cv is False and kind == "false")
            if cv is None and kind == "other":
                return None  # None is one of the 'other' values
            return same if isinstance(t.ops[0], ast.Is) else not same
        if isinstance(t, ast.Compare) and "struct_types" in src(t):
            return False  # cls.num_bytes not in cls.struct_types: configuration, not input
        if isinstance(t, ast.BoolOp):
            rs = [test(v, kind, objname) for v in t.values]
            if isinstance(t.op, ast.Or):
                return True if any(r is True for r in rs) else (False if all(r is False for r in rs) else None)
            return False if any(r is False for r in rs) else (True if all(r is True for r in rs) else None)
        return None

    def block(stmts, kind: str, objname: str) -> Set[str]:
        res: Set[str] = set()
        for i, st in enumerate(stmts):
            if isinstance(st, ast.Expr) and isinstance(st.value, ast.Constant):
                continue
            if isinstance(st, ast.If):
                r = test(st.test, kind, objname)
                if r is True:
                    sub = block(st.body + stmts[i + 1:], kind, objname) if not _terminates(st.body) else block(st.body, kind, objname)
                    return res | sub
                if r is False:
                    return res | block(st.orelse + stmts[i + 1:], kind, objname)
                a = block(st.body, kind, objname) if _terminates(st.body) else block(st.body + stmts[i + 1:], kind, objname)
                b = block(st.orelse + stmts[i + 1:], kind, objname)
                return res | a | b
            if isinstance(st, ast.Raise):
                name = dotted(st.exc.func) if isinstance(st.exc, ast.Call) else dotted(st.exc)
                return res | ({"reject"} if name == "ValueError" or (name or "").endswith("PickleDecodeError") else {"error"})
            if isinstance(st, ast.Return):
                v = st.value
                if isinstance(v, ast.Call) and isinstance(v.func, ast.Attribute) and v.func.attr == "validate" and isinstance(v.func.value, ast.Call) and dotted(v.func.value.func) == "super":
                    arg = v.args[0] if v.args else None
                    k2 = kind
                    if isinstance(arg, ast.Call) and isinstance(arg.func, ast.Attribute) and arg.func.attr == "encode":
                        k2 = "bytes" if kind == "str" else "error"
                        if k2 == "error":
                            return res | {"error"}
                    return res | admits(repo, c, k2, start=owner, depth=depth + 1)
                return res | {"accept"}
            if isinstance(st, (ast.Assign, ast.AnnAssign)) and st.value is not None:
                v = st.value
                txt = src(v)
                if isinstance(v, ast.Call) and dotted(v.func) == "int" and v.args and dotted(v.args[0]) == objname:
                    conv = {"true": {"ok"}, "false": {"ok"}, "int": {"ok"}, "float": {"ok"}, "str": {"ok", "reject"}, "bytes": {"ok", "reject"}, "other": {"error"}}[kind]
                    if "reject" in conv:
                        res.add("reject")
                    if "error" in conv:
                        return res | {"error"}
                    continue
                if isinstance(v, ast.Call) and dotted(v.func) == "float" and v.args and dotted(v.args[0]) == objname:
                    conv = {"true": {"ok"}, "false": {"ok"}, "int": {"ok"}, "float": {"ok"}, "str": {"ok", "reject"}, "bytes": {"error"}, "other": {"error"}}[kind]
                    if "reject" in conv:
                        res.add("reject")
                    if "error" in conv:
                        return res | {"error"}
                    continue
                if "encode_body()" in txt and "len(" in txt:
                    # DynamicLength.validate: length of the would-be body; possible for str/bytes payloads
                    if kind not in ("str", "bytes"):
                        return res | {"error"}
                    continue
                continue
            if isinstance(st, ast.Pass):
                continue
            if isinstance(st, ast.Expr):
                continue
            raise AnalysisError(f"{f.qualname}: statement {type(st).__name__} in a validator not understood")
        return res | {"accept"}  # falls off the end: returns None (accepted, argument None)

    params = f.params()
    objname = params[1] if len(params) > 1 else "obj"
    return block(list(f.node.body), kind, objname)


def _terminates(stmts) -> bool:
    return bool(stmts) and isinstance(stmts[-1], (ast.Raise, ast.Return))


def check_capture(repo: Repo, rep: Report):
    reg = constant_registry(repo)
    rep.units["constant_classes"] = [(c.name, p) for c, p in reg]
    if len(reg) < 15:
        raise AnalysisError(f"only {len(reg)} constant opcode classes registered (18 on the pinned tree)")
    by_name = {o.name: o for o in pickletools.opcodes}
    # ConstantOpcode.new: sorted by priority, first validate() that does not raise ValueError wins
    new = repo.cls(CO).method("new")
    txt = ast.unparse(new.node)
    if not ("sorted(" in txt and "key=lambda kv: kv[1]" in txt and "except ValueError" in txt and "subclass.validate(obj)" in txt):
        raise AnalysisError("ConstantOpcode.new: priority-search idiom not recognised")
    table: Dict[str, Dict[str, Set[str]]] = {}
    ci = repo.cls("fickling.fickle.ConstantInt")
    for c, pr in reg:
        table[c.name] = {k: admits(repo, c, k) for k in KINDS}
        # refine integer classes by the admitted range their validate compares against
        v = repo.find_method(c, "validate")
        if repo.is_subclass(c, ci.qualname) and v is not None and v.cls is ci:
            lo, hi, _, _ = int_range(repo, c)
            if lo > hi:
                for k in ("true", "false", "int"):
                    table[c.name][k] = table[c.name][k] - {"accept"} | {"reject"}
            else:
                for k, val in (("true", 1), ("false", 0)):
                    if table[c.name][k] >= {"accept"}:
                        table[c.name][k] = {"accept"} if lo <= val <= hi else (table[c.name][k] - {"accept"}) | {"reject"}
    for kind in KINDS:
        winners: List[Tuple[ClassInfo, str]] = []
        stopped = None
        for c, pr in reg:
            a = table[c.name][kind]
            if "accept" in a:
                winners.append((c, "always" if a == {"accept"} else "sometimes"))
                if a == {"accept"} and not (kind == "int"):
                    stopped = c
                    break
            if "error" in a and a == {"error"}:
                stopped = None
                winners.append((c, "raises"))
                break
        for c, how in winners:
            if how == "raises":
                rep.ok("C15.capture", f"{CO}.new", f"{kind}: search ends in {c.name}.validate raising a non-ValueError (the value is refused)", f"{c.module.relpath}:{c.node.lineno}", nontrivial=False)
                continue
            opname = repo.find_attr(c, "name")[1].value
            after = [x.name for x in by_name[opname].stack_after]
            dec = DECODED.get(after[0], set()) if after else set()
            want = "bool" if kind in ("true", "false") else kind
            if kind == "other":
                rep.bad("C15.capture", c.qualname + ".validate", f"admits-other", f"{c.name}.validate admits values that are neither int, float, str nor bytes", c.module.relpath, c.node.lineno)
                continue
            if kind in ("true", "false") and want not in dec:
                rep.bad("C15.capture", c.qualname + ".validate", "captures:bool", f"{kind.title()} handed to ConstantOpcode.new is accepted by {c.name} (priority {dict((x.name, p) for x, p in reg)[c.name]}) whose opcode {opname} decodes to {after}: it arrives as the int {1 if kind == 'true' else 0}, silently", c.module.relpath, c.node.lineno, what=f"bool -> {c.name}")
                continue
            if want in dec:
                rep.ok("C15.capture", c.qualname + ".validate", f"{kind} -> may be built as {opname} ({how}), which decodes to {after[0]}", f"{c.module.relpath}:{c.node.lineno}")
            else:
                rep.bad(
                    "C15.capture",
                    c.qualname + ".validate",
                    f"captures:{kind}",
                    f"a {kind} handed to ConstantOpcode.new can be accepted ({how}) by {c.name} (priority {dict((x.name, p) for x, p in reg)[c.name]}, tried before the {kind} classes) whose opcode {opname} decodes to {after}: the value arrives as a different kind instead of being refused",
                    c.module.relpath,
                    c.node.lineno,
                    what=f"{kind} -> {c.name}",
                )
        if not winners:
            rep.ok("C15.capture", f"{CO}.new", f"{kind}: no class admits it -> ValueError (refused)", "", nontrivial=False)


def int_range(repo: Repo, c: ClassInfo) -> Tuple[int, int, int, bool]:
    """(min_value, max_value, num_bytes, signed) as ConstantInt.__init_subclass__ computes them for class c."""
    ci = repo.cls("fickling.fickle.ConstantInt")
    isc = ci.method("__init_subclass__")
    if isc is None:
        raise AnalysisError("ConstantInt.__init_subclass__ not found")
    try:
        nb = fold_attr(repo, c, "num_bytes")
        signed = fold_attr(repo, c, "signed")
    except Unsupported as e:
        raise AnalysisError(f"{c.qualname}: {e}")
    vals: Dict[str, int] = {}

    class Ev(Evaluator):
        def ev(self, x):
            if isinstance(x, ast.Attribute) and dotted(x.value) == "cls":
                if x.attr in vals:
                    return vals[x.attr]
                return fold_attr(repo, c, x.attr)
            return super().ev(x)

    e2 = Ev({})
    try:
        for st in isc.node.body:
            _run(st, e2, vals)
    except Unsupported as ex:
        raise AnalysisError(f"ConstantInt.__init_subclass__: cannot fold range for {c.name}: {ex}")
    lo, hi = vals.get("min_value"), vals.get("max_value")
    if lo is None or hi is None:
        raise AnalysisError(f"{c.name}: min_value/max_value not computed")
    return lo, hi, nb, bool(signed)


def check_range(repo: Repo, rep: Report):
    ci = repo.cls("fickling.fickle.ConstantInt")
    for c in repo.subclasses(ci, strict=True):
        lo, hi, nb, signed = int_range(repo, c)
        bits = nb * 8
        rlo, rhi = (-(1 << (bits - 1)), (1 << (bits - 1)) - 1) if signed else (0, (1 << bits) - 1)
        inside = lo > hi or (rlo <= lo and hi <= rhi)
        if inside:
            rep.ok("C15.range", c.qualname, f"admits [{lo}, {hi}]{' (empty)' if lo > hi else ''} within the {nb}-byte {'signed' if signed else 'unsigned'} range [{rlo}, {rhi}]", f"{c.module.relpath}:{c.node.lineno}")
        else:
            rep.bad("C15.range", c.qualname, "range-exceeds-format", f"{c.name} admits [{lo}, {hi}] but its {nb}-byte {'signed' if signed else 'unsigned'} encoding holds only [{rlo}, {rhi}]: a boundary value is accepted and then wraps / mis-encodes", c.module.relpath, c.node.lineno)


def _run(st: ast.stmt, ev: Evaluator, vals: Dict[str, int]):
    if isinstance(st, ast.Assign):
        v = ev.ev(st.value) if not (isinstance(st.value, ast.Call) and "super()" in src(st.value)) else None
        for t in st.targets:
            if isinstance(t, ast.Name):
                ev.env[t.id] = v
            elif isinstance(t, ast.Attribute) and dotted(t.value) == "cls":
                vals[t.attr] = v
    elif isinstance(st, ast.If):
        if ev.truth(ev.ev(st.test)):
            for s in st.body:
                _run(s, ev, vals)
        else:
            for s in st.orelse:
                _run(s, ev, vals)
    elif isinstance(st, (ast.Return, ast.Expr, ast.Pass)):
        return
    else:
        raise Unsupported(f"statement {type(st).__name__}")


# ------------------------------------------------------------------ wire format
EXPECT = {
    "uint1": ("fixed", 1, False), "uint2": ("fixed", 2, False), "int4": ("fixed", 4, True), "uint4": ("fixed", 4, False), "uint8": ("fixed", 8, False),
    "long1": ("lenprefix", 1, "twos-complement"), "long4": ("lenprefix", 4, "twos-complement"),
    "string1": ("lenprefix", 1, "raw"), "string4": ("lenprefix", 4, "raw"),
    "bytes1": ("lenprefix", 1, "raw"), "bytes4": ("lenprefix", 4, "raw"), "bytes8": ("lenprefix", 8, "raw"), "bytearray8": ("lenprefix", 8, "raw"),
    "unicodestring1": ("lenprefix", 1, "raw"), "unicodestring4": ("lenprefix", 4, "raw"), "unicodestring8": ("lenprefix", 8, "raw"),
    "decimalnl_short": ("decimal-line",), "decimalnl_long": ("decimal-line",), "floatnl": ("decimal-line",),
    "stringnl": ("quoted-line",), "stringnl_noescape": ("text-line",), "unicodestringnl": ("escaped-line",),
    "stringnl_noescape_pair": ("pair-of-lines",), "float8": ("float8",), None: ("empty",),
}


def body_shape(repo: Repo, c: ClassInfo, f: FuncInfo) -> Tuple:
    """Shape written by an encode_body / encode implementation (pattern table over its return expressions)."""
    owner = f.cls
    rets = [n.value for n in body_walk(f.node) if isinstance(n, ast.Return) and n.value is not None]
    if not rets:
        return ("unknown", "no return")
    raises = [n for n in body_walk(f.node) if isinstance(n, ast.Raise)]
    txts = [src(r, 300) for r in rets]
    shapes = set()
    for r, t in zip(rets, txts):
        if owner.qualname == "fickling.fickle.Opcode" and f.name == "encode_body":
            shapes.add(("base",))
        elif "struct.pack" in t:
            call = next(x for x in ast.walk(r) if isinstance(x, ast.Call) and dotted(x.func) == "struct.pack")
            fmt = call.args[0]
            if isinstance(fmt, ast.Constant) and isinstance(fmt.value, str):
                import struct as _s
                code = fmt.value.lstrip("<>=!@")
                shapes.add(("fixed", _s.calcsize("<" + code), code.islower() and code not in ("d", "f"), "float8" if code in ("d",) else ""))
            else:
                try:
                    nb, signed = fold_attr(repo, c, "num_bytes"), fold_attr(repo, c, "signed")
                except Unsupported:
                    return ("unknown", t)
                shapes.add(("fixed", nb, bool(signed)))
        elif t.startswith("bytes([") :
            shapes.add(("fixed", 1, False))
        elif ".to_bytes(" in t:
            call = next(x for x in ast.walk(r) if isinstance(x, ast.Call) and isinstance(x.func, ast.Attribute) and x.func.attr == "to_bytes")
            n = call.args[0].value if call.args and isinstance(call.args[0], ast.Constant) else None
            signed = any(k.arg == "signed" and isinstance(k.value, ast.Constant) and k.value.value for k in call.keywords)
            shapes.add(("fixed", n, signed))
        elif isinstance(r, ast.Call) and isinstance(r.func, ast.Attribute) and r.func.attr == "encode" and isinstance(r.func.value, ast.JoinedStr):
            js = r.func.value
            lits = [v.value for v in js.values if isinstance(v, ast.Constant)]
            nl = sum(str(x).count("\n") for x in lits)
            nvals = sum(1 for v in js.values if isinstance(v, ast.FormattedValue))
            missing = [a.attr for v in js.values if isinstance(v, ast.FormattedValue) for a in ast.walk(v.value) if isinstance(a, ast.Attribute) and dotted(a.value) == "self" and a.attr != "arg" and repo.find_method(c, a.attr) is None and repo.find_method(c, a.attr, "property") is None and repo.find_attr(c, a.attr) is None]
            if missing:
                shapes.add(("refuses", f"references missing attribute self.{missing[0]} (AttributeError)"))
            elif nvals == 1 and nl == 1 and str(lits[-1]).endswith("\n"):
                shapes.add(("decimal-line",))
            elif nvals == 1 and nl == 0:
                shapes.add(("decimal-without-newline",))
            elif nvals == 2 and nl < 2:
                shapes.add(("pair-without-terminators",))
            elif nvals == 2 and nl == 2:
                shapes.add(("pair-of-lines", "with-opcode" if str(lits[0])[:1] else ""))
            else:
                shapes.add(("unknown", t))
        elif t.startswith("repr(self.arg).encode"):
            shapes.add(("repr-no-newline",))
        elif t.startswith("raw_unicode_escape(self.arg).encode"):
            rue = repo.lookup("fickling.fickle.raw_unicode_escape")
            ends_nl = isinstance(rue, FuncInfo) and any(isinstance(n, ast.Call) and src(n) == "s.append('\\n')" for n in body_walk(rue.node))
            shapes.add(("escaped-line",) if ends_nl else ("escaped-no-newline",))
        elif t in ("text", "self.arg"):
            shapes.add(("raw",))
        elif "encode_opcode()" in t and "encode_length" in t:
            shapes.add(("lenprefix-wrapper",))
        elif "encode_opcode()" in t and "encode_body()" in t:
            shapes.add(("opcode+body",))
        elif t == "b''":
            shapes.add(("empty",))
        else:
            shapes.add(("unknown", t))
    if len(shapes) == 1:
        return shapes.pop()
    if shapes == {("raw",)}:
        return ("raw",)
    return ("unknown", "; ".join(txts))


# representative argument per fixed-width descriptor: every byte distinct, so width, order and sign are all visible
_FIXED_REPR = {"uint1": 0xA1, "uint2": 0xA1B2, "uint4": 0xA1B2C3D4, "int4": -0x5E4D3C2C, "uint8": 0xA1B2C3D4E5F60718}


def base_encoder_shape(repo: Repo, oc, f: FuncInfo) -> Tuple:
    """Opcode.encode_body (the encoder every class without its own inherits), interpreted for this class: with the
    class's own pickletools descriptor in `self.info` and a representative argument."""
    info = oc.info
    argname = info.arg.name if info.arg else None
    if info.arg is None:
        inf = Record("OpcodeInfo", {"arg": None, "name": info.name, "proto": info.proto, "code": info.code})
        reps = [None]
    else:
        inf = Record("OpcodeInfo", {"arg": Record("ArgumentDescriptor", {"n": info.arg.n, "name": info.arg.name}), "name": info.name, "proto": info.proto, "code": info.code})
        reps = [_FIXED_REPR[argname]] if argname in _FIXED_REPR else [7, "text", b"bytes"]
    outs = []
    for rv in reps:
        selfr = Record(oc.cls.name, {"info": inf, "arg": rv, "__class__": Record("type", {"__name__": oc.cls.name})})
        try:
            out = Evaluator({"self": selfr}).run_body(f.node.body)
        except PyRaise as pe:
            outs.append(("refuses", f"Opcode.encode_body raises {pe.name} for a {type(rv).__name__ if rv is not None else 'missing'} argument"))
            continue
        except Unsupported as e:
            return ("unknown", f"Opcode.encode_body for {oc.cls.name}: {e}")
        if not isinstance(out, bytes):
            return ("unknown", f"Opcode.encode_body evaluated to a {type(out).__name__}")
        if info.arg is None:
            outs.append(("empty",) if out == b"" else ("wrong-bytes", f"writes {out!r} for an opcode without argument"))
        elif argname in _FIXED_REPR:
            want = rv.to_bytes(info.arg.n, "little", signed=(argname == "int4"))
            outs.append(("fixed", info.arg.n, argname == "int4") if out == want else ("wrong-bytes", f"{oc.cls.name}({rv:#x}) is written as {out.hex()} where `{argname}` reads {want.hex()} (little-endian, {info.arg.n} byte(s))"))
        else:
            outs.append(("wrong-bytes", f"a generic encoder writes {out!r} for the `{argname}` descriptor"))
    kinds = {o[0] for o in outs}
    if kinds == {"refuses"}:
        return ("base",)
    bad = [o for o in outs if o[0] == "wrong-bytes"]
    if bad:
        return bad[0]
    acc = [o for o in outs if o[0] != "refuses"]
    return acc[0] if acc else ("base",)


def check_wire(repo: Repo, rep: Report):
    ops, _ = opcode_registry(repo)
    for oc in ops:
        c = oc.cls
        arg = oc.info.arg.name if oc.info.arg else None
        want = EXPECT.get(arg)
        if want is None:
            raise AnalysisError(f"argument descriptor {arg} not in the expectation table")
        enc = repo.find_method(c, "encode")
        encb = repo.find_method(c, "encode_body")
        q = c.qualname
        where = f"{c.module.relpath}:{c.node.lineno}"
        got: Tuple
        es = body_shape(repo, c, enc)
        if es[0] == "opcode+body":
            bs = body_shape(repo, c, encb)
            if bs[0] == "base":
                bs = base_encoder_shape(repo, oc, encb)
            if bs[0] == "base":
                got = ("empty",) if arg is None else ("refuses", "inherits Opcode.encode_body with a non-empty argument (NotImplementedError)")
            elif bs[0] == "wrong-bytes":
                rep.bad("C15.wire-format", q, f"shape-mismatch:{oc.opname}", f"{c.name} inherits Opcode.encode_body, which for this class: {bs[1]}: the bytes do not disassemble back to this opcode with this argument", encb.file, encb.line, what=f"{oc.opname}: {bs[1]}")
                continue
            else:
                got = bs
        elif es[0] == "lenprefix-wrapper":
            bs = body_shape(repo, c, encb)
            try:
                lb = fold_attr(repo, c, "length_bytes")
                ls = fold_attr(repo, c, "length_signed")
            except Unsupported as e:
                raise AnalysisError(f"{q}: {e}")
            if bs[0] == "base":
                got = ("refuses", "no encode_body")
            else:
                got = ("lenprefix", lb, {"raw": "raw", "repr-no-newline": "repr (quotes included)"}.get(bs[0], bs[0]))
        elif es[0] == "pair-of-lines":
            got = ("pair-of-lines",)
        else:
            got = es
        if got[0] == "refuses":
            rep.ok("C15.wire-format", q, f"{oc.opname}: refuses to encode ({got[1]})", where, nontrivial=False)
            continue
        if got[0] == "unknown":
            raise AnalysisError(f"{q}: encoder shape not recognised: {got[1][:120]}")
        ok = False
        if want[0] == "fixed":
            ok = got[0] == "fixed" and got[1] == want[1] and bool(got[2]) == want[2]
        elif want[0] == "lenprefix":
            ok = got[0] == "lenprefix" and got[1] == want[1] and got[2] == want[2]
        elif want[0] == "quoted-line":
            ok = got[0] in ("quoted-line",)
        else:
            ok = got[0] == want[0]
        if ok:
            rep.ok("C15.wire-format", q, f"{oc.opname}: writes {got}, descriptor `{arg}` reads {want}", where)
        else:
            rep.bad("C15.wire-format", q, f"shape-mismatch:{oc.opname}", f"{c.name} encodes its argument as {got} but the `{arg}` descriptor of {oc.opname} reads {want}: the bytes do not disassemble back to this opcode with this argument", c.module.relpath, c.node.lineno, what=f"{oc.opname}: {got} vs {want}")


def check_length_units(repo: Repo, rep: Report):
    """A length-prefixed constant class must bound, in validate, the byte length of what encode_body will write
    (by delegating to DynamicLength.validate, which measures len(cls(obj).encode_body()))."""
    dl = repo.cls("fickling.fickle.DynamicLength")
    base_v = dl.method("validate")
    if base_v is None:
        raise AnalysisError("DynamicLength.validate not found")
    # what does the base validator measure?  the quantity compared with min_value/max_value
    bp = base_v.params()
    objp = bp[1] if len(bp) > 1 else None
    binds = {t.id: n.value for n in body_walk(base_v.node) if isinstance(n, ast.Assign) for t in n.targets if isinstance(t, ast.Name)}

    def resolve(e, depth=0):
        while isinstance(e, ast.Name) and e.id in binds and depth < 5:
            e = binds[e.id]
            depth += 1
        return e

    measured = None
    for n in body_walk(base_v.node):
        if isinstance(n, ast.Compare) and any((dotted(x) or "").endswith(("min_value", "max_value")) for x in [n.left] + n.comparators):
            for x in [n.left] + n.comparators:
                r = resolve(x)
                if isinstance(r, ast.Call) and dotted(r.func) == "len" and r.args:
                    a = resolve(r.args[0])
                    if isinstance(a, ast.Call) and isinstance(a.func, ast.Attribute) and a.func.attr == "encode_body":
                        measured = measured or "encoded-body"
                    elif isinstance(a, ast.Name) and a.id == objp:
                        measured = "raw-len"
                    else:
                        measured = measured or f"other:{src(a)}"
    if measured is None or measured.startswith("other:"):
        raise AnalysisError(f"DynamicLength.validate: the quantity compared with min_value/max_value is not understood ({measured})")
    raw_len = measured == "raw-len"
    for c, pr in constant_registry(repo):
        if not repo.is_subclass(c, dl.qualname):
            continue
        v = repo.find_method(c, "validate")
        chain_ok = False
        cur_owner = None
        f = v
        depth = 0
        kind = None  # what reaches the base validator: 'bytes' | 'str' | None (unknown)
        while f is not None and depth < 6:
            if f.cls is dl:
                chain_ok = True
                break
            rets = [n.value for n in body_walk(f.node) if isinstance(n, ast.Return) and n.value is not None]
            deleg = [r for r in rets if isinstance(r, ast.Call) and isinstance(r.func, ast.Attribute) and r.func.attr == "validate" and isinstance(r.func.value, ast.Call) and dotted(r.func.value.func) == "super"]
            if not rets or len(deleg) != len(rets):
                break
            pn = f.params()[1] if len(f.params()) > 1 else None
            for n in body_walk(f.node):
                if isinstance(n, ast.Call) and dotted(n.func) == "isinstance" and len(n.args) == 2 and dotted(n.args[0]) == pn and kind is None:
                    tn = src(n.args[1])
                    kind = "str" if tn == "str" else ("bytes" if tn in ("bytes", "bytearray", "(bytes, bytearray)") else None)
            for r in deleg:
                a = r.args[0] if r.args else None
                if isinstance(a, ast.Call) and isinstance(a.func, ast.Attribute) and a.func.attr == "encode":
                    kind = "bytes"
                elif isinstance(a, ast.Call) and dotted(a.func) in ("bytes", "bytearray"):
                    kind = "bytes"
                elif not (isinstance(a, ast.Name) and a.id == pn):
                    kind = None
            # next validate in the MRO after f.cls
            mro = repo.mro_classes(c)
            nxt = None
            for k in mro[mro.index(f.cls) + 1:]:
                if k.method("validate") is not None:
                    nxt = k.method("validate")
                    break
            f = nxt
            depth += 1
        if chain_ok and raw_len and kind != "bytes":
            if kind is None:
                raise AnalysisError(f"{c.qualname}.validate: DynamicLength.validate measures len(obj) and the kind of value {c.name} passes to it is not understood")
            rep.bad("C15.length-units", c.qualname + ".validate", "length-in-characters", f"DynamicLength.validate bounds len(obj) and {c.name}.validate hands it the text itself, so the {fold_attr(repo, c, 'length_bytes')}-byte length prefix is chosen by the number of characters: text whose UTF-8 encoding is longer than its character count is accepted by ConstantOpcode.new for this class and fails (or is cut) when the pickle is serialised", c.module.relpath, c.node.lineno)
        elif chain_ok:
            rep.ok("C15.length-units", c.qualname + ".validate", "bounds the byte length of the encoded body (delegates to DynamicLength.validate on every accepting path)" if not raw_len else "hands DynamicLength.validate the encoded bytes, whose len() is the body length", f"{c.module.relpath}:{c.node.lineno}")
        else:
            rep.bad("C15.length-units", c.qualname + ".validate", "length-not-of-encoded-body", f"{c.name}.validate ({v.qualname}) accepts a value without bounding the byte length of what encode_body writes (it does not delegate to DynamicLength.validate on every accepting path): a value whose encoding exceeds the {fold_attr(repo, c, 'length_bytes')}-byte length prefix is accepted by ConstantOpcode.new and only fails later, while the pickle is being serialised", c.module.relpath, c.node.lineno)


# Character classes of the raw-unicode-escape reader (what the UNICODE opcode's argument is decoded with, up to the next
# newline): one representative per class; the encoder touches characters only through comparisons with constants and
# fixed-width formatting, so a representative stands for its class.  The constants the encoder itself compares with are
# added (with both neighbours) when the rule runs.
TEXT_CLASSES = [
    ("printable-ascii", "Az09 ~'\""), ("backslash", "a\\b"), ("backslash-u-literal", "\\u0041"), ("backslash-n-literal", "a\\nb"),
    ("newline", "a\nb"), ("carriage-return", "a\rb"), ("nul", "a\x00b"), ("ctrl-z", "\x1a"), ("control", "\x01\x1f"), ("del", "\x7f"),
    ("latin1-0x80", "\x80"), ("latin1", "\xe9\xff"), ("bmp", "\u0100\u20ac\uffff"), ("astral", "\U00010000\U0001f600\U0010ffff"), ("empty", ""),
]


def check_text_escape(repo: Repo, rep: Report):
    """UNICODE's text encoder, interpreted (sa/minieval) over one representative per character class of the
    raw-unicode-escape reader: the bytes it writes must end with the line terminator, contain no other newline, and
    decode (stdlib codec = the reader's specification) to exactly the text handed in - or the build must refuse."""
    uc = repo.classes.get("fickling.fickle.Unicode")
    if uc is None:
        rep.ok("C15.text-escape", "fickling.fickle.Unicode", "class absent", "", nontrivial=False)
        return
    eb = repo.find_method(uc, "encode_body")
    va = repo.find_method(uc, "validate")
    if eb is None or va is None or eb.cls is None or eb.cls.name == "Opcode":
        rep.ok("C15.text-escape", uc.qualname, "no encoder of its own: refuses to encode", "", nontrivial=False)
        return

    def call_hook(name, args, kw, ev):
        f = repo.lookup(f"fickling.fickle.{name}") if "." not in name else None
        if isinstance(f, FuncInfo) and f.cls is None:
            env = dict(zip(f.params(), args))
            if len(env) != len(f.params()):
                raise Unsupported(f"arity of {name}")
            return Evaluator(env, call_hook=call_hook).run_body(f.node.body)
        if name == "ValueError" or name == "TypeError":
            return Record(name, {})
        return _MISSING

    classes = list(TEXT_CLASSES)
    # what the reader makes of a backslash depends on the length of the run it is in and on what follows the run: every text
    # of up to three characters over an alphabet with one character per reader class, and longer runs in front of u / U / a
    # character that needs an escape itself
    import itertools

    alphabet = ["\\", "u", "U", "0", "a", "\n", "\xe9", "\x01", "\u20ac"]
    for n_ in (1, 2, 3):
        for tup in itertools.product(alphabet, repeat=n_):
            classes.append(("text:" + "".join(tup).encode("unicode_escape").decode("ascii"), "".join(tup)))
    for run in (2, 3, 4, 5):
        for tail in ("u0041", "U00000041", "\xe9", "\x01", "n", ""):
            classes.append((f"backslash-run-{run}-before-{tail.encode('unicode_escape').decode('ascii') or 'end'}", "x" + "\\" * run + tail))
    consts = set()
    for f in (eb, va, repo.lookup("fickling.fickle.raw_unicode_escape")):
        if isinstance(f, FuncInfo):
            for n in body_walk(f.node):
                if isinstance(n, ast.Constant) and isinstance(n.value, int) and not isinstance(n.value, bool) and 0 < n.value <= 0x10FFFF:
                    consts.add(n.value)
    for c in sorted(consts):
        reps = "".join(chr(x) for x in (c - 1, c, c + 1) if 0 <= x <= 0x10FFFF and not 0xD800 <= x <= 0xDFFF)
        classes.append((f"around-constant-{c:#x}", reps))
    bad = 0
    for cname, text in classes:
        try:
            arg = Evaluator({"cls": Record("Unicode", {"__name__": "Unicode"}), "obj": text}, call_hook=call_hook).run_body(va.node.body)
            out = Evaluator({"self": Record("Unicode", {"arg": arg})}, call_hook=call_hook).run_body(eb.node.body)
        except PyRaise as pe:
            rep.ok("C15.text-escape", uc.qualname, f"[{cname}] refused at build time with {pe.name}", f"{eb.file}:{eb.line}", nontrivial=False)
            continue
        except Unsupported as e:
            raise AnalysisError(f"C15.text-escape: cannot interpret Unicode.validate/encode_body for class {cname}: {e}")
        if not isinstance(out, bytes):
            raise AnalysisError(f"C15.text-escape: Unicode.encode_body evaluated to {type(out).__name__}, not bytes")
        why = None
        if not out.endswith(b"\n"):
            why = "the body does not end with the newline that terminates a UNICODE argument"
        elif b"\n" in out[:-1]:
            why = "the body contains a raw newline: the reader stops there and the rest is read as opcodes"
        else:
            try:
                back = out[:-1].decode("raw-unicode-escape")
            except UnicodeDecodeError as ex:
                back = None
                why = f"the reader cannot decode the body ({ex.reason})"
            if back is not None and back != text:
                why = f"the reader decodes it to {back!r}"
        if why is None:
            rep.ok("C15.text-escape", uc.qualname, f"[{cname}] {text!r} -> {out!r} reads back as itself", f"{eb.file}:{eb.line}")
        else:
            bad += 1
            rep.bad("C15.text-escape", uc.qualname, f"mis-escapes:{cname}", f"Unicode({text!r}) encodes its argument as {out!r}: {why}. The text handed to the helper silently arrives as a different value", eb.file, eb.line)


# ------------------------------------------------------------------ value-level agreement by interpretation (sa/objeval)
def _big(n):
    return 1 << n


INT_REPS = [0, 1, -1, 127, 128, -128, -129, 255, 256, 257, 65535, 65536, 65537, _big(31) - 1, _big(31), _big(31) + 1, -_big(31), -_big(31) - 1, _big(32) - 1, _big(32), _big(63) - 1, _big(63), _big(63) + 1, -_big(63), -_big(63) - 1, _big(64), _big(100), -_big(100)]
FLOAT_REPS = [0.0, -0.0, 1.5, -2.25, 1e300, 5e-324, float("inf"), float("-inf"), float("nan"), 3.0]
STR_REPS = ["", "a", "123", "-5", "Az09 ~", "it's", 'say "hi"', "a\\b", "\\u0041", "a\nb", "a\rb", "\x00", "\x1a\x7f", "\x80\xe9\xff", "\u0100\u20ac", "\U0001f600", "\ud800", "\udcc3\udca9", "name-\udce9.txt", "\udc80", "\\\\u0041", "C:\\\\Users\\\\me", "\\\\\\u0041", "a\\\\\xe9", "\\\\", "\u200b", "x" * 255, "x" * 256, "\xe9" * 127, "\xe9" * 128, "\u20ac" * 85, "\u20ac" * 86]
BYTES_REPS = [b"", b"a", b"123", b"\x00\xff", b"'", b"\n", b"\\", b"x" * 255, b"x" * 256]
OTHER_REPS = [None, (1,), [1], {"a": 1}, 1 + 2j, bytearray(b"ab")]


# opcodes whose value is implied by the opcode itself (pickletools: no argument, stack_after = [the value])
_IMPLICIT = {"NEWTRUE": True, "NEWFALSE": False, "NONE": None}


def _kind(v) -> str:
    return "bool" if isinstance(v, bool) else type(v).__name__


def _same(a, b) -> bool:
    if type(a) is not type(b):
        return False
    if isinstance(a, float):
        return struct.pack("<d", a) == struct.pack("<d", b)
    return a == b


def _label(v) -> str:
    """A stable class label for a representative (keys must not contain the value itself when it is huge)."""
    if isinstance(v, bool):
        return f"bool:{v}"
    if isinstance(v, int):
        if abs(v) < 70000:
            return f"int:{v}"
        bl = v.bit_length()
        exact = {(_big(n) + d): f"2^{n}{d:+d}" if d else f"2^{n}" for n in (31, 32, 63, 64, 100) for d in (-1, 0, 1)}
        return "int:" + ("-" if v < 0 else "") + exact.get(abs(v), f"~2^{bl}")
    if isinstance(v, float):
        return f"float:{v!r}"
    if isinstance(v, (str, bytes)):
        t = type(v).__name__
        if len(v) > 12:
            return f"{t}:{len(v)}x{v[:1]!r}"
        return f"{t}:{v!r}"
    return f"{_kind(v)}"


def make_objeval(repo: Repo):
    from ..objeval import ObjEval

    oe = ObjEval(repo)
    reg = sorted(constant_registry(repo), key=lambda t: t[0].order)
    oe.special_attrs[(CO, "ConstantOpcodePriorities")] = lambda: {oe.ref(c): p for c, p in reg}
    return oe


def _disassemble(data: bytes):
    """The standard disassembler's reading of `data` followed by STOP: [(opcode name, argument)] or an error text."""
    import io

    try:
        ops = [(o.name, a) for o, a, _ in pickletools.genops(io.BytesIO(data + b"."))]
    except Exception as ex:  # the specification side refusing the bytes
        return None, f"{type(ex).__name__}: {ex}"
    if not ops or ops[-1][0] != "STOP":
        return None, "no STOP where it was appended"
    return ops[:-1], None


def check_round_trip(repo: Repo, rep: Report, tier: str):
    """First half of the property, decided per representative of the property's own value classes: ConstantOpcode.new(v)
    -> .encode() interpreted from the source (sa/objeval), the bytes read by pickletools (the reader's specification):
    exactly one opcode, carrying a value of the same kind and equal to v - or the build refused."""
    from ..objeval import Instance

    oe = make_objeval(repo)
    cref = oe.ref(repo.cls(CO))
    reps = INT_REPS + [True, False] + FLOAT_REPS + STR_REPS + BYTES_REPS + OTHER_REPS
    if tier == "thorough":
        reps += [_big(n) + d for n in (7, 8, 15, 16, 24, 40, 56, 127, 2039, 2040) for d in (-1, 0, 1)] + [-(_big(n) + d) for n in (7, 8, 15, 16, 24, 40, 56, 127) for d in (-1, 0, 1)]
        reps += ["x" * 65535, "x" * 65536, "\xe9" * 32768, b"x" * 65536, "\ud800"]
    n_ok = n_ref = 0
    for v in reps:
        lab = _label(v)
        try:
            op = cref.sa_attr("new")(v)
            if not isinstance(op, Instance):
                raise AnalysisError(f"ConstantOpcode.new({lab}) evaluated to {op!r}")
            data = op.sa_attr("encode")()
        except PyRaise as pe:
            n_ref += 1
            rep.ok("C15.round-trip", CO + ".new", f"[{lab}] refused when the pickle is built ({pe.name})", "", nontrivial=False)
            continue
        except Unsupported as e:
            raise AnalysisError(f"C15.round-trip: cannot interpret ConstantOpcode.new/encode for {lab}: {e}")
        q = op.c.qualname
        where = f"{op.c.module.relpath}:{op.c.node.lineno}"
        if not isinstance(data, bytes):
            raise AnalysisError(f"{q}.encode evaluated to a {type(data).__name__}")
        ops, err = _disassemble(data)
        if ops is None or len(ops) != 1:
            rep.bad("C15.round-trip", q, f"unreadable:{_kind(v)}", f"ConstantOpcode.new({lab}) picks {op.c.name}, whose bytes {data[:40]!r} the standard disassembler reads as {err or ops!r}", op.c.module.relpath, op.c.node.lineno)
            continue
        name, got = ops[0]
        if name in _IMPLICIT:
            got = _IMPLICIT[name]
        if _same(got, v):
            n_ok += 1
            rep.ok("C15.round-trip", q, f"[{lab}] -> {name}, read back as the same {_kind(v)}", where)
        elif type(got) is not type(v):
            rep.bad("C15.round-trip", q, f"{_kind(v)}-arrives-as-{_kind(got)}", f"ConstantOpcode.new({lab}) picks {op.c.name} ({name}): the unpickler delivers {got!r}, a {_kind(got)}, not the {_kind(v)} handed in", op.c.module.relpath, op.c.node.lineno)
        else:
            rep.bad("C15.round-trip", q, f"value-changed:{_kind(v)}", f"ConstantOpcode.new({lab}) picks {op.c.name} ({name}): the unpickler delivers {got!r}", op.c.module.relpath, op.c.node.lineno)
    rep.extra["round_trip_representatives"] = len(reps)
    if n_ok < 25 and not any(f.rule == "C15.round-trip" for f in rep.findings):
        raise AnalysisError(f"only {n_ok} representatives round-tripped (about 70 on the pinned tree): the interpreter lost the encoders")


_DESC_REPS = {
    None: [()],
    "uint1": [0, 0xA1, 255, 256, -1], "uint2": [0, 0xA1B2, 65535, 65536, -1], "uint4": [0, 0xA1B2C3D4, _big(32) - 1, _big(32), -1],
    "int4": [0, 1, -1, 0x5E4D3C2C, -0x5E4D3C2C, _big(31) - 1, -_big(31), _big(31)], "uint8": [0, 0xA1B2C3D4E5F60718, _big(64) - 1, _big(64), -1],
    "long1": [0, 1, -1, 127, 128, -128, -129, 255, 256, -256, 65535, _big(63), -_big(63), _big(64) - 1, _big(2039) - 1, _big(2039)],
    "long4": [0, 1, -1, 127, 128, -128, -129, 255, 256, -256, 65535, _big(63), -_big(63), _big(64) - 1, _big(2039)],
    "decimalnl_short": [0, 1, -1, 255, _big(40), -_big(40)], "decimalnl_long": [0, 1, -1, 255, _big(100), -_big(100)],
    "float8": [0.0, -0.0, 1.5, 1e300, float("inf")], "floatnl": [0.0, 1.5, -2.25],
    "stringnl": ["", "abc", "it's", 'say "hi"', "a\\b", "a\nb", "\xe9"], "unicodestringnl": ["", "abc", "a\nb", "a\\b", "\\u0041", "\xe9", "\U0001f600"],
    "string1": ["", "abc", "it's", "\xe9\xff", "x" * 255, "x" * 256, "\u20ac"], "string4": ["", "abc", "it's", "\xe9\xff", "x" * 300, "\u20ac"],
    "bytes1": [b"", b"abc", b"\x00\xff", b"x" * 255, b"x" * 256], "bytes4": [b"", b"abc", b"\x00\xff", b"x" * 300], "bytes8": [b"", b"abc", b"x" * 300], "bytearray8": [b"", b"abc", bytearray(b"abc")],
    "unicodestring1": ["", "abc", "\xe9", "\U0001f600", "x" * 255, "x" * 256, "\xe9" * 128], "unicodestring4": ["", "abc", "\xe9", "\U0001f600", "x" * 300], "unicodestring8": ["", "abc", "\xe9", "x" * 300],
    "stringnl_noescape": ["abc", "1"], "stringnl_noescape_pair": ["mod attr", "os system"],
}


def _arg_matches(constructed, got) -> bool:
    if isinstance(constructed, float) and isinstance(got, float):
        return struct.pack("<d", constructed) == struct.pack("<d", got)
    if isinstance(constructed, (bytes, bytearray)) and isinstance(got, str):
        return got.encode("utf-8", "surrogatepass") == bytes(constructed)
    if isinstance(constructed, (bytes, bytearray)) and isinstance(got, (bytes, bytearray)):
        return bytes(constructed) == bytes(got)
    if isinstance(constructed, bool) or isinstance(got, bool):
        return constructed == got
    if type(constructed) is not type(got):
        return False
    return constructed == got


def check_wire_values(repo: Repo, rep: Report, tier: str):
    """Second half, value level: every registered opcode class, constructed directly with representatives of what its
    descriptor carries, either encodes (interpreted) to bytes pickletools reads back as that opcode with that argument, or
    refuses.  Also tried with the UTF-8 bytes of text representatives (what the validators store)."""
    from ..objeval import Instance

    oe = make_objeval(repo)
    ops, _ = opcode_registry(repo)
    n_cls = n_enc = 0
    for oc in ops:
        c = oc.cls
        n_cls += 1
        arg = oc.info.arg.name if oc.info.arg else None
        if arg not in _DESC_REPS:
            raise AnalysisError(f"argument descriptor {arg} has no representatives")
        reps = list(_DESC_REPS[arg])
        if arg and arg.startswith("unicodestring"):
            reps += [r.encode("utf-8") for r in _DESC_REPS[arg] if isinstance(r, str)]
        bad_seen = set()
        encoded = refused = 0
        for r in reps:
            lab = "no argument" if r == () else _label(r)
            try:
                inst = oe.ref(c)(*(() if r == () else (r,)))
                data = inst.sa_attr("encode")()
            except PyRaise:
                refused += 1
                continue
            except Unsupported as e:
                raise AnalysisError(f"C15.wire-values: cannot interpret {c.qualname}({lab}).encode(): {e}")
            if not isinstance(data, bytes):
                raise AnalysisError(f"{c.qualname}.encode evaluated to a {type(data).__name__}")
            encoded += 1
            got, err = _disassemble(data) if oc.opname != "STOP" else ([("STOP", None)] if data == b"." else [("?", data)], None)
            why = None
            if got is None:
                why = f"the disassembler rejects them ({err})"
            elif len(got) != 1:
                why = f"they read as {len(got)} opcodes: {[g[0] for g in got][:4]}"
            elif got[0][0] != oc.opname:
                why = f"they read as {got[0][0]}"
            elif r != () and not _arg_matches(r, got[0][1]):
                why = f"the argument reads back as {got[0][1]!r:.60}"
            elif r == () and got[0][1] is not None:
                why = f"an argument {got[0][1]!r:.40} appears"
            if why:
                kindkey = _kind(r) if r != () else "none"
                if kindkey not in bad_seen:
                    bad_seen.add(kindkey)
                    rep.bad("C15.wire-values", c.qualname, f"misreads:{oc.opname}:{kindkey}", f"{c.name}({lab}).encode() = {data[:40]!r}: {why}. A constructible opcode object whose bytes do not disassemble back to itself", c.module.relpath, c.node.lineno)
        if encoded:
            n_enc += 1
        if not bad_seen:
            rep.ok("C15.wire-values", c.qualname, f"{oc.opname}: {encoded} representative(s) encode and read back as themselves, {refused} refused", f"{c.module.relpath}:{c.node.lineno}", nontrivial=bool(encoded))
    rep.extra["opcode_classes_interpreted"] = n_cls
    if n_enc < 25 and not any(f.rule == "C15.wire-values" for f in rep.findings):
        raise AnalysisError(f"only {n_enc} opcode classes produced bytes under interpretation (about 45 on the pinned tree)")


class _Demoted:
    """Runs an over-approximating type-level rule and keeps its results as *information* only.  C15.capture, C15.range and
    C15.length-units reason about all values of a kind, but 'may be accepted' there also covers values that are then
    refused while the pickle is serialised (struct.error, TypeError in a comparison) - which the property allows.  The
    deciding rules are the value-level ones; these stay in the evidence as the candidate list they are."""

    def __init__(self, rep: Report):
        self.rep = rep
        self.units = rep.units
        self.findings = []
        self.n = 0

    def ok(self, rule, construct, what, where="", nontrivial=True):
        self.n += 1

    def bad(self, rule, construct, detail, message, file, line, **kw):
        self.n += 1
        self.rep.info(f"type-level candidate (not a verdict) {rule}|{construct}|{detail}: {message[:200]}")

    def info(self, t):
        self.rep.info(t)


def payload_text_reps(tier: str):
    reps = [s for s in STR_REPS]
    if tier == "thorough":
        reps += ["x" * 65535, "x" * 65536, "\xe9" * 32768, "\u20ac" * 21845, "\u20ac" * 21846]
    return reps


def check_accepted_is_encodable(repo: Repo, rep: Report, rule: str, tier: str):
    """Used by C16 / C18 (the payload of --inject / inject_payload is text): whatever ConstantOpcode.new accepts for a text
    argument must also serialise - otherwise the failure comes from dumps(), after output has been opened / partly written."""
    from ..objeval import Instance

    oe = make_objeval(repo)
    cref = oe.ref(repo.cls(CO))
    n = 0
    for v in payload_text_reps(tier):
        lab = _label(v)
        try:
            op = cref.sa_attr("new")(v)
        except PyRaise as pe:
            try:
                v.encode("utf-8")
                encodable = True
            except UnicodeEncodeError:
                encodable = False
            if encodable:
                # any ordinary text is a legitimate payload: the CLI has already written the pickles before the target
                # (and inject_payload has opened the output archive) when the injection call raises
                rep.bad(rule, CO + ".new", f"refuses-text-payload:{pe.name}", f"ConstantOpcode.new({lab}) raises {pe.name} for ordinary text (no constant class takes it: an exception other than ValueError ends the priority search instead of moving on to the next class): the injection call fails after output has already been started", "fickling/fickle.py", repo.cls(CO).node.lineno)
            else:
                rep.ok(rule, CO + ".new", f"[{lab}] not encodable as UTF-8: refused ({pe.name})", "", nontrivial=False)
            continue
        except Unsupported as e:
            raise AnalysisError(f"{rule}: cannot interpret ConstantOpcode.new for {lab}: {e}")
        if not isinstance(op, Instance):
            raise AnalysisError(f"ConstantOpcode.new({lab}) evaluated to {op!r}")
        try:
            data = op.sa_attr("encode")()
        except PyRaise as pe:
            rep.bad(rule, op.c.qualname, f"accepted-but-unencodable:{'long-text' if len(v) > 200 else 'text'}", f"ConstantOpcode.new({lab}) accepts the payload as {op.c.name}, but {op.c.name}.encode() then raises {pe.name}: the injection call succeeds and the failure only surfaces in dumps(), after the output has been opened / partly written", op.c.module.relpath, op.c.node.lineno)
            continue
        except Unsupported as e:
            raise AnalysisError(f"{rule}: cannot interpret {op.c.name}.encode for {lab}: {e}")
        n += 1
        rep.ok(rule, op.c.qualname, f"[{lab}] accepted as {op.c.name} and serialises ({len(data)} bytes)", f"{op.c.module.relpath}:{op.c.node.lineno}")
    if n < 10 and not any(f.rule == rule for f in rep.findings):
        raise AnalysisError(f"{rule}: only {n} text payloads were accepted and serialised")


def check_argument_path(repo: Repo, rep: Report):
    """Who-may-construct: library code that builds a constant opcode directly (not through ConstantOpcode.new, whose
    winners C15.capture vets) must not pick a class whose encoder this very run found not to round-trip."""
    defective: Dict[str, str] = {}
    for f in rep.findings:
        if f.rule in ("C15.wire-values", "C15.round-trip"):
            defective.setdefault(f.construct.split(".")[-1] if f.construct.split(".")[-1][:1].isupper() else f.construct.split(".")[-2], f.rule)
        if f.rule == "C15.text-escape":
            defective.setdefault("Unicode", f.rule)
    co = repo.cls("fickling.fickle.ConstantOpcode")
    const = {c.name: c for c in repo.subclasses(co, strict=True)}
    n_sites = 0
    for g in repo.functions.values():
        if g.cls is not None and (g.cls is co or g.cls.name in const):
            continue  # the hierarchy's own constructors (`cls(...)` in new/create)
        for n in body_walk(g.node):
            if not isinstance(n, ast.Call):
                continue
            d = dotted(n.func) or ""
            parts = d.split(".")
            cname = None
            if parts[-1] in const:
                cname = parts[-1]
            elif len(parts) >= 2 and parts[-1] in ("new", "create") and parts[-2] in const:
                cname = parts[-2]
            if cname is None:
                continue
            q = repo.resolve_expr(g.module, n.func if parts[-1] in const else n.func.value, set(g.params())) or ""
            if not q.endswith(f"fickling.fickle.{cname}"):
                continue
            n_sites += 1
            lossy = [x for a in list(n.args) + [k.value for k in n.keywords] for x in ast.walk(a) if isinstance(x, ast.Call) and isinstance(x.func, ast.Attribute) and x.func.attr in ("encode", "decode") and any((k.arg == "errors" and not (isinstance(k.value, ast.Constant) and k.value.value == "strict")) for k in x.keywords) or (isinstance(x, ast.Call) and isinstance(x.func, ast.Attribute) and x.func.attr in ("encode", "decode") and len(x.args) >= 2 and not (isinstance(x.args[1], ast.Constant) and x.args[1].value == "strict"))]
            if lossy:
                rep.bad("C15.argument-path", g.qualname, f"lossy-argument-transform:{cname}", f"`{src(n)[:90]}` converts the value handed in with a non-strict error handler (`{src(lossy[0])[:60]}`): text the codec cannot represent (a lone surrogate from surrogateescape-decoded argv) is replaced instead of refused, so a different value arrives", g.file, n.lineno)
                continue
            if cname in defective:
                rep.bad("C15.argument-path", g.qualname, f"constructs-defective-encoder:{cname}", f"`{src(n)[:80]}` builds a {cname} opcode directly; its encoder does not round-trip ({defective[cname]} above), so the value handed in silently arrives as a different value", g.file, n.lineno)
            else:
                rep.ok("C15.argument-path", g.qualname, f"`{src(n)[:60]}` builds {cname} directly; its encoder has no finding", f"{g.file}:{n.lineno}")
    rep.ok("C15.argument-path", "fickling/*", f"{n_sites} direct construction site(s) of constant opcodes outside the opcode hierarchy; all other constants go through ConstantOpcode.new", "")


def run(rep: Report, tier: str):
    repo = load_repo()
    rep.explanation = (
        "Two agreement analyses over the constant-opcode registry and the encoders: a type-lattice evaluation of the "
        "validator priority search (which class can win for which input kind, vs the kind its opcode decodes to per pickletools), "
        "constant folding of the admitted integer ranges against the struct formats, and a shape comparison of every encoder "
        "with the pickletools argument descriptor it must be read back by. Per-value escaping/boundary correctness is not decided."
    )
    rep.rule("C15.text-escape", "the UNICODE text encoder writes, for every character class of the raw-unicode-escape reader, bytes that read back as the text (or refuses)", 12)
    rep.rule("C15.round-trip", "ConstantOpcode.new(v).encode(), interpreted, is read by the standard disassembler as one opcode carrying an equal value of the same kind - or the build refuses", 40)
    rep.rule("C15.wire-values", "every opcode class constructed directly encodes (interpreted) to bytes that disassemble back to that opcode and argument, or refuses", 25)
    rep.rule("C15.argument-path", "no helper constructs directly a constant opcode whose encoder does not round-trip", 2)
    rep.assume("pickletools argument descriptors and stack_after kinds are the specification of what the standard disassembler/unpickler reads")
    dem = _Demoted(rep)
    for fn_ in (check_capture, check_range, check_length_units):
        try:
            fn_(repo, dem)
        except AnalysisError as e:
            rep.info(f"type-level candidate pass {fn_.__name__} not applicable to this spelling of the code: {e}")
    rep.extra["type_level_candidate_instances"] = dem.n
    check_text_escape(repo, rep)
    check_round_trip(repo, rep, tier)
    check_wire_values(repo, rep, tier)
    check_argument_path(repo, rep)
