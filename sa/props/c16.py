"""C16 -- PyTorch payload insertion changes only the model pickle and keeps the model.

`PyTorchModelWrapper` is interpreted (sa.objeval) over an abstract file system by sa.torchworlds; what the emitted model
pickle does is read off CPython's unpickler on inert stand-ins.  That real tensors compare equal under torch is not decided.

* C16.archive-worlds  after every injection of every call sequence (one or two wrappers for the same path, overwrite on/off,
                      reads of `.pickled` in between): same member names in the same order; every other member
                      byte-identical (empty members, look-alike names, several orders and directory names); loading the
                      model pickle makes the calls of the input's model pickle plus exactly one exec(payload) and returns an
                      equal value; without overwrite the input is untouched, with overwrite it holds the injected archive
                      and no output remains; no other path appears.  "Input" is the file as it is when the call is made.
* C16.same-member     the member that is replaced is selected by the same predicate as the member `.pickled` parses.
* C16.fresh-parse     the parsed pickle is obtained per wrapper from the input archive (no process-wide cache).
* C16.payload-encodable  a text payload the injector accepts also serialises.

(The rules C16.rewrite-loop / C16.one-injection / C16.input-read-only of earlier rounds interpreted the insertion arm over
opaque member records with sa.minieval; the archive worlds decide the same clauses on what the emitted archive *is*, for
sequences of calls as well, so those rules were retired rather than kept as a second, cruder verdict.)
"""

from __future__ import annotations

import ast
from typing import Dict, List

from ..minieval import _MISSING, Evaluator, PyRaise, Record, Unsupported
from ..model import FuncInfo, Repo, dotted, load_repo
from ..report import AnalysisError, Report
from ..util import body_walk, src

W = "fickling.pytorch.PyTorchModelWrapper"


def run(rep: Report, tier: str):
    repo = load_repo()
    rep.explanation = (
        "PyTorchModelWrapper is interpreted over an abstract file system (sa.torchworlds): model archives with an empty member, "
        "a look-alike `xdata.pkl`, several member orders and directory names, real model-shaped pickles, one or two wrappers for "
        "the same path and sequences of inject_payload(insertion, overwrite on/off) and reads of `.pickled`. After every call "
        "the emitted archive is compared with the input as it was at that call: member names and order, other members' bytes, "
        "what loading the model pickle does on inert stand-ins (calls of the input's model pickle plus exactly one exec(payload), "
        "equal value), and where the archives are afterwards. Plus structural rules for the member predicate, the per-wrapper "
        "parse and the payload's encodability. That real tensors compare equal under torch is not decided (stand-ins only)."
    )
    rep.rule("C16.same-member", "the replaced member is selected like the parsed member", 1)
    rep.rule("C16.fresh-parse", "the parsed pickle comes from this wrapper's archive, not from a process-wide cache", 1)
    rep.rule("C16.payload-encodable", "a text payload the injector accepts also serialises (no failure from dumps() once the output archive is open)", 10)
    rep.rule("C16.archive-worlds", "after every injection of every sequence: same members in order, others byte-identical, model pickle = the input's plus one exec(payload) with an equal value, input untouched / replaced as asked, no stray path", 1)
    from .c15 import check_accepted_is_encodable

    check_accepted_is_encodable(load_repo(), rep, "C16.payload-encodable", tier)
    # ---- same-member predicate
    c = repo.cls(W)
    getter = c.method("pickled", "property")
    inj = c.method("inject_payload")
    def preds(fn):
        out = []
        for n in body_walk(fn.node):
            if isinstance(n, ast.Call) and isinstance(n.func, ast.Attribute) and n.func.attr in ("endswith", "startswith", "__eq__") and n.args and isinstance(n.args[0], ast.Constant):
                out.append((n.func.attr, n.args[0].value))
            if isinstance(n, ast.Compare) and len(n.ops) == 1 and isinstance(n.ops[0], (ast.Eq, ast.In)) and any(isinstance(x, ast.Constant) and isinstance(x.value, str) and "data.pkl" in x.value for x in [n.left] + n.comparators):
                k = [x.value for x in [n.left] + n.comparators if isinstance(x, ast.Constant)][0]
                out.append((type(n.ops[0]).__name__, k))
        return out
    pg, pi = preds(getter), preds(inj)
    if pg and pi and set(pg) == set(pi) and len(set(pg)) == 1:
        rep.ok("C16.same-member", c.qualname, f"parsed and replaced member both selected by `{pg[0][0]}({pg[0][1]!r})`", f"{getter.file}:{getter.line}")
    else:
        rep.bad("C16.same-member", c.qualname, "predicates-differ", f"the member parsed is selected by {pg} but the member replaced by {pi}: a different member than the one analysed/injected can be overwritten (or none)", getter.file, getter.line)
    # ---- fresh parse per wrapper
    loads = [n for n in body_walk(getter.node) if isinstance(n, ast.Call) and dotted(n.func) == "Pickled.load"]
    zips = [n for n in body_walk(getter.node) if isinstance(n, ast.Call) and dotted(n.func) == "zipfile.ZipFile" and n.args and dotted(n.args[0]) == "self.path"]
    cached = []
    for fn in repo.functions.values():
        if fn.module.name == "fickling.pytorch":
            for d in getattr(fn.node, "decorator_list", []):
                dn = dotted(d) or (dotted(d.func) if isinstance(d, ast.Call) else "") or ""
                if dn.split(".")[-1] in ("lru_cache", "cache", "cached_property"):
                    cached.append(fn)
    stores = [n for n in body_walk(getter.node) if isinstance(n, ast.Assign) and dotted(n.targets[0]) == "self._pickled"]
    if loads and zips and not cached and stores and all(s.value is loads[0] or any(s.value is x for x in loads) for s in stores):
        rep.ok("C16.fresh-parse", getter.qualname, "self._pickled = Pickled.load(<data.pkl of zipfile.ZipFile(self.path, 'r')>), per wrapper instance", f"{getter.file}:{getter.line}")
    else:
        why = f"memoised helper {cached[0].qualname}" if cached else "the getter does not parse the member of self.path itself"
        rep.bad("C16.fresh-parse", getter.qualname, "shared-parse", f"the parsed model pickle is not obtained per wrapper from the input archive ({why}): a Pickled object shared between wrappers is mutated by each injection, so a second injection into the same file carries both payloads", getter.file, getter.line)

    # ---- archive worlds (interpretive; last, so that the structural findings above stand if interpretation ends undecided)
    from .. import torchworlds

    inj = c.method("inject_payload")
    found, n = torchworlds.explore(repo, tier)
    for key, (cnt, msg) in sorted(found.items()):
        rep.bad("C16.archive-worlds", inj.qualname, key, f"{msg} [{cnt} world(s)]", inj.file, inj.line)
    if not found:
        rep.ok("C16.archive-worlds", inj.qualname, f"{n} worlds (archives x wrappers x call sequences): every clause holds after every injection", f"{inj.file}:{inj.line}")
