"""C16 -- PyTorch payload insertion changes only the model pickle and keeps the model.

`PyTorchModelWrapper` is interpreted (sa.objeval) over an abstract file system by sa.torchworlds; what the emitted model
pickle does is read off CPython's unpickler on inert stand-ins.  That real tensors compare equal under torch is not decided.

* C16.archive-worlds  after every injection of every call sequence (one or two wrappers for the same path, overwrite on/off,
                      reads of `.pickled` in between): same member names in the same order; every other member
                      byte-identical (empty members, look-alike names, several orders and directory names); loading the
                      model pickle makes the calls of the input's model pickle plus exactly one exec(payload) and returns an
                      equal value; without overwrite the input is untouched, with overwrite it holds the injected archive
                      and no output remains; no other path appears.  "Input" is the file as it is when the call is made.
* C16.payload-encodable  a text payload the injector accepts also serialises.

(The rules C16.rewrite-loop / C16.one-injection / C16.input-read-only of earlier rounds interpreted the insertion arm over
opaque member records with sa.minieval; the archive worlds decide the same clauses on what the emitted archive *is*, for
sequences of calls as well, so those rules were retired rather than kept as a second, cruder verdict.  C16.same-member and
C16.fresh-parse matched the shape of the `.pickled` getter; since the repair of F27 the insertion no longer goes through that
getter, a shared or memoised parse there cannot reach the emitted archive, and both rules fired on code where the property
holds (seeds C16-3 / C16-6 after the repair) - retired as false alarms; a parse shared between wrappers that does reach the
archive shows in the two-wrapper sequences.)
"""

from __future__ import annotations

import ast
from typing import Dict, List

from ..minieval import _MISSING, Evaluator, PyRaise, Record, Unsupported
from ..model import FuncInfo, Repo, dotted, load_repo
from ..report import AnalysisError, Report
from ..util import body_walk, src

W = "fickling.pytorch.PyTorchModelWrapper"


def run(rep: Report, tier: str):
    repo = load_repo()
    rep.explanation = (
        "PyTorchModelWrapper is interpreted over an abstract file system (sa.torchworlds): model archives with an empty member, "
        "a look-alike `xdata.pkl`, several member orders and directory names, real model-shaped pickles, one or two wrappers for "
        "the same path and sequences of inject_payload(insertion, overwrite on/off) and reads of `.pickled`. After every call "
        "the emitted archive is compared with the input as it was at that call: member names and order, other members' bytes, "
        "what loading the model pickle does on inert stand-ins (calls of the input's model pickle plus exactly one exec(payload), "
        "equal value), and where the archives are afterwards. Plus the payload's encodability. That real tensors compare equal under torch is not decided (stand-ins only)."
    )
    rep.rule("C16.payload-encodable", "a text payload the injector accepts also serialises (no failure from dumps() once the output archive is open)", 10)
    rep.rule("C16.archive-worlds", "after every injection of every sequence: same members in order, others byte-identical, model pickle = the input's plus one exec(payload) with an equal value, input untouched / replaced as asked, no stray path", 1)
    from .c15 import check_accepted_is_encodable

    check_accepted_is_encodable(load_repo(), rep, "C16.payload-encodable", tier)
    c = repo.cls(W)
    # ---- archive worlds (interpretive; last, so that the structural findings above stand if interpretation ends undecided)
    from .. import torchworlds

    inj = c.method("inject_payload")
    found, n = torchworlds.explore(repo, tier)
    for key, (cnt, msg) in sorted(found.items()):
        rep.bad("C16.archive-worlds", inj.qualname, key, f"{msg} [{cnt} world(s)]", inj.file, inj.line)
    if not found:
        rep.ok("C16.archive-worlds", inj.qualname, f"{n} worlds (archives x wrappers x call sequences): every clause holds after every injection", f"{inj.file}:{inj.line}")
