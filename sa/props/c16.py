"""C16 -- PyTorch payload insertion changes only the model pickle and keeps the model.

Only the archive-level clauses are decided (running the payload / equality of the reconstructed model need
torch at run time).  `PyTorchModelWrapper.inject_payload`'s insertion arm is interpreted over an abstract
archive (opaque member records; reads, writes and the injection call are recorded, nothing is performed):

* C16.rewrite-loop    every member of the input archive is written exactly once to the output, in archive order,
                      under the same name; its data is the member's own bytes verbatim, except the model pickle,
                      which is the re-serialised parsed pickle (empty members and look-alike names included).
* C16.same-member     the member that is replaced is selected by the same predicate as the member that was parsed.
* C16.one-injection   exactly one injection helper call, with the payload, on the parsed pickle, before it is written.
* C16.input-read-only without overwrite the input path is only opened for reading; with overwrite the only write is
                      the rename of the output onto it, after which no stray output remains.
* C16.fresh-parse     the parsed pickle is obtained per wrapper from the input archive (no process-wide cache).
"""

from __future__ import annotations

import ast
from typing import Dict, List

from ..minieval import _MISSING, Evaluator, PyRaise, Record, Unsupported
from ..model import FuncInfo, Repo, dotted, load_repo
from ..report import AnalysisError, Report
from ..util import body_walk, src

W = "fickling.pytorch.PyTorchModelWrapper"
INJECTORS = {"insert_python_exec", "insert_python", "insert_python_eval", "append_python", "insert_function_call_on_unpickled_object"}
MEMBERS = [("archive/data.pkl", b"<model pickle>"), ("archive/byteorder", b"little"), ("archive/data/0", b"\x00\x01"), ("archive/data/1", b""), ("archive/xdata.pkl", b"look-alike"), ("archive/version", b"3\n"), ("archive/.data/serialization_id", b"0123")]


def interpret(repo: Repo, overwrite: bool, IN: str = "INPUT.pt", OUT: str = "OUTPUT.pt"):
    c = repo.cls(W)
    f = c.method("inject_payload")
    if f is None:
        raise AnalysisError("PyTorchModelWrapper.inject_payload not found")
    log: List[tuple] = []
    pick = Record("Pickled", {})
    for inj in INJECTORS:
        pick.fields["()" + inj] = lambda *a, _i=inj, **k: log.append(("inject", _i, a, tuple(sorted(k.items())))) or None
    pick.fields["()dumps"] = lambda: ("INJECTED-PICKLE", len([x for x in log if x[0] == "inject"]))

    def make_zip(path, mode="r"):
        z = Record("ZipFile", {"path": path, "mode": mode})
        log.append(("zip-open", str(path), mode))
        items = []
        for name, data in MEMBERS:
            it = Record("ZipInfo", {"filename": name, "orig_filename": name, "file_size": len(data), "compress_size": len(data), "compress_type": 0, "external_attr": 0, "date_time": (1980, 1, 1, 0, 0, 0), "comment": b"", "extra": b"", "CRC": 0, "flag_bits": 0, "header_offset": 0})
            it.fields["()is_dir"] = lambda _n=name: _n.endswith("/")
            items.append(it)
        z.fields["()infolist"] = lambda: list(items)
        z.fields["()namelist"] = lambda: [n for n, _ in MEMBERS]

        def zopen(name, mode="r"):
            nm = name.fields["filename"] if isinstance(name, Record) else name
            data = dict(MEMBERS).get(nm)
            if data is None:
                raise PyRaise("KeyError")
            e = Record("ZipExtFile", {"name": nm})
            e.fields["()read"] = lambda *a, _nm=nm, _d=data: (log.append(("read", _nm)) or _d)
            return e

        z.fields["()open"] = zopen
        z.fields["()read"] = lambda name: (log.append(("read", name if isinstance(name, str) else name.fields["filename"])) or dict(MEMBERS)[name if isinstance(name, str) else name.fields["filename"]])
        z.fields["()writestr"] = lambda name, data, *a, **k: log.append(("write", name.fields["filename"] if isinstance(name, Record) else name, data, str(path))) or None
        z.fields["()write"] = lambda *a, **k: log.append(("write-file", a)) or None
        return z

    selfr = Record("Wrapper", {"path": IN, "formats": ["PyTorch v1.3"], "pickled": pick, "_pickled": pick, "force": False})

    def make_path(p):
        import posixpath

        r = Record("Path", {"p": str(p), "__str__": str(p), "name": posixpath.basename(str(p)), "stem": posixpath.splitext(posixpath.basename(str(p)))[0], "suffix": posixpath.splitext(str(p))[1]})
        r.fields["()with_name"] = lambda nm, _p=str(p): make_path(posixpath.join(posixpath.dirname(_p), nm))
        r.fields["()with_suffix"] = lambda sx, _p=str(p): make_path(posixpath.splitext(_p)[0] + sx)
        r.fields["()resolve"] = lambda *a, _r=r, **k: _r
        r.fields["()absolute"] = lambda *a, _r=r, **k: _r
        r.fields["()is_file"] = lambda _p=str(p): True
        r.fields["()rename"] = lambda dst: log.append(("rename", str(p), str(dst) if not isinstance(dst, Record) else dst.fields["p"])) or None
        r.fields["()exists"] = lambda: not any(x[0] == "rename" and x[1] == str(p) for x in log)
        r.fields["()unlink"] = lambda *a, **k: log.append(("remove", str(p))) or None
        return r

    def hook(name, args, kw, ev):
        last = name.split(".")[-1]
        if name in ("zipfile.ZipFile", "ZipFile"):
            return make_zip(*args, **kw)
        if name == "Path":
            a0 = args[0]
            return make_path(a0.fields["p"] if isinstance(a0, Record) else a0)
        if name in ("warnings.warn",):
            return None
        if name in ("os.remove", "os.unlink"):
            log.append(("remove", str(args[0].fields["p"] if isinstance(args[0], Record) else args[0])))
            return None
        if name in ("shutil.move", "os.rename", "os.replace", "shutil.copy", "shutil.copyfile"):
            log.append((last, str(args[0]), str(args[1])))
            return None
        if name in ("torch.save", "BaseInjection"):
            log.append(("torch", name))
            return Record("obj", {})
        if name == "open":
            log.append(("open", str(args[0]), args[1] if len(args) > 1 else kw.get("mode", "r")))
            return Record("file", {})
        return _MISSING

    env = {"self": selfr, "payload": "PAYLOAD", "output_path": OUT, "injection": "insertion", "overwrite": overwrite}
    ev = Evaluator(env, call_hook=hook)
    try:
        ev.run_body(f.node.body)
    except Unsupported as e:
        raise AnalysisError(f"inject_payload: cannot interpret over the abstract archive: {e}")
    except PyRaise as pe:
        log.append(("raised", pe.name))
    return f, log


def run(rep: Report, tier: str):
    repo = load_repo()
    rep.explanation = (
        "The insertion arm of PyTorchModelWrapper.inject_payload is interpreted over an abstract zip archive (seven members "
        "incl. an empty one and a look-alike `xdata.pkl`): every open/read/writestr/rename/remove and the injection call are "
        "recorded and compared with the required copy discipline, for both overwrite settings; plus structural rules for the "
        "member predicate and the per-wrapper parse. That the payload runs once and the model is equal needs torch at run time "
        "and is not decided."
    )
    rep.rule("C16.rewrite-loop", "every member once, in order, same name, verbatim bytes except the model pickle", 2)
    rep.rule("C16.same-member", "the replaced member is selected like the parsed member", 1)
    rep.rule("C16.one-injection", "exactly one injection call with the payload, before the pickle is written", 2)
    rep.rule("C16.input-read-only", "input only read; overwrite = rename output onto input, no stray output", 2)
    rep.rule("C16.fresh-parse", "the parsed pickle comes from this wrapper's archive, not from a process-wide cache", 1)
    rep.rule("C16.payload-encodable", "a text payload the injector accepts also serialises (no failure from dumps() once the output archive is open)", 10)
    from .c15 import check_accepted_is_encodable

    check_accepted_is_encodable(load_repo(), rep, "C16.payload-encodable", tier)
    global MEMBERS
    orders = [list(MEMBERS)]
    if tier == "thorough":
        import itertools
        base = list(MEMBERS)
        orders += [base[1:] + base[:1], base[::-1], base[3:] + base[:3], [base[1], base[0]] + base[2:], base + [("archive/extra/data.pkl.bak", b"bak")]]
    all_orders = orders
    for order_i, order in enumerate(all_orders):
      MEMBERS = order
      names = [n for n, _ in MEMBERS]
      for overwrite, IN, OUT in [(False, "INPUT.pt", "OUTPUT.pt"), (True, "INPUT.pt", "OUTPUT.pt")] + ([(False, "models/model.pt", "scratch/model.pt"), (True, "models/model.pt", "scratch/model.pt")] if order_i == 0 else []):
          f, log = interpret(repo, overwrite, IN, OUT)
          q, file = f.qualname, f.file
          tag = f"overwrite={overwrite}" + (f",order#{order_i}" if order_i else "") + (",same-name-other-directory" if IN != "INPUT.pt" else "")
          writes = [x for x in log if x[0] == "write"]
          injects = [x for x in log if x[0] == "inject"]
          raised = [x for x in log if x[0] == "raised"]
          if raised:
              rep.bad("C16.rewrite-loop", q, f"raises:{raised[0][1]}", f"[{tag}] the insertion arm raises {raised[0][1]} on an ordinary archive", file, f.line)
              continue
          problems = []
          wn = [w[1] for w in writes]
          if wn != names:
              missing = [n for n in names if n not in wn]
              dup = sorted({n for n in wn if wn.count(n) > 1})
              extra = [n for n in wn if n not in names]
              problems.append(f"members written {wn} vs archive {names}" + (f"; missing {missing}" if missing else "") + (f"; written twice {dup}" if dup else "") + (f"; renamed/new {extra}" if extra else ""))
          for w in writes:
              nm, data = w[1], w[2]
              orig = dict(MEMBERS).get(nm)
              if nm.endswith("/data.pkl") and nm == "archive/data.pkl":
                  if not (isinstance(data, tuple) and data[0] == "INJECTED-PICKLE"):
                      problems.append(f"the model pickle member is written as {data!r}, not as the re-serialised injected pickle")
                  elif data[1] != 1:
                      problems.append(f"the model pickle was serialised after {data[1]} injection call(s)")
              elif data != orig:
                  problems.append(f"member {nm} is written as {data!r} instead of its own bytes {orig!r}")
          outs = {w[3] for w in writes}
          if outs - {OUT}:
              problems.append(f"members are written into {sorted(outs)}")
          if problems:
              rep.bad("C16.rewrite-loop", q, f"copy-discipline:{tag}", f"[{tag}] " + "; ".join(problems[:3]), file, f.line)
          else:
              rep.ok("C16.rewrite-loop", q, f"[{tag}] {len(writes)} members written once each, in order, verbatim except archive/data.pkl", f"{file}:{f.line}")
          # one injection, with the payload, before the first write of the model pickle
          if len(injects) == 1 and injects[0][2][:1] == ("PAYLOAD",):
              i_inj = log.index(injects[0])
              first_w = min((log.index(w) for w in writes), default=10**9)
              if i_inj < first_w:
                  rep.ok("C16.one-injection", q, f"[{tag}] one {injects[0][1]}(payload) before anything is written", f"{file}:{f.line}")
              else:
                  rep.bad("C16.one-injection", q, f"inject-after-write:{tag}", f"[{tag}] the injection happens after members were already written", file, f.line)
          else:
              rep.bad("C16.one-injection", q, f"injection-count:{len(injects)}", f"[{tag}] {len(injects)} injection call(s) {[(x[1], x[2]) for x in injects]}; exactly one with the payload is required", file, f.line)
          # input path discipline
          zin = [x for x in log if x[0] == "zip-open" and x[1] == IN]
          bad_modes = [x for x in zin if x[2] != "r"] + [x for x in log if x[0] == "open" and x[1] == IN and any(c in str(x[2]) for c in "wax+")]
          renames = [x for x in log if x[0] in ("rename", "move", "replace", "copy", "copyfile")]
          removes = [x for x in log if x[0] == "remove"]
          if bad_modes:
              rep.bad("C16.input-read-only", q, f"input-opened-for-write:{tag}", f"[{tag}] the input archive is opened with mode {bad_modes[0][2]!r}", file, f.line)
          elif not overwrite:
              if renames or removes or any(w[3] == IN for w in writes):
                  rep.bad("C16.input-read-only", q, "input-touched-without-overwrite", f"[{tag}] the input (or output) is renamed/removed/written although overwrite was not requested: {renames + removes}", file, f.line)
              else:
                  rep.ok("C16.input-read-only", q, f"[{tag}] input opened read-only {len(zin)} time(s); nothing renamed or removed", f"{file}:{f.line}")
          else:
              ok = len(renames) == 1 and renames[0][1] == OUT and renames[0][2] == IN and not any(r[1] == IN for r in removes)
              if ok:
                  rep.ok("C16.input-read-only", q, f"[{tag}] output renamed onto the input; no stray output left (removes: {removes})", f"{file}:{f.line}")
              else:
                  rep.bad("C16.input-read-only", q, "overwrite-discipline", f"[{tag}] with overwrite the file operations are {renames + removes}; expected exactly `rename OUTPUT -> INPUT` and no removal of the input", file, f.line)
    MEMBERS = all_orders[0]
    # ---- same-member predicate
    c = repo.cls(W)
    getter = c.method("pickled", "property")
    inj = c.method("inject_payload")
    def preds(fn):
        out = []
        for n in body_walk(fn.node):
            if isinstance(n, ast.Call) and isinstance(n.func, ast.Attribute) and n.func.attr in ("endswith", "startswith", "__eq__") and n.args and isinstance(n.args[0], ast.Constant):
                out.append((n.func.attr, n.args[0].value))
            if isinstance(n, ast.Compare) and len(n.ops) == 1 and isinstance(n.ops[0], (ast.Eq, ast.In)) and any(isinstance(x, ast.Constant) and isinstance(x.value, str) and "data.pkl" in x.value for x in [n.left] + n.comparators):
                k = [x.value for x in [n.left] + n.comparators if isinstance(x, ast.Constant)][0]
                out.append((type(n.ops[0]).__name__, k))
        return out
    pg, pi = preds(getter), preds(inj)
    if pg and pi and set(pg) == set(pi) and len(set(pg)) == 1:
        rep.ok("C16.same-member", c.qualname, f"parsed and replaced member both selected by `{pg[0][0]}({pg[0][1]!r})`", f"{getter.file}:{getter.line}")
    else:
        rep.bad("C16.same-member", c.qualname, "predicates-differ", f"the member parsed is selected by {pg} but the member replaced by {pi}: a different member than the one analysed/injected can be overwritten (or none)", getter.file, getter.line)
    # ---- fresh parse per wrapper
    loads = [n for n in body_walk(getter.node) if isinstance(n, ast.Call) and dotted(n.func) == "Pickled.load"]
    zips = [n for n in body_walk(getter.node) if isinstance(n, ast.Call) and dotted(n.func) == "zipfile.ZipFile" and n.args and dotted(n.args[0]) == "self.path"]
    cached = []
    for fn in repo.functions.values():
        if fn.module.name == "fickling.pytorch":
            for d in getattr(fn.node, "decorator_list", []):
                dn = dotted(d) or (dotted(d.func) if isinstance(d, ast.Call) else "") or ""
                if dn.split(".")[-1] in ("lru_cache", "cache", "cached_property"):
                    cached.append(fn)
    stores = [n for n in body_walk(getter.node) if isinstance(n, ast.Assign) and dotted(n.targets[0]) == "self._pickled"]
    if loads and zips and not cached and stores and all(s.value is loads[0] or any(s.value is x for x in loads) for s in stores):
        rep.ok("C16.fresh-parse", getter.qualname, "self._pickled = Pickled.load(<data.pkl of zipfile.ZipFile(self.path, 'r')>), per wrapper instance", f"{getter.file}:{getter.line}")
    else:
        why = f"memoised helper {cached[0].qualname}" if cached else "the getter does not parse the member of self.path itself"
        rep.bad("C16.fresh-parse", getter.qualname, "shared-parse", f"the parsed model pickle is not obtained per wrapper from the input archive ({why}): a Pickled object shared between wrappers is mutated by each injection, so a second injection into the same file carries both payloads", getter.file, getter.line)
